(* Bezier knot vectors, Bernstein polynomials, and Bezier degree elevation.
   bez p a b = [a;..;a; b;..;b] (p+1 copies each).  On it the Cox-de Boor basis is the
   Bernstein basis in t = (u-a)/(b-a) (B1), and the elevation matrix of Model/Ops.v
   (degree_increase_bezier) leaves the curve unchanged (B2 one step, B3 several steps). *)
From Coq Require Import QArith ZArith List Lia Lqa Arith Bool Setoid Morphisms.
From NurbsV Require Import Base.QList Spec.BSpline Spec.KnotSpec Model.CurveM Model.CurveOps Model.Ops
  Proofs.Local Proofs.BasisTheory Proofs.KVProofs Proofs.EvalProofs.
Import ListNotations.
Open Scope Q_scope.

(* ------------------------------------------------------------------ *)
(* 0. the Bezier knot vector                                           *)
(* ------------------------------------------------------------------ *)
Definition bez (p : nat) (a b : Q) : list Q := repeat a (p + 1) ++ repeat b (p + 1).

Lemma bez_length p a b : length (bez p a b) = (2 * p + 2)%nat.
Proof. unfold bez. rewrite app_length, !repeat_length. lia. Qed.

Lemma nth_repeat_lt (a d : Q) : forall n k, (k < n)%nat -> nth k (repeat a n) d = a.
Proof.
  induction n as [|n IH]; intros [|k] H; try lia; cbn [repeat nth]; [reflexivity|].
  apply IH. lia.
Qed.

Lemma nth_repeat_app (a b d : Q) n m k :
  nth k (repeat a n ++ repeat b m) d =
  if (k <? n)%nat then a else if (k <? n + m)%nat then b else d.
Proof.
  destruct (Nat.ltb_spec k n) as [L|L].
  - rewrite app_nth1 by (rewrite repeat_length; exact L). apply nth_repeat_lt. exact L.
  - rewrite app_nth2 by (rewrite repeat_length; exact L). rewrite repeat_length.
    destruct (Nat.ltb_spec k (n + m)) as [L2|L2].
    + apply nth_repeat_lt. lia.
    + apply nth_overflow. rewrite repeat_length. lia.
Qed.

Lemma last_bez p a b : last (bez p a b) 0 = b.
Proof.
  rewrite last_nth, bez_length. unfold bez. rewrite nth_repeat_app.
  destruct (Nat.ltb_spec (2 * p + 2 - 1) (p + 1)); [lia|].
  destruct (Nat.ltb_spec (2 * p + 2 - 1) (p + 1 + (p + 1))); [reflexivity | lia].
Qed.

Lemma bez_lo p a b k : (k <= p)%nat -> nthq (bez p a b) k = a.
Proof.
  intro H. unfold nthq. unfold bez at 1. rewrite nth_repeat_app.
  destruct (Nat.ltb_spec k (p + 1)); [reflexivity | lia].
Qed.

Lemma bez_hi p a b k : (p < k)%nat -> nthq (bez p a b) k = b.
Proof.
  intro H. unfold nthq. rewrite last_bez. unfold bez. rewrite nth_repeat_app.
  destruct (Nat.ltb_spec k (p + 1)); [lia|].
  destruct (Nat.ltb_spec k (p + 1 + (p + 1))); reflexivity.
Qed.

Lemma npts_bez p a b : npts_of (bez p a b) p = S p.
Proof. unfold npts_of. rewrite bez_length. lia. Qed.

Lemma bez_mono p a b : a <= b -> mono (nthq (bez p a b)).
Proof.
  intros H i.
  destruct (le_lt_dec i p) as [L|L]; [rewrite (bez_lo p a b i L) | rewrite (bez_hi p a b i L)];
  (destruct (le_lt_dec (S i) p) as [L2|L2];
   [rewrite (bez_lo p a b (S i) L2) | rewrite (bez_hi p a b (S i) L2)]); try lra; lia.
Qed.

Lemma umin_bez p a b : umin_of (bez p a b) p = a.
Proof. unfold umin_of. apply bez_lo. lia. Qed.

Lemma umax_bez p a b : umax_of (bez p a b) p = b.
Proof. unfold umax_of. apply bez_hi. rewrite bez_length. lia. Qed.

Lemma in_range_bez p a b u : in_range (bez p a b) p u = true <-> a <= u <= b.
Proof.
  unfold in_range. rewrite umin_bez, umax_bez, andb_true_iff, !Qleb_le. tauto.
Qed.

(* ---- B0: well-formedness ---- *)
Lemma filter_repeat (x y : Q) n :
  filter (Qeqb x) (repeat y n) = if Qeqb x y then repeat y n else [].
Proof.
  induction n as [|n IH]; cbn [repeat filter].
  - destruct (Qeqb x y); reflexivity.
  - rewrite IH. destruct (Qeqb x y); reflexivity.
Qed.

Lemma count_q_bez p a b x :
  count_q x (bez p a b) =
  ((if Qeqb x a then p + 1 else 0) + (if Qeqb x b then p + 1 else 0))%nat.
Proof.
  unfold count_q, bez. rewrite filter_app, app_length, !filter_repeat.
  destruct (Qeqb x a), (Qeqb x b); cbn [length]; rewrite ?repeat_length; reflexivity.
Qed.

Lemma sorted_repeat (b : Q) n : sorted_b (repeat b n) = true.
Proof.
  induction n as [|n IH]; [reflexivity|].
  destruct n as [|n]; [reflexivity|].
  change (repeat b (S (S n))) with (b :: b :: repeat b n).
  rewrite sorted_b_cons2. apply andb_true_iff. split; [apply Qleb_le; lra | exact IH].
Qed.

Lemma bez_sorted_repeat_app (a b : Q) n m : a <= b -> sorted_b (repeat a n ++ repeat b m) = true.
Proof.
  intro H. induction n as [|n IH]; [apply sorted_repeat|].
  destruct n as [|n].
  - destruct m as [|m]; [reflexivity|].
    change (repeat a 1 ++ repeat b (S m)) with (a :: b :: repeat b m).
    rewrite sorted_b_cons2. apply andb_true_iff. split; [apply Qleb_le; exact H|].
    apply (sorted_repeat b (S m)).
  - change (repeat a (S (S n)) ++ repeat b m) with (a :: a :: (repeat a n ++ repeat b m)).
    rewrite sorted_b_cons2. apply andb_true_iff. split; [apply Qleb_le; lra | exact IH].
Qed.

Theorem bez_WF p a b : a < b -> WF (bez p a b) p.
Proof.
  intro H. unfold WF, wf_b.
  assert (F : first_q (bez p a b) = a).
  { unfold first_q, bez. rewrite nth_repeat_app.
    destruct (Nat.ltb_spec 0 (p + 1)); [reflexivity | lia]. }
  assert (L : last_q (bez p a b) = b) by apply last_bez.
  assert (Eab : Qeqb a b = false) by (apply Qeqb_neq; lra).
  assert (Eba : Qeqb b a = false) by (apply Qeqb_neq; lra).
  assert (Eaa : Qeqb a a = true) by (apply Qeqb_eq; reflexivity).
  assert (Ebb : Qeqb b b = true) by (apply Qeqb_eq; reflexivity).
  rewrite F, L, !count_q_bez, Eab, Eba, Eaa, Ebb, bez_length.
  repeat (apply andb_true_iff; split).
  - apply bez_sorted_repeat_app. lra.
  - apply Nat.leb_le. lia.
  - apply Nat.eqb_eq. lia.
  - apply Nat.eqb_eq. lia.
  - apply forallb_forall. intros x Hx. rewrite count_q_bez. apply Nat.leb_le.
    unfold bez in Hx. apply in_app_or in Hx.
    destruct Hx as [Hx|Hx]; apply repeat_spec in Hx; rewrite Hx.
    + rewrite Eaa, Eab. lia.
    + rewrite Eba, Ebb. lia.
Qed.

(* ------------------------------------------------------------------ *)
(* 1. Bernstein polynomials by their recurrence                        *)
(* ------------------------------------------------------------------ *)
Fixpoint bern (t : Q) (n k : nat) : Q :=
  match n with
  | O => match k with O => 1 | S _ => 0 end
  | S n' => match k with
            | O => (1 - t) * bern t n' O
            | S k' => (1 - t) * bern t n' (S k') + t * bern t n' k'
            end
  end.

Lemma bern_S_0 t n : bern t (S n) 0 = (1 - t) * bern t n 0.
Proof. reflexivity. Qed.
Lemma bern_S_S t n k : bern t (S n) (S k) = (1 - t) * bern t n (S k) + t * bern t n k.
Proof. reflexivity. Qed.

Lemma bern_zero t : forall n k, (n < k)%nat -> bern t n k == 0.
Proof.
  induction n as [|n IH]; intros [|k] H; try lia.
  - reflexivity.
  - rewrite bern_S_S, (IH (S k)), (IH k) by lia. ring.
Qed.

Lemma bern_proper t t' : t == t' -> forall n k, bern t n k == bern t' n k.
Proof.
  intro H. induction n as [|n IH]; intros [|k]; cbn [bern]; try reflexivity.
  - rewrite IH, H. reflexivity.
  - rewrite !IH, H. reflexivity.
Qed.

(* ------------------------------------------------------------------ *)
(* 2. B1: Cox-de Boor on bez = Bernstein                               *)
(* ------------------------------------------------------------------ *)
Section Bern.
Variable p : nat.
Variables a b : Q.
Hypothesis Hab : a < b.
Variable u : Q.
Let U := nthq (bez p a b).
Let t := (u - a) / (b - a).

Lemma bcoefA i m : (i <= p)%nat -> (p < m)%nat -> (u - U i) / (U m - U i) == t.
Proof. intros A B. unfold U. rewrite (bez_lo p a b i A), (bez_hi p a b m B). reflexivity. Qed.

Lemma bcoefB i m : (i <= p)%nat -> (p < m)%nat -> (U m - u) / (U m - U i) == 1 - t.
Proof.
  intros A B. unfold U, t. rewrite (bez_lo p a b i A), (bez_hi p a b m B). field. lra.
Qed.

(* closed form of the span-local recursion on span p, all sub-degrees j <= p *)
Lemma Nloc_bez : forall j, (j <= p)%nat -> forall k,
  Nloc U p j (p - j + k) u == bern t j k.
Proof.
  induction j as [|j IH]; intros Hj k.
  - cbn [Nloc]. destruct k as [|k]; cbn [bern].
    + replace (p - 0 + 0)%nat with p by lia. rewrite Nat.eqb_refl. reflexivity.
    + destruct (Nat.eqb_spec (p - 0 + S k) p); [lia | reflexivity].
  - assert (Hj' : (j <= p)%nat) by lia. specialize (IH Hj').
    cbn [Nloc]. destruct k as [|k].
    + rewrite (Nloc_zero U p j (p - S j + 0)%nat u) by lia.
      replace (S (p - S j + 0)) with (p - j + 0)%nat by lia.
      rewrite (IH 0%nat), bern_S_0.
      rewrite (bcoefB (p - S j + 0 + 1) (p - S j + 0 + S j + 1)) by lia. ring.
    + replace (p - S j + S k)%nat with (p - j + k)%nat by lia.
      replace (S (p - j + k)) with (p - j + S k)%nat by lia.
      rewrite (IH k), (IH (S k)), bern_S_S.
      destruct (le_lt_dec k j) as [L|L].
      * rewrite (bcoefA (p - j + k) (p - j + k + S j)) by lia.
        destruct (le_lt_dec (S k) j) as [L2|L2].
        -- rewrite (bcoefB (p - j + k + 1) (p - j + k + S j + 1)) by lia. ring.
        -- rewrite (bern_zero t j (S k)) by lia. ring.
      * rewrite (bern_zero t j k), (bern_zero t j (S k)) by lia. ring.
Qed.
End Bern.

(* the parameter t of u in [a, b] *)
Definition tpar (a b u : Q) : Q := (u - a) / (b - a).

(* B1, general sub-degree: on bez p a b, for a <= u <= b and j <= p,
   N_{p-j+k, j}(u) = b_{j,k}(t)  (all k; both sides vanish for k > j) *)
Theorem Nspec_bez_gen p a b u j k : a < b -> a <= u <= b -> (j <= p)%nat ->
  Nspec (bez p a b) p j (p - j + k) u == bern (tpar a b u) j k.
Proof.
  intros Hab [Hu1 Hu2] Hj. unfold Nspec. rewrite npts_bez.
  pose proof (bez_mono p a b ltac:(lra)) as HM.
  destruct (Qlt_le_dec u b) as [L|L].
  - rewrite (N_local (nthq (bez p a b)) (S p) p u HM).
    + apply Nloc_bez; assumption.
    + rewrite bez_lo by lia. exact Hu1.
    + rewrite bez_hi by lia. exact L.
    + rewrite bez_hi by lia. lra.
  - assert (E : u == nthq (bez p a b) (S p)) by (rewrite bez_hi by lia; lra).
    rewrite (N_proper _ _ _ _ _ _ E).
    rewrite (N_umax (nthq (bez p a b)) (S p) HM).
    + replace (S p - 1)%nat with p by lia.
      rewrite <- (Nloc_proper _ _ _ _ _ _ E).
      apply Nloc_bez; assumption.
    + lia.
    + replace (S p - 1)%nat with p by lia. rewrite bez_lo, bez_hi by lia. exact Hab.
    + intros i Hi. rewrite !bez_hi by lia. reflexivity.
Qed.

(* below the support *)
Theorem Nspec_bez_low p a b u j i : a < b -> a <= u <= b -> (i + j < p)%nat ->
  Nspec (bez p a b) p j i u == 0.
Proof.
  intros Hab [Hu1 Hu2] Hj. unfold Nspec. rewrite npts_bez.
  pose proof (bez_mono p a b ltac:(lra)) as HM.
  destruct (Qlt_le_dec u b) as [L|L].
  - rewrite (N_local (nthq (bez p a b)) (S p) p u HM).
    + apply Nloc_zero. lia.
    + rewrite bez_lo by lia. exact Hu1.
    + rewrite bez_hi by lia. exact L.
    + rewrite bez_hi by lia. lra.
  - assert (E : u == nthq (bez p a b) (S p)) by (rewrite bez_hi by lia; lra).
    rewrite (N_proper _ _ _ _ _ _ E).
    rewrite (N_umax (nthq (bez p a b)) (S p) HM).
    + apply Nloc_zero. lia.
    + lia.
    + replace (S p - 1)%nat with p by lia. rewrite bez_lo, bez_hi by lia. exact Hab.
    + intros i' Hi. rewrite !bez_hi by lia. reflexivity.
Qed.

(* B1: full degree *)
Theorem Nspec_bez p a b u i : a < b -> a <= u <= b ->
  Nspec (bez p a b) p p i u == bern (tpar a b u) p i.
Proof.
  intros Hab Hu. pose proof (Nspec_bez_gen p a b u p i Hab Hu (le_n p)) as H.
  replace (p - p + i)%nat with i in H by lia. exact H.
Qed.

(* B1, recurrence form *)
Corollary Nspec_bez_rec p a b u i : a < b -> a <= u <= b ->
  Nspec (bez (S p) a b) (S p) (S p) (S i) u ==
    (1 - tpar a b u) * Nspec (bez p a b) p p (S i) u + tpar a b u * Nspec (bez p a b) p p i u.
Proof. intros Hab Hu. rewrite !Nspec_bez by assumption. reflexivity. Qed.

Corollary Nspec_bez_rec0 p a b u : a < b -> a <= u <= b ->
  Nspec (bez (S p) a b) (S p) (S p) 0 u == (1 - tpar a b u) * Nspec (bez p a b) p p 0 u.
Proof. intros Hab Hu. rewrite !Nspec_bez by assumption. reflexivity. Qed.

(* ------------------------------------------------------------------ *)
(* 3. the elevation identity                                           *)
(* ------------------------------------------------------------------ *)
Definition natQ (n : nat) : Q := inject_Z (Z.of_nat n).

Lemma natQ_S n : natQ (S n) == natQ n + 1.
Proof. unfold natQ. rewrite Nat2Z.inj_succ. unfold Z.succ. rewrite inject_Z_plus. reflexivity. Qed.

Lemma natQ_0 : natQ 0 == 0.
Proof. reflexivity. Qed.

Lemma natQ_nonneg n : 0 <= natQ n.
Proof. unfold natQ. change 0 with (inject_Z 0). rewrite <- Zle_Qle. lia. Qed.

Lemma lincomb3 (L R A1 B1 A2 B2 A3 B3 c1 c2 c3 : Q) :
  A1 == B1 -> A2 == B2 -> A3 == B3 ->
  L - R == c1 * (A1 - B1) + c2 * (A2 - B2) + c3 * (A3 - B3) -> L == R.
Proof.
  intros H1 H2 H3 H. rewrite H1, H2, H3 in H.
  assert (L - R == 0) by (rewrite H; ring). lra.
Qed.

Lemma bern_elev t : forall n i,
  (natQ n + 1) * bern t n i ==
  (natQ n + 1 - natQ i) * bern t (S n) i + (natQ i + 1) * bern t (S n) (S i).
Proof.
  induction n as [|n IH]; intro i.
  - destruct i as [|[|i]]; cbn [bern]; rewrite ?natQ_S, ?natQ_0; ring.
  - destruct i as [|i].
    + pose proof (IH 0%nat) as I0.
      assert (E1 : bern t (S n) 0 == (1 - t) * bern t n 0) by reflexivity.
      rewrite (bern_S_0 t (S n)), (bern_S_S t (S n)).
      rewrite natQ_S, natQ_0 in *.
      apply (lincomb3 _ _ _ _ _ _ _ _ (1 - t) 0 (natQ n + 1) I0 I0 E1).
      ring.
    + pose proof (IH (S i)) as I1. pose proof (IH i) as I0.
      assert (E1 : bern t (S n) (S i) == (1 - t) * bern t n (S i) + t * bern t n i) by reflexivity.
      rewrite !(bern_S_S t (S n)).
      rewrite !natQ_S in *.
      apply (lincomb3 _ _ _ _ _ _ _ _ (1 - t) t (natQ n + 1) I1 I0 E1).
      ring.
Qed.

(* divided form: b_{p,c} = (1 - c/(p+1)) b_{p+1,c} + ((c+1)/(p+1)) b_{p+1,c+1} *)
Definition ealpha (p r : nat) : Q := natQ r / natQ (p + 1).

Lemma natQ_p1_pos p : 0 < natQ (p + 1).
Proof. replace (p + 1)%nat with (S p) by lia. rewrite natQ_S. pose proof (natQ_nonneg p). lra. Qed.

Lemma ealpha_0 p : ealpha p 0 == 0.
Proof. unfold ealpha. rewrite natQ_0. unfold Qdiv. ring. Qed.

Lemma ealpha_top p : ealpha p (S p) == 1.
Proof.
  unfold ealpha. replace (p + 1)%nat with (S p) by lia.
  pose proof (natQ_p1_pos p) as H. replace (p + 1)%nat with (S p) in H by lia.
  field. lra.
Qed.

Lemma bern_elev_div t p c :
  bern t p c == (1 - ealpha p c) * bern t (S p) c + ealpha p (S c) * bern t (S p) (S c).
Proof.
  pose proof (bern_elev t p c) as H. pose proof (natQ_p1_pos p) as Hp.
  unfold ealpha. replace (p + 1)%nat with (S p) in * by lia.
  rewrite !natQ_S in *.
  set (x := bern t p c) in *. set (y := bern t (S p) c) in *. set (z := bern t (S p) (S c)) in *.
  assert (E : x == ((natQ p + 1 - natQ c) * y + (natQ c + 1) * z) / (natQ p + 1)).
  { rewrite <- H. field. lra. }
  rewrite E. field. lra.
Qed.

(* ------------------------------------------------------------------ *)
(* 4. sums with one non-zero term; rows of the elevation matrix        *)
(* ------------------------------------------------------------------ *)
Lemma qsum_single (f : nat -> Q) k : forall n a, (a <= k < a + n)%nat ->
  (forall c, c <> k -> f c == 0) -> qsum (map f (seq a n)) == f k.
Proof.
  induction n as [|n IH]; intros a Hk Hz; [lia|].
  cbn [seq map qsum]. destruct (Nat.eq_dec a k) as [E|E].
  - rewrite E. rewrite (qsum_map_zero f (seq (S k) n)).
    + ring.
    + intros i Hi. apply in_seq in Hi. apply Hz. lia.
  - rewrite (Hz a E), (IH (S a)) by (try lia; exact Hz). ring.
Qed.

Lemma nth_map_seq0 {B} (f : nat -> B) d n i : (i < n)%nat -> nth i (map f (seq 0 n)) d = f i.
Proof.
  intro H. rewrite (nth_map_in f 0%nat d) by (rewrite seq_length; exact H).
  rewrite seq_nth by exact H. reflexivity.
Qed.

Lemma dot_seq (f : nat -> Q) (P : list Q) n : length P = n ->
  dot (map f (seq 0 n)) P == qsum (map (fun c => f c * nth c P 0) (seq 0 n)).
Proof.
  intro HL. rewrite dot_correct.
  rewrite (qsum_map2_seq (fun x y => x * y) 0) by (rewrite map_length, seq_length; lia).
  rewrite map_length, seq_length.
  apply qsum_map_ext. intros i Hi. apply in_seq in Hi.
  rewrite nth_map_seq0 by lia. reflexivity.
Qed.

Lemma elev_entry_eq p r c : (c <= p)%nat -> (r <= S p)%nat ->
  elev_entry p r c ==
    (if Nat.eqb (S c) r then ealpha p r else 0) + (if Nat.eqb c r then 1 - ealpha p r else 0).
Proof.
  intros Hc Hr. unfold elev_entry. cbv zeta.
  change (inject_Z (Z.of_nat r) / inject_Z (Z.of_nat (p + 1))) with (ealpha p r).
  destruct (Nat.eqb_spec r 0) as [R0|R0].
  - rewrite R0.
    destruct (Nat.eqb_spec (S c) 0); [lia|]. destruct (Nat.eqb_spec c 0); rewrite ?ealpha_0; ring.
  - destruct (Nat.leb_spec r p) as [L|L].
    + destruct (Nat.eqb_spec (S c) r), (Nat.eqb_spec c r); try lia; rewrite ?Qred_correct; ring.
    + assert (E : r = S p) by lia. rewrite E.
      destruct (Nat.eqb_spec (S c) (S p)), (Nat.eqb_spec c p), (Nat.eqb_spec c (S p)); try lia;
        rewrite ?ealpha_top; ring.
Qed.

(* row r of the elevation matrix applied to P *)
Lemma elev_row p r (P : list Q) : length P = S p -> (r <= S p)%nat ->
  dot (map (fun c => elev_entry p r c) (seq 0 (p + 1))) P ==
  ealpha p r * nth (pred r) P 0 + (1 - ealpha p r) * nth r P 0.
Proof.
  intros HL Hr. replace (p + 1)%nat with (S p) by lia.
  rewrite dot_seq by exact HL.
  rewrite (qsum_map_ext _ (fun c => (if Nat.eqb (S c) r then ealpha p r * nth c P 0 else 0)
                                  + (if Nat.eqb c r then (1 - ealpha p r) * nth c P 0 else 0))).
  2:{ intros c Hc. apply in_seq in Hc. rewrite elev_entry_eq by lia.
      destruct (Nat.eqb (S c) r), (Nat.eqb c r); ring. }
  rewrite qsum_map_add.
  assert (S1 : qsum (map (fun c => if Nat.eqb (S c) r then ealpha p r * nth c P 0 else 0) (seq 0 (S p)))
               == ealpha p r * nth (pred r) P 0).
  { destruct r as [|r'].
    - rewrite ealpha_0. rewrite qsum_map_zero; [ring|]. intros c _. reflexivity.
    - etransitivity; [apply (qsum_single _ r')|].
      + lia.
      + intros c Hc. destruct (Nat.eqb_spec (S c) (S r')); [lia | reflexivity].
      + cbv beta. rewrite Nat.eqb_refl. reflexivity. }
  assert (S2 : qsum (map (fun c => if Nat.eqb c r then (1 - ealpha p r) * nth c P 0 else 0) (seq 0 (S p)))
               == (1 - ealpha p r) * nth r P 0).
  { destruct (le_lt_dec r p) as [L|L].
    - etransitivity; [apply (qsum_single _ r)|].
      + lia.
      + intros c Hc. destruct (Nat.eqb_spec c r); [lia | reflexivity].
      + cbv beta. rewrite Nat.eqb_refl. reflexivity.
    - rewrite (nth_overflow P) by lia. rewrite qsum_map_zero; [ring|].
      intros c Hc. apply in_seq in Hc. destruct (Nat.eqb_spec c r); [lia | reflexivity]. }
  rewrite S1, S2. reflexivity.
Qed.

Lemma mvec_length A P : length (mvec A P) = length A.
Proof. unfold mvec. apply map_length. Qed.

Lemma elev_matrix_length p : length (elev_matrix p) = S (S p).
Proof. unfold elev_matrix. rewrite map_length, seq_length. lia. Qed.

Lemma elev_nth p r (P : list Q) : length P = S p -> (r <= S p)%nat ->
  nth r (mvec (elev_matrix p) P) 0 ==
  ealpha p r * nth (pred r) P 0 + (1 - ealpha p r) * nth r P 0.
Proof.
  intros HL Hr. unfold mvec, elev_matrix. rewrite map_map.
  rewrite nth_map_seq0 by lia. apply elev_row; assumption.
Qed.

(* ------------------------------------------------------------------ *)
(* 5. B2: one elevation step preserves the curve                       *)
(* ------------------------------------------------------------------ *)
Lemma curve_bez p a b (P : list Q) u : a < b -> a <= u <= b ->
  curve_spec1 (bez p a b) p P u ==
  qsum (map (fun i => bern (tpar a b u) p i * nth i P 0) (seq 0 (S p))).
Proof.
  intros Hab Hu. unfold curve_spec1. rewrite npts_bez.
  apply qsum_map_ext. intros i _. rewrite Nspec_bez by assumption. reflexivity.
Qed.

Lemma curve_spec1_ext U p (P P' : list Q) u :
  (forall i, (i < npts_of U p)%nat -> nth i P 0 == nth i P' 0) ->
  curve_spec1 U p P u == curve_spec1 U p P' u.
Proof.
  intro H. unfold curve_spec1. apply qsum_map_ext. intros i Hi. apply in_seq in Hi.
  rewrite H by lia. reflexivity.
Qed.

Theorem bezier_elevate_S p a b (P : list Q) u : a < b -> length P = S p -> a <= u <= b ->
  curve_spec1 (bez (S p) a b) (S p) (mvec (elev_matrix p) P) u ==
  curve_spec1 (bez p a b) p P u.
Proof.
  intros Hab HL Hu. rewrite !curve_bez by assumption.
  set (t := tpar a b u).
  rewrite (qsum_map_ext _ (fun r => bern t (S p) r * ealpha p r * nth (pred r) P 0
                                  + bern t (S p) r * (1 - ealpha p r) * nth r P 0)).
  2:{ intros r Hr. apply in_seq in Hr. rewrite elev_nth by lia. ring. }
  rewrite qsum_map_add.
  (* first sum: drop r = 0, shift *)
  assert (S1 : qsum (map (fun r => bern t (S p) r * ealpha p r * nth (pred r) P 0) (seq 0 (S (S p))))
            == qsum (map (fun c => bern t (S p) (S c) * ealpha p (S c) * nth c P 0) (seq 0 (S p)))).
  { change (seq 0 (S (S p))) with (0%nat :: seq 1 (S p)). cbn [map qsum]. rewrite ealpha_0.
    rewrite <- (seq_shift (S p) 0), map_map. cbn [pred]. ring. }
  (* second sum: drop r = p+1 *)
  assert (S2 : qsum (map (fun r => bern t (S p) r * (1 - ealpha p r) * nth r P 0) (seq 0 (S (S p))))
            == qsum (map (fun c => bern t (S p) c * (1 - ealpha p c) * nth c P 0) (seq 0 (S p)))).
  { rewrite (seq_S (S p) 0), map_app, qsum_app. cbn [map qsum Nat.add].
    rewrite ealpha_top. ring. }
  rewrite S1, S2, <- qsum_map_add.
  apply qsum_map_ext. intros c _. rewrite (bern_elev_div t p c). ring.
Qed.

(* B2 as stated with p + 1 and in_range *)
Theorem bezier_elevate_once p a b (P : list Q) u :
  a < b -> length P = (p + 1)%nat -> in_range (bez p a b) p u = true ->
  curve_spec1 (bez (p + 1) a b) (p + 1) (mvec (elev_matrix p) P) u ==
  curve_spec1 (bez p a b) p P u.
Proof.
  intros Hab HL Hr. apply in_range_bez in Hr.
  replace (p + 1)%nat with (S p) in * by lia.
  apply bezier_elevate_S; assumption.
Qed.

(* ------------------------------------------------------------------ *)
(* 6. matrix plumbing: mvec (mmul A B) P = mvec A (mvec B P), identity *)
(* ------------------------------------------------------------------ *)
Lemma qsum_map2_nth : forall x y : list Q,
  qsum (map2 (fun s t => s * t) x y) ==
  qsum (map (fun k => nth k x 0 * nth k y 0) (seq 0 (length x))).
Proof.
  induction x as [|s x IH]; intros [|t y]; cbn [map2 length seq map qsum].
  - reflexivity.
  - reflexivity.
  - cbn [nth]. rewrite <- seq_shift, map_map.
    rewrite qsum_map_zero; [ring|]. intros i _. cbn [nth]. destruct i; ring.
  - cbn [nth]. rewrite <- seq_shift, map_map. cbn [nth]. rewrite IH. reflexivity.
Qed.

Lemma dot_nth_sum (x y : list Q) n : (length x <= n)%nat ->
  dot x y == qsum (map (fun k => nth k x 0 * nth k y 0) (seq 0 n)).
Proof.
  intro H. rewrite dot_correct, qsum_map2_nth.
  replace n with (length x + (n - length x))%nat at 1 by lia.
  rewrite seq_app, map_app, qsum_app. cbn [Nat.add].
  rewrite (qsum_map_zero _ (seq (length x) (n - length x))); [ring|].
  intros i Hi. apply in_seq in Hi. rewrite (nth_overflow x) by lia. ring.
Qed.

Lemma qsum_swap (f : nat -> nat -> Q) l2 : forall l1,
  qsum (map (fun j => qsum (map (fun k => f j k) l2)) l1) ==
  qsum (map (fun k => qsum (map (fun j => f j k) l1)) l2).
Proof.
  induction l1 as [|j0 l1 IH]; cbn [map qsum].
  - rewrite qsum_map_zero; [reflexivity|]. intros; reflexivity.
  - rewrite IH. rewrite <- (qsum_map_add (fun k => f j0 k)). reflexivity.
Qed.

Lemma nth_mcol j : forall B k, nth k (mcol j B) 0 = nth j (nth k B []) 0.
Proof.
  unfold mcol. induction B as [|r B IH]; intros [|k]; cbn [map nth]; try (destruct j; reflexivity).
  apply IH.
Qed.

Definition shape (m : nat) (B : mat) : Prop := forall row, In row B -> length row = m.

Lemma shape_nth_le m B k : shape m B -> (length (nth k B []) <= m)%nat.
Proof.
  intro H. destruct (le_lt_dec (length B) k) as [L|L].
  - rewrite nth_overflow by exact L. cbn. lia.
  - rewrite (H (nth k B [])); [lia | apply nth_In; exact L].
Qed.

Lemma mcols_shape m B : shape m B -> B <> [] -> mcols B = m.
Proof. intros H N. destruct B as [|r B]; [congruence|]. cbn. apply H. left. reflexivity. Qed.

Lemma nth_mvec B (P : list Q) k : nth k (mvec B P) 0 = dot (nth k B []) P.
Proof.
  unfold mvec. change 0 with ((fun r : list Q => dot r P) []) at 1.
  apply (map_nth (fun r : list Q => dot r P)).
Qed.

(* one row *)
Lemma row_assoc (r : list Q) B (P : list Q) m : shape m B -> length P = m ->
  dot (map (fun j => dot r (mcol j B)) (seq 0 m)) P == dot r (mvec B P).
Proof.
  intros HB HP.
  rewrite dot_seq by exact HP.
  rewrite (dot_nth_sum r (mvec B P) (length r)) by lia.
  rewrite (qsum_map_ext _ (fun j => qsum (map (fun k => nth k r 0 * nth j (nth k B []) 0 * nth j P 0)
                                            (seq 0 (length r))))).
  2:{ intros j _. rewrite (dot_nth_sum r (mcol j B) (length r)) by lia.
      rewrite Qmult_comm, <- qsum_map_scale. apply qsum_map_ext. intros k _.
      rewrite nth_mcol. ring. }
  rewrite (qsum_swap (fun j k => nth k r 0 * nth j (nth k B []) 0 * nth j P 0)).
  apply qsum_map_ext. intros k _.
  rewrite nth_mvec. rewrite (dot_nth_sum (nth k B []) P m) by (apply shape_nth_le; exact HB).
  rewrite <- qsum_map_scale. apply qsum_map_ext. intros j _. ring.
Qed.

Lemma mvec_mmul A B (P : list Q) m : shape m B -> B <> [] -> length P = m ->
  forall i, nth i (mvec (mmul A B) P) 0 == nth i (mvec A (mvec B P)) 0.
Proof.
  intros HB HN HP i. unfold mmul. rewrite (mcols_shape m B HB HN).
  destruct (le_lt_dec (length A) i) as [L|L].
  - rewrite !nth_overflow; [reflexivity | |]; unfold mvec, mmul_n; rewrite ?map_length; exact L.
  - rewrite !nth_mvec. unfold mmul_n.
    rewrite (nth_map_in _ [] []) by exact L.
    apply row_assoc; assumption.
Qed.

Lemma shape_mmul A B : shape (mcols B) (mmul A B).
Proof.
  intros row Hr. unfold mmul, mmul_n in Hr. apply in_map_iff in Hr. destruct Hr as [r [E _]].
  rewrite <- E, map_length, seq_length. reflexivity.
Qed.

Lemma mmul_length A B : length (mmul A B) = length A.
Proof. unfold mmul, mmul_n. apply map_length. Qed.

Lemma shape_ident n : shape n (ident n).
Proof.
  intros row Hr. unfold ident in Hr. apply in_map_iff in Hr. destruct Hr as [r [E _]].
  rewrite <- E, map_length, seq_length. reflexivity.
Qed.

Lemma ident_length n : length (ident n) = n.
Proof. unfold ident. rewrite map_length, seq_length. reflexivity. Qed.

Lemma mvec_ident n (P : list Q) : length P = n ->
  forall i, nth i (mvec (ident n) P) 0 == nth i P 0.
Proof.
  intros HP i. destruct (le_lt_dec n i) as [L|L].
  - rewrite !nth_overflow; [reflexivity | lia |]. rewrite mvec_length, ident_length. exact L.
  - unfold mvec, ident. rewrite map_map. rewrite nth_map_seq0 by exact L.
    rewrite dot_seq by exact HP.
    etransitivity; [apply (qsum_single _ i)|].
    + lia.
    + intros c Hc. destruct (Nat.eqb_spec i c); [lia | ring].
    + cbv beta. rewrite Nat.eqb_refl. ring.
Qed.

(* ------------------------------------------------------------------ *)
(* 7. B3: several elevation steps                                      *)
(* ------------------------------------------------------------------ *)
Lemma elevate_loop a b u : a < b -> a <= u <= b ->
  forall t p acc (P : list Q) m, length acc = S p -> shape m acc -> length P = m ->
  curve_spec1 (bez (p + t) a b) (p + t) (mvec (degree_increase_bezier_loop t p acc) P) u ==
  curve_spec1 (bez p a b) p (mvec acc P) u.
Proof.
  intros Hab Hu. induction t as [|t IH]; intros p acc P m HA HS HP.
  - cbn [degree_increase_bezier_loop]. replace (p + 0)%nat with p by lia. reflexivity.
  - cbn [degree_increase_bezier_loop]. replace (p + S t)%nat with (S p + t)%nat by lia.
    assert (HN : acc <> []) by (intro E; rewrite E in HA; discriminate).
    rewrite (IH (S p) (mmul (elev_matrix p) acc) P m).
    + rewrite (curve_spec1_ext _ _ _ (mvec (elev_matrix p) (mvec acc P))).
      * apply bezier_elevate_S; [exact Hab | rewrite mvec_length; exact HA | exact Hu].
      * intros i _. apply (mvec_mmul _ _ _ m); assumption.
    + rewrite mmul_length. apply elev_matrix_length.
    + rewrite <- (mcols_shape m acc HS HN). apply shape_mmul.
    + exact HP.
Qed.

Theorem bezier_elevate_many p t a b (P : list Q) u :
  a < b -> length P = (p + 1)%nat -> in_range (bez p a b) p u = true ->
  curve_spec1 (bez (p + t) a b) (p + t) (mvec (degree_increase_bezier p t) P) u ==
  curve_spec1 (bez p a b) p P u.
Proof.
  intros Hab HL Hr. apply in_range_bez in Hr. unfold degree_increase_bezier.
  rewrite (elevate_loop a b u Hab Hr t p (ident (p + 1)) P (p + 1)).
  - apply curve_spec1_ext. intros i _. apply mvec_ident. exact HL.
  - rewrite ident_length. lia.
  - apply shape_ident.
  - exact HL.
Qed.

(* ------------------------------------------------------------------ *)
(* 7b. vector-valued control points (mat_apply of Model/CurveOps.v)    *)
(* ------------------------------------------------------------------ *)
Lemma map2_coord kk : forall (r : list Q) (P : list pt),
  map2 (fun x pt => x * nth kk pt 0) r P = map2 (fun x y => x * y) r (coord kk P).
Proof.
  induction r as [|x r IH]; intros [|pt P]; cbn [map2 coord map]; try reflexivity.
  f_equal. apply IH.
Qed.

Lemma coord_mat_apply kk d M (P : list pt) :
  Forall (fun pt : list Q => length pt = d) P -> pdim P = d -> (kk < d)%nat ->
  forall i, nth i (coord kk (mat_apply M P)) 0 == nth i (mvec M (coord kk P)) 0.
Proof.
  intros HP Hd Hk i. rewrite coord_nth, nth_mvec. unfold mat_apply. rewrite Hd.
  destruct (le_lt_dec (length M) i) as [L|L].
  - rewrite (nth_overflow M) by exact L.
    rewrite (nth_overflow (map _ M)) by (rewrite map_length; exact L).
    destruct kk; reflexivity.
  - unfold pt in *. rewrite (nth_map_in (fun r : list Q => lincomb d r P) [] []) by exact L.
    rewrite (lincomb_nth d kk Hk _ P HP), dot_correct, map2_coord. reflexivity.
Qed.

Lemma curve_spec_mat_apply U' q U p M d (P : list pt) u :
  (forall Pl : list Q, length Pl = length P ->
     curve_spec1 U' q (mvec M Pl) u == curve_spec1 U p Pl u) ->
  Forall (fun pt : list Q => length pt = d) P -> pdim P = d ->
  Forall2 Qeq (curve_spec U' q d (mat_apply M P) u) (curve_spec U p d P u).
Proof.
  intros H HP Hd. unfold curve_spec. apply Forall2_Qeq_nth.
  - rewrite !map_length. reflexivity.
  - rewrite map_length, seq_length. intros kk Hk. rewrite !nth_map_seq0 by exact Hk.
    rewrite (curve_spec1_ext _ _ _ (mvec M (coord kk P))).
    + apply H. apply coord_length.
    + intros i _. apply (coord_mat_apply kk d); assumption.
Qed.

Theorem bezier_elevate_once_vec p d a b (P : list pt) u :
  a < b -> length P = (p + 1)%nat ->
  Forall (fun pt : list Q => length pt = d) P -> pdim P = d ->
  in_range (bez p a b) p u = true ->
  Forall2 Qeq (curve_spec (bez (p + 1) a b) (p + 1) d (mat_apply (elev_matrix p) P) u)
              (curve_spec (bez p a b) p d P u).
Proof.
  intros Hab HL HP Hd Hr. apply curve_spec_mat_apply; try assumption.
  intros Pl HPl. apply bezier_elevate_once; [exact Hab | lia | exact Hr].
Qed.

Theorem bezier_elevate_many_vec p t d a b (P : list pt) u :
  a < b -> length P = (p + 1)%nat ->
  Forall (fun pt : list Q => length pt = d) P -> pdim P = d ->
  in_range (bez p a b) p u = true ->
  Forall2 Qeq (curve_spec (bez (p + t) a b) (p + t) d (mat_apply (degree_increase_bezier p t) P) u)
              (curve_spec (bez p a b) p d P u).
Proof.
  intros Hab HL HP Hd Hr. apply curve_spec_mat_apply; try assumption.
  intros Pl HPl. apply bezier_elevate_many; [exact Hab | lia | exact Hr].
Qed.

(* ------------------------------------------------------------------ *)
(* 8. B1, closed (Bernstein) form: binom(n,k) t^k (1-t)^(n-k)          *)
(* ------------------------------------------------------------------ *)
Fixpoint binom (n k : nat) : nat :=
  match n, k with
  | _, O => 1
  | O, S _ => 0
  | S n', S k' => binom n' k' + binom n' (S k')
  end.

Fixpoint qpow (x : Q) (n : nat) : Q := match n with O => 1 | S n' => x * qpow x n' end.

Lemma binom_n_0 n : binom n 0 = 1%nat.
Proof. destruct n; reflexivity. Qed.

Lemma binom_zero : forall n k, (n < k)%nat -> binom n k = 0%nat.
Proof.
  induction n as [|n IH]; intros [|k] H; try lia; [reflexivity|].
  cbn [binom]. rewrite (IH k), (IH (S k)) by lia. reflexivity.
Qed.

Lemma natQ_plus x y : natQ (x + y) == natQ x + natQ y.
Proof. unfold natQ. rewrite Nat2Z.inj_add, inject_Z_plus. reflexivity. Qed.

Theorem bern_closed t : forall n k,
  bern t n k == natQ (binom n k) * qpow t k * qpow (1 - t) (n - k).
Proof.
  induction n as [|n IH]; intros [|k].
  - cbn [bern binom qpow Nat.sub]. change (natQ 1) with 1. ring.
  - cbn [bern binom]. change (natQ 0) with 0. ring.
  - rewrite bern_S_0, IH, !binom_n_0. rewrite Nat.sub_0_r. cbn [Nat.sub qpow]. ring.
  - rewrite bern_S_S, (IH (S k)), (IH k). cbn [binom Nat.sub]. rewrite natQ_plus.
    destruct (le_lt_dec n k) as [L|L].
    + rewrite (binom_zero n (S k)) by lia. change (natQ 0) with 0.
      replace (n - k)%nat with 0%nat by lia. cbn [qpow]. ring.
    + replace (n - k)%nat with (S (n - S k)) by lia. cbn [qpow]. ring.
Qed.

Corollary Nspec_bez_bernstein p a b u i : a < b -> a <= u <= b ->
  Nspec (bez p a b) p p i u ==
  natQ (binom p i) * qpow (tpar a b u) i * qpow (1 - tpar a b u) (p - i).
Proof. intros Hab Hu. rewrite Nspec_bez by assumption. apply bern_closed. Qed.

(* ------------------------------------------------------------------ *)
(* 9. a concrete instance (non-vacuity): p = 2 on [-1, 3/2]            *)
(* ------------------------------------------------------------------ *)
Example ex_bez_wf : WF (bez 2 (-1) (3#2)) 2.
Proof. apply bez_WF. reflexivity. Qed.

Example ex_bez_wf_compute : wf_b (bez 2 (-1) (3#2)) 2 = true.
Proof. vm_compute. reflexivity. Qed.

Example ex_in_range : in_range (bez 2 (-1) (3#2)) 2 (1#3) = true.
Proof. vm_compute. reflexivity. Qed.

Example ex_elevate_compute :
  forallb (fun u => Qeqb (curve_spec1 (bez 3 (-1) (3#2)) 3 (mvec (elev_matrix 2) [1; 2; 5]) u)
                         (curve_spec1 (bez 2 (-1) (3#2)) 2 [1; 2; 5] u))
          [-1; 0; 1#3; 1; 3#2] = true.
Proof. vm_compute. reflexivity. Qed.

Example ex_elevate_values :
  Qeqb (curve_spec1 (bez 2 (-1) (3#2)) 2 [1; 2; 5] (1#4)) (5#2) = true /\
  ql_eqb (mvec (elev_matrix 2) [1; 2; 5]) [1; 5#3; 3; 5] = true.
Proof. vm_compute. split; reflexivity. Qed.

Example ex_elevate_many_compute :
  forallb (fun u => Qeqb (curve_spec1 (bez 5 (-1) (3#2)) 5 (mvec (degree_increase_bezier 2 3) [1; 2; 5]) u)
                         (curve_spec1 (bez 2 (-1) (3#2)) 2 [1; 2; 5] u))
          [-1; 0; 1#3; 1; 3#2] = true.
Proof. vm_compute. reflexivity. Qed.

Example ex_elevate_thm :
  curve_spec1 (bez (2 + 1) (-1) (3#2)) (2 + 1) (mvec (elev_matrix 2) [1; 2; 5]) (1#3) ==
  curve_spec1 (bez 2 (-1) (3#2)) 2 [1; 2; 5] (1#3).
Proof. apply bezier_elevate_once; reflexivity. Qed.

Print Assumptions bez_WF.
Print Assumptions Nspec_bez_gen.
Print Assumptions Nspec_bez.
Print Assumptions Nspec_bez_rec.
Print Assumptions Nspec_bez_bernstein.
Print Assumptions bern_elev.
Print Assumptions bezier_elevate_once.
Print Assumptions bezier_elevate_many.
Print Assumptions bezier_elevate_once_vec.
Print Assumptions bezier_elevate_many_vec.
