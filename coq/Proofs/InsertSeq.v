(* L1: Boehm knot insertion preserves the curve, sequence level.
   Re-indexing of the sum given by [boehm] (Proofs/Boehm.v). *)
From Coq Require Import QArith List Lia Lqa Arith Bool Setoid.
From NurbsV Require Import Base.QList Proofs.Local Proofs.BasisTheory Proofs.Boehm.
Import ListNotations.
Open Scope Q_scope.

(* ------------------------------------------------------------------ *)
(* sums over [seq]                                                     *)
(* ------------------------------------------------------------------ *)
Lemma qsum_seq_last (f : nat -> Q) a m :
  qsum (map f (seq a (S m))) == qsum (map f (seq a m)) + f (a + m)%nat.
Proof. rewrite seq_S, map_app, qsum_app. cbn [map qsum]. ring. Qed.

Lemma qsum_seq_first (f : nat -> Q) a m :
  qsum (map f (seq a (S m))) == f a + qsum (map f (seq (S a) m)).
Proof. cbn [seq map qsum]. reflexivity. Qed.

Lemma qsum_seq_shift (f : nat -> Q) a m :
  qsum (map f (seq (S a) m)) == qsum (map (fun i => f (S i)) (seq a m)).
Proof. rewrite (qsum_shift f a m). reflexivity. Qed.

(* ------------------------------------------------------------------ *)
(* boundary values of alpha                                            *)
(* ------------------------------------------------------------------ *)
Lemma alpha_left U k x j i : (i + j <= k)%nat -> alpha U k x j i = 1.
Proof. intro H. unfold alpha. destruct (Nat.leb_spec (i + j) k); [reflexivity | lia]. Qed.

Lemma alpha_right U k x j i : (k < i)%nat -> alpha U k x j i = 0.
Proof.
  intro H. unfold alpha. destruct (Nat.leb_spec (i + j) k); [lia|].
  destruct (Nat.leb_spec i k); [lia | reflexivity].
Qed.

Lemma alpha_mid U k x j i : (k < i + j)%nat -> (i <= k)%nat ->
  alpha U k x j i = (x - U i) / (U (i + j)%nat - U i).
Proof.
  intros H1 H2. unfold alpha. destruct (Nat.leb_spec (i + j) k); [lia|].
  destruct (Nat.leb_spec i k); [reflexivity | lia].
Qed.

(* ------------------------------------------------------------------ *)
(* L1                                                                  *)
(* ------------------------------------------------------------------ *)
Section InsertSeq.
Variable U : nat -> Q.
Variable k : nat.
Variable x : Q.
Hypothesis HU : mono U.
Hypothesis Hx1 : U k <= x.
Hypothesis Hx2 : x < U (S k).
Variable s : nat.
Variable u : Q.
Hypothesis Hu1 : U s <= u.
Hypothesis Hu2 : u < U (S s).
Variable p : nat.
Variable n : nat.
Hypothesis Hpk : (p <= k)%nat.
Hypothesis Hsn : (s < n)%nat.
Hypothesis Hkn : (k < n)%nat.
Variable P : nat -> Q.

Let V := ins U k x.
Let s' := newspan U k x u s.

(* new control coefficients *)
Definition Qc (i : nat) : Q :=
  alpha U k x p i * P i + (1 - alpha U k x p i) * P (pred i).

Lemma Qc_0 : Qc 0 == P 0%nat.
Proof. unfold Qc. rewrite alpha_left by lia. cbn [pred]. ring. Qed.

Theorem insert_seq :
  qsum (map (fun i => Nloc V s' p i u * Qc i) (seq 0 (S n)))
  == qsum (map (fun i => Nloc U s p i u * P i) (seq 0 n)).
Proof.
  (* right-hand side through boehm *)
  rewrite (qsum_map_ext (fun i => Nloc U s p i u * P i)
            (fun i => (alpha U k x p i * Nloc V s' p i u) * P i
                    + ((1 - alpha U k x p (S i)) * Nloc V s' p (S i) u) * P i)).
  2:{ intros i _. unfold V, s'.
      rewrite (boehm U k x HU Hx1 Hx2 s u Hu1 Hu2 p i). ring. }
  rewrite (qsum_map_add (fun i => (alpha U k x p i * Nloc V s' p i u) * P i)
            (fun i => ((1 - alpha U k x p (S i)) * Nloc V s' p (S i) u) * P i)).
  (* left-hand side split in two sums *)
  rewrite (qsum_map_ext (fun i => Nloc V s' p i u * Qc i)
            (fun i => (alpha U k x p i * Nloc V s' p i u) * P i
                    + ((1 - alpha U k x p i) * Nloc V s' p i u) * P (pred i))).
  2:{ intros i _. unfold Qc. ring. }
  rewrite (qsum_map_add (fun i => (alpha U k x p i * Nloc V s' p i u) * P i)
            (fun i => ((1 - alpha U k x p i) * Nloc V s' p i u) * P (pred i))).
  (* first sum: drop the last term (alpha n = 0) *)
  rewrite (qsum_seq_last (fun i => alpha U k x p i * Nloc V s' p i u * P i) 0 n).
  cbn [Nat.add]. rewrite (alpha_right U k x p n Hkn).
  (* second sum: drop the first term (1 - alpha 0 = 0), shift *)
  rewrite (qsum_seq_first (fun i => (1 - alpha U k x p i) * Nloc V s' p i u * P (pred i)) 0 n).
  rewrite (alpha_left U k x p 0) by lia.
  rewrite (qsum_seq_shift (fun i => (1 - alpha U k x p i) * Nloc V s' p i u * P (pred i)) 0 n).
  cbn [pred]. ring.
Qed.
End InsertSeq.

Print Assumptions insert_seq.
