(* Knot insertion on curves: what the new knot vector is, and when the request is refused.
   (The for-all-u invariance of the curve is in Proofs/InsertSeq.v / InsertList.v.) *)
From Coq Require Import QArith List Bool Arith Lia Permutation.
From NurbsV Require Import Base.Res Base.QList Spec.KnotSpec Model.KV Model.Basis Model.CurveM Model.Ops Model.CurveOps.
From NurbsV Require Import Proofs.KVProofs Proofs.KVMachine.
Import ListNotations.
Open Scope Q_scope.

Lemma make_vec v d k : make v d = Ok k -> kvec k = v.
Proof. unfold make. destruct (is_valid v d); intro H; inversion H; reflexivity. Qed.

Lemma kinsert_vec k ns k' : kinsert k ns = Ok k' -> kvec k' = sortq (kvec k ++ ns) /\ kvalid k ns = true.
Proof.
  unfold kinsert. destruct (kvalid k ns) eqn:E; [|discriminate].
  intro H. split; [exact (make_vec _ _ _ H) | reflexivity].
Qed.

Lemma apply_matrix_kv c k' M c' : apply_matrix c k' M = Ok c' -> ckv c' = k'.
Proof.
  unfold apply_matrix.
  destruct (cP c) eqn:EP, (cW c) eqn:EW; cbn;
    repeat match goal with
           | |- context [if ?b then _ else _] => destruct b
           end; intro H; inversion H; reflexivity.
Qed.

Theorem c_knot_insert_knots c ns c' :
  c_knot_insert c ns = Ok c' ->
  kvec (ckv c') = sortq (kvec (ckv c) ++ ns)
  /\ sorted_b (kvec (ckv c')) = true
  /\ Permutation (kvec (ckv c')) (kvec (ckv c) ++ ns)
  /\ WF (kvec (ckv c')) (kdeg (ckv c')).
Proof.
  unfold c_knot_insert. destruct (kinsert (ckv c) ns) as [k'|e] eqn:EK; [|discriminate]. cbn [bind].
  destruct (knot_insert (ckv c) ns) as [M|e] eqn:EM; [|discriminate]. cbn [bind].
  intro H. apply apply_matrix_kv in H. subst k'.
  destruct (kinsert_vec _ _ _ EK) as [Hv _].
  rewrite Hv. repeat split.
  - apply sortq_sorted.
  - apply sortq_perm.
  - rewrite <- Hv. exact (kinsert_wf _ _ _ EK).
Qed.

Theorem c_knot_insert_outside c ns :
  kvalid (ckv c) ns = false -> c_knot_insert c ns = Err ValueError.
Proof.
  intro H. unfold c_knot_insert. rewrite (insert_outside _ _ H). reflexivity.
Qed.

(* multiset view: every value occurs in the new vector as often as in old vector + nodes *)
Lemma count_q_perm x : forall l l', Permutation l l' -> count_q x l = count_q x l'.
Proof.
  intros l l' H. unfold count_q. induction H; cbn.
  - reflexivity.
  - destruct (Qeqb x x0); cbn; congruence.
  - destruct (Qeqb x y), (Qeqb x x0); cbn; reflexivity.
  - congruence.
Qed.

Lemma count_q_app x l l' : count_q x (l ++ l') = (count_q x l + count_q x l')%nat.
Proof. unfold count_q. rewrite filter_app, app_length. reflexivity. Qed.

Theorem c_knot_insert_counts c ns c' :
  c_knot_insert c ns = Ok c' ->
  forall x, count_q x (kvec (ckv c')) = (count_q x (kvec (ckv c)) + count_q x ns)%nat.
Proof.
  intros H x. destruct (c_knot_insert_knots _ _ _ H) as (_ & _ & HP & _).
  rewrite (count_q_perm x _ _ HP). apply count_q_app.
Qed.

(* a successful insertion never pushes a multiplicity above degree' + 1 (degree' = degree of the result) *)
Theorem c_knot_insert_mult_bound c ns c' :
  c_knot_insert c ns = Ok c' ->
  forall x, In x (kvec (ckv c')) -> (count_q x (kvec (ckv c')) <= kdeg (ckv c') + 1)%nat.
Proof.
  intros H x Hin. destruct (c_knot_insert_knots _ _ _ H) as (_ & _ & _ & W).
  unfold WF, wf_b in W.
  repeat match goal with K : _ && _ = true |- _ => apply andb_true_iff in K; destruct K end.
  match goal with K : forallb _ _ = true |- _ => rewrite forallb_forall in K; specialize (K x Hin) end.
  apply Nat.leb_le. assumption.
Qed.
