(* L2: one Boehm insertion on list knot vectors preserves the curve. *)
From Coq Require Import QArith List Lia Lqa Arith Bool Setoid Morphisms.
From Coq Require Import Sorting.Permutation.
From NurbsV Require Import Base.QList Base.Res Spec.BSpline Spec.KnotSpec Model.KV Model.Ops
  Proofs.Local Proofs.Table Proofs.BasisTheory Proofs.Boehm Proofs.KVProofs Proofs.EvalProofs
  Proofs.InsertSeq.
Import ListNotations.
Open Scope Q_scope.

(* ------------------------------------------------------------------ *)
(* A. sortq (U ++ [x]) on a sorted U: x goes after every element <= x  *)
(* ------------------------------------------------------------------ *)
Fixpoint insr (x : Q) (l : list Q) : list Q :=
  match l with
  | [] => [x]
  | y :: l' => if Qltb x y then x :: l else y :: insr x l'
  end.

Lemma insr_length x l : length (insr x l) = S (length l).
Proof.
  induction l as [|y l IH]; [reflexivity|]. cbn [insr].
  destruct (Qltb x y); cbn [length]; [reflexivity | rewrite IH; reflexivity].
Qed.

Lemma sorted_head_le a l : sorted_b (a :: l) = true -> forall y, In y l -> a <= y.
Proof.
  revert a. induction l as [|b t IH]; intros a H y Hy; [destruct Hy|].
  rewrite sorted_b_cons2 in H. apply andb_true_iff in H. destruct H as [H1 H2].
  apply Qleb_le in H1. destruct Hy as [E|Hy].
  - rewrite <- E. exact H1.
  - specialize (IH b H2 y Hy). lra.
Qed.

Lemma insq_head a l : (forall y, In y l -> a <= y) -> insq a l = a :: l.
Proof.
  intro H. destruct l as [|b t]; [reflexivity|]. cbn [insq].
  assert (E : Qleb a b = true) by (apply Qleb_le, H; left; reflexivity).
  rewrite E. reflexivity.
Qed.

Lemma insr_In x l y : In y (insr x l) -> y = x \/ In y l.
Proof.
  induction l as [|b t IH]; cbn [insr].
  - intros [E|[]]. left; symmetry; exact E.
  - destruct (Qltb x b).
    + intros [E|H]; [left; symmetry; exact E | right; exact H].
    + intros [E|H]; [right; left; exact E|].
      destruct (IH H) as [E|H']; [left; exact E | right; right; exact H'].
Qed.

Lemma insq_insr a x l : sorted_b (a :: l) = true -> insq a (insr x l) = insr x (a :: l).
Proof.
  intro Hs. pose proof (sorted_head_le a l Hs) as Hle.
  cbn [insr]. destruct (Qltb_spec x a) as [L|G].
  - (* x < a <= everything: insr x l = x :: l *)
    assert (E : insr x l = x :: l).
    { destruct l as [|b t]; [reflexivity|]. cbn [insr].
      assert (Hb : Qltb x b = true).
      { apply Qltb_lt. pose proof (Hle b (or_introl eq_refl)). lra. }
      rewrite Hb. reflexivity. }
    rewrite E. cbn [insq].
    assert (E2 : Qleb a x = false) by (apply Qleb_gt; exact L).
    rewrite E2. rewrite (insq_head a l Hle). reflexivity.
  - apply insq_head. intros y Hy. destruct (insr_In x l y Hy) as [E|H].
    + rewrite E. lra.
    + apply Hle, H.
Qed.

Lemma sortq_app_single x : forall l, sorted_b l = true -> sortq (l ++ [x]) = insr x l.
Proof.
  induction l as [|a l IH]; intro Hs; [reflexivity|].
  cbn [app sortq]. rewrite (IH (sorted_b_tail a l Hs)). apply insq_insr, Hs.
Qed.

(* position of x *)
Lemma insr_nth x d : forall l s i,
  sorted_b l = true -> (S s < length l)%nat -> nth s l d <= x -> x < nth (S s) l d ->
  nth i (insr x l) d =
    if (i <=? s)%nat then nth i l d else if (i =? S s)%nat then x else nth (pred i) l d.
Proof.
  induction l as [|a l IH]; intros s i Hs Hl H1 H2; [cbn in Hl; lia|].
  assert (Ha : a <= x).
  { pose proof (sorted_nth d (a :: l) Hs 0%nat s ltac:(lia)) as K.
    change (nth 0 (a :: l) d) with a in K. lra. }
  cbn [insr]. assert (E : Qltb x a = false) by (apply Qltb_ge; exact Ha). rewrite E.
  destruct s as [|s].
  - (* x goes right after a *)
    destruct l as [|b t]; [cbn in Hl; lia|]. cbn [nth] in H2.
    cbn [insr]. assert (E2 : Qltb x b = true) by (apply Qltb_lt; exact H2). rewrite E2.
    destruct i as [|[|i]]; reflexivity.
  - destruct i as [|i]; [reflexivity|].
    cbn [nth]. rewrite (IH s i (sorted_b_tail a l Hs)); [| cbn [length] in Hl; lia | exact H1 | exact H2].
    change (S i <=? S s)%nat with (i <=? s)%nat.
    change (S i =? S (S s))%nat with (i =? S s)%nat.
    destruct (Nat.leb_spec i s); [reflexivity|].
    destruct (Nat.eqb_spec i (S s)); [reflexivity|].
    destruct i as [|i]; [lia|]. reflexivity.
Qed.

Lemma insr_nonempty x l : insr x l <> [].
Proof. destruct l as [|y l]; cbn [insr]; [discriminate|]. destruct (Qltb x y); discriminate. Qed.

Lemma last_cons_ne (a : Q) l d : l <> [] -> last (a :: l) d = last l d.
Proof. destruct l; [congruence | reflexivity]. Qed.

Lemma insr_last x d : forall l, x < last l x -> last (insr x l) d = last l d.
Proof.
  induction l as [|a l IH]; intro H; [cbn in H; lra|].
  destruct l as [|b t].
  - cbn in H. cbn [insr]. assert (E : Qltb x a = true) by (apply Qltb_lt; exact H).
    rewrite E. reflexivity.
  - rewrite last_cons2 in H. cbn [insr] in *. destruct (Qltb x a); [reflexivity|].
    rewrite last_cons_ne.
    + rewrite (IH H). reflexivity.
    + destruct (Qltb x b); discriminate.
Qed.

Lemma last_default_indep (l : list Q) d d' : l <> [] -> last l d = last l d'.
Proof.
  induction l as [|a l IH]; [congruence|]. intros _.
  destruct l as [|b t]; [reflexivity|]. rewrite !last_cons2. apply IH. discriminate.
Qed.

Lemma insr_nthq x l s :
  sorted_b l = true -> (S s < length l)%nat -> nthq l s <= x -> x < nthq l (S s) ->
  forall i, nthq (insr x l) i = ins (nthq l) s x i.
Proof.
  intros Hs Hl H1 H2 i.
  assert (Hne : l <> []) by (destruct l; [cbn in Hl; lia | discriminate]).
  assert (HL : last (insr x l) 0 = last l 0).
  { apply insr_last. rewrite (last_default_indep l x 0 Hne).
    rewrite <- (nthq_last l) by lia.
    pose proof (sorted_nthq l Hs (S s) (length l - 1)%nat ltac:(lia)). lra. }
  unfold nthq at 1. rewrite HL.
  rewrite (insr_nth x (last l 0) l s i Hs Hl H1 H2).
  unfold ins, nthq. reflexivity.
Qed.

(* ------------------------------------------------------------------ *)
(* B. extensionality of the specification in the knot sequence         *)
(* ------------------------------------------------------------------ *)
Lemma ind0_ext (U V : nat -> Q) n : (forall i, U i = V i) -> forall i u, ind0 U n i u = ind0 V n i u.
Proof. intros H i u. unfold ind0. rewrite !H. reflexivity. Qed.

Lemma N_ext (U V : nat -> Q) n : (forall i, U i = V i) -> forall j i u, N U n j i u = N V n j i u.
Proof.
  intro H. induction j as [|j IH]; intros i u; cbn [N].
  - apply ind0_ext, H.
  - rewrite !H, (IH i u), (IH (S i) u). reflexivity.
Qed.

(* ------------------------------------------------------------------ *)
(* C. the span-local recursion at the right end of a clamped last span *)
(* ------------------------------------------------------------------ *)
Lemma Nloc_right_end (U : nat -> Q) s p u :
  U s < u -> (forall m, (1 <= m <= p + 1)%nat -> U (s + m)%nat == u) ->
  forall j, (j <= p)%nat -> forall i, Nloc U s j i u == (if Nat.eqb i s then 1 else 0).
Proof.
  intros Hlt Hflat. induction j as [|j IH]; intros Hj i; cbn [Nloc]; [reflexivity|].
  rewrite (IH ltac:(lia) i), (IH ltac:(lia) (S i)).
  destruct (Nat.eqb_spec i s) as [E|E].
  - rewrite E. destruct (Nat.eqb_spec (S s) s); [lia|].
    match goal with |- ?A * 1 + ?B * 0 == 1 => setoid_replace (A * 1 + B * 0) with A by ring end.
    rewrite (Hflat (S j)) by lia. field. lra.
  - destruct (Nat.eqb_spec (S i) s) as [E2|E2]; [|ring].
    replace (i + S j + 1)%nat with (s + S j)%nat by lia.
    rewrite (Hflat (S j)) by lia.
    setoid_replace (u - u) with 0 by ring.
    unfold Qdiv. ring.
Qed.

(* ------------------------------------------------------------------ *)
(* D. rows of the Boehm matrix                                         *)
(* ------------------------------------------------------------------ *)
Definition delta (a b : nat) : Q := if Nat.eqb a b then 1 else 0.

Lemma qsum_delta (f : nat -> Q) r : forall n a,
  qsum (map (fun c => delta c r * f c) (seq a n))
  == (if ((a <=? r) && (r <? a + n))%nat then f r else 0).
Proof.
  induction n as [|n IH]; intro a; cbn [seq map qsum].
  - destruct (Nat.leb_spec a r), (Nat.ltb_spec r (a + 0)); cbn [andb]; try reflexivity; lia.
  - rewrite IH. unfold delta.
    destruct (Nat.eqb_spec a r), (Nat.leb_spec (S a) r), (Nat.leb_spec a r),
      (Nat.ltb_spec r (S a + n)), (Nat.ltb_spec r (a + S n)); cbn [andb]; try lia; try ring.
    subst; ring.
Qed.

Lemma qsum_delta_S (f : nat -> Q) r n :
  qsum (map (fun c => delta (S c) r * f c) (seq 0 n))
  == (if ((1 <=? r) && (r <=? n))%nat then f (pred r) else 0).
Proof.
  destruct r as [|r].
  - cbn [Nat.leb andb]. apply qsum_map_zero. intros i _. unfold delta. cbn [Nat.eqb]. ring.
  - rewrite (qsum_map_ext _ (fun c => delta c r * f c)) by (intros; reflexivity).
    rewrite qsum_delta. cbn [pred Nat.add].
    destruct (Nat.leb_spec 0 r), (Nat.ltb_spec r n), (Nat.leb_spec 1 (S r)), (Nat.leb_spec (S r) n);
      cbn [andb]; try lia; reflexivity.
Qed.

Lemma ins_entry_alpha U p s x r c : (p <= s)%nat ->
  ins_entry U p s x r c
  == alpha (nthq U) s x p r * delta c r + (1 - alpha (nthq U) s x p r) * delta (S c) r.
Proof.
  intro Hps. unfold ins_entry, delta.
  destruct (Nat.leb_spec r (s - p)) as [L1|L1].
  - rewrite alpha_left by lia. destruct (Nat.eqb c r), (Nat.eqb (S c) r); ring.
  - destruct (Nat.leb_spec r s) as [L2|L2].
    + rewrite alpha_mid by lia. unfold ins_alpha.
      destruct (Nat.eqb_spec c r), (Nat.eqb_spec (S c) r); try lia;
        rewrite ?Qred_correct; ring.
    + rewrite alpha_right by lia. destruct (Nat.eqb c r), (Nat.eqb (S c) r); ring.
Qed.

Lemma map_seq_nth_id (P : list Q) : map (fun i => nth i P 0) (seq 0 (length P)) = P.
Proof.
  induction P as [|x P IH]; [reflexivity|].
  cbn [length seq map nth]. rewrite <- seq_shift, map_map. cbn [nth]. rewrite IH. reflexivity.
Qed.

Lemma dot_map_seq (g : nat -> Q) n (P : list Q) : length P = n ->
  dot (map g (seq 0 n)) P == qsum (map (fun c => g c * nth c P 0) (seq 0 n)).
Proof.
  intro HL. rewrite dot_correct.
  rewrite (qsum_map2_seq (fun x y => x * y) 0 (map g (seq 0 n)) P)
    by (rewrite map_length, seq_length; lia).
  rewrite map_length, seq_length.
  apply qsum_map_ext. intros i Hi. apply in_seq in Hi.
  rewrite nth_map_seq by lia. reflexivity.
Qed.

Lemma ins_matrix_length U p n s x : length (ins_matrix U p n s x) = S n.
Proof. unfold ins_matrix. rewrite map_length, seq_length. reflexivity. Qed.

Lemma mvec_length M P : length (mvec M P) = length M.
Proof. apply map_length. Qed.

Lemma mvec_ins_matrix_nth U p n s x P r :
  (p <= s)%nat -> (s < n)%nat -> length P = n -> (r <= n)%nat ->
  nth r (mvec (ins_matrix U p n s x) P) 0
  == Qc (nthq U) s x p (fun i => nth i P 0) r.
Proof.
  intros Hps Hsn HL Hr. unfold mvec, ins_matrix. rewrite map_map.
  rewrite nth_map_seq by lia.
  rewrite (dot_map_seq (fun c => ins_entry U p s x r c) n P HL).
  rewrite (qsum_map_ext _ (fun c =>
     alpha (nthq U) s x p r * (delta c r * nth c P 0)
     + (1 - alpha (nthq U) s x p r) * (delta (S c) r * nth c P 0))).
  2:{ intros c _. rewrite (ins_entry_alpha U p s x r c Hps). ring. }
  rewrite (qsum_map_add (fun c => alpha (nthq U) s x p r * (delta c r * nth c P 0))
                        (fun c => (1 - alpha (nthq U) s x p r) * (delta (S c) r * nth c P 0))).
  rewrite (qsum_map_scale (alpha (nthq U) s x p r) (fun c => delta c r * nth c P 0)).
  rewrite (qsum_map_scale (1 - alpha (nthq U) s x p r) (fun c => delta (S c) r * nth c P 0)).
  rewrite (qsum_delta (fun c => nth c P 0) r n 0).
  rewrite (qsum_delta_S (fun c => nth c P 0) r n).
  unfold Qc. cbn [Nat.add]. change (0 <=? r)%nat with true. cbn [andb].
  destruct (Nat.ltb_spec r n), (Nat.leb_spec 1 r), (Nat.leb_spec r n); cbn [andb]; try lia.
  - reflexivity.
  - assert (E : r = 0%nat) by lia. rewrite E. rewrite alpha_left by lia. cbn [pred]. ring.
  - rewrite alpha_right by lia. ring.
Qed.

(* ------------------------------------------------------------------ *)
(* E. one insertion preserves the curve                                *)
(* ------------------------------------------------------------------ *)
Lemma span_ok_interior U p u s :
  ~ u == umax_of U p -> span_ok U p u s = true -> nthq U s <= u /\ u < nthq U (S s).
Proof.
  intros Hne H. unfold span_ok in H.
  destruct (Qeqb_spec u (umax_of U p)) as [E|E]; [contradiction|].
  apply andb_true_iff in H. destruct H as [A B].
  split; [apply Qleb_le, A | apply Qltb_lt, B].
Qed.

Lemma span_ok_umax U p u s :
  u == umax_of U p -> span_ok U p u s = true -> s = (length U - p - 2)%nat.
Proof.
  intros He H. unfold span_ok in H.
  destruct (Qeqb_spec u (umax_of U p)) as [E|E]; [|contradiction].
  apply Nat.eqb_eq, H.
Qed.

Lemma qsum_delta0 (f : nat -> Q) r n : (r < n)%nat ->
  qsum (map (fun c => delta c r * f c) (seq 0 n)) == f r.
Proof.
  intro H. rewrite qsum_delta. cbn [Nat.add].
  destruct (Nat.leb_spec 0 r), (Nat.ltb_spec r n); cbn [andb]; try lia. reflexivity.
Qed.

Section OneInsert.
Variable U : list Q.
Variable p : nat.
Hypothesis W : WF U p.
Variable x : Q.
Variable s : nat.
Hypothesis Hr : in_range U p x = true.
Hypothesis Hx : ~ x == umax_of U p.
Hypothesis Hs : span_ok U p x s = true.

Definition ins_kv : list Q := sortq (U ++ [x]).

Lemma oi_facts :
  (p <= s)%nat /\ (s < npts_of U p)%nat /\ (S s < length U)%nat /\
  nthq U s <= x /\ x < nthq U (S s).
Proof.
  destruct (sf_all U p W x s Hr Hs) as (A & B & _).
  destruct (span_ok_interior U p x s Hx Hs) as [C D].
  unfold npts_of in *. repeat split; try assumption; lia.
Qed.

Lemma ins_kv_insr : ins_kv = insr x U.
Proof. unfold ins_kv. apply sortq_app_single. apply (wf_parts U p W). Qed.

Lemma ins_kv_length : length ins_kv = S (length U).
Proof. rewrite ins_kv_insr. apply insr_length. Qed.

Lemma ins_kv_npts : npts_of ins_kv p = S (npts_of U p).
Proof.
  unfold npts_of. rewrite ins_kv_length. pose proof (sf_len U p W). lia.
Qed.

Lemma ins_kv_nthq i : nthq ins_kv i = ins (nthq U) s x i.
Proof.
  destruct oi_facts as (A & B & C & D & E).
  rewrite ins_kv_insr. apply insr_nthq; try assumption. apply (wf_parts U p W).
Qed.

Lemma ins_kv_Nspec j i u :
  Nspec ins_kv p j i u = N (ins (nthq U) s x) (S (npts_of U p)) j i u.
Proof. unfold Nspec. rewrite ins_kv_npts. apply N_ext. exact ins_kv_nthq. Qed.

Lemma ins_mono : mono (ins (nthq U) s x).
Proof.
  destruct oi_facts as (A & B & C & D & E).
  apply V_mono; [exact (sf_mono U p W) | exact D | exact E].
Qed.

Lemma ins_top : ins (nthq U) s x (S (npts_of U p)) = nthq U (npts_of U p).
Proof. destruct oi_facts as (A & B & _). apply V_gt'. lia. Qed.

Lemma ins_above i : (npts_of U p <= i)%nat -> ins (nthq U) s x (S i) == last_q U.
Proof.
  intro Hi. destruct oi_facts as (A & B & _).
  rewrite V_gt' by lia. apply (wf_last_block U p W). unfold npts_of in Hi. lia.
Qed.

Lemma ins_strict_top :
  ins (nthq U) s x (npts_of U p) < ins (nthq U) s x (S (npts_of U p)).
Proof.
  destruct oi_facts as (A & B & C & D & E).
  rewrite ins_top.
  destruct (Nat.eq_dec (npts_of U p) (S s)) as [E1|E1].
  - rewrite E1. rewrite V_mid. exact E.
  - rewrite V_gt by lia.
    pose proof (wf_interior_strict_hi U p W) as Hhi.
    replace (length U - p - 2)%nat with (pred (npts_of U p)) in Hhi by (unfold npts_of in *; lia).
    exact Hhi.
Qed.

Section AtNode.
Variable P : list Q.
Hypothesis HP : length P = npts_of U p.
Variable u : Q.
Hypothesis Hu : in_range U p u = true.

Let Pf := fun i => nth i P 0.

Lemma oi_lhs_rows :
  curve_spec1 ins_kv p (mvec (ins_matrix U p (npts_of U p) s x) P) u
  == qsum (map (fun i => N (ins (nthq U) s x) (S (npts_of U p)) p i u * Qc (nthq U) s x p Pf i)
               (seq 0 (S (npts_of U p)))).
Proof.
  destruct oi_facts as (A & B & _).
  unfold curve_spec1. rewrite ins_kv_npts.
  apply qsum_map_ext. intros i Hi. apply in_seq in Hi.
  rewrite ins_kv_Nspec.
  rewrite (mvec_ins_matrix_nth U p (npts_of U p) s x P i A B HP) by lia.
  reflexivity.
Qed.

Lemma oi_interior : ~ u == umax_of U p ->
  curve_spec1 ins_kv p (mvec (ins_matrix U p (npts_of U p) s x) P) u == curve_spec1 U p P u.
Proof.
  intro Hne. rewrite oi_lhs_rows.
  destruct oi_facts as (A & B & C & D & E).
  destruct (span_exists U p u W Hu) as [su Hsu].
  destruct (sf_all U p W u su Hu Hsu) as (A' & B' & _ & _ & _ & HN).
  destruct (span_ok_interior U p u su Hne Hsu) as [D' E'].
  pose proof (sf_mono U p W) as HM.
  unfold curve_spec1.
  rewrite (qsum_map_ext (fun i => Nspec U p p i u * nth i P 0)
                        (fun i => Nloc (nthq U) su p i u * Pf i))
    by (intros i _; rewrite HN; reflexivity).
  rewrite <- (insert_seq (nthq U) s x HM D E su u D' E' p (npts_of U p) A B' B Pf).
  apply qsum_map_ext. intros i _.
  rewrite (N_local (ins (nthq U) s x) (S (npts_of U p)) (newspan (nthq U) s x u su) u).
  - reflexivity.
  - exact ins_mono.
  - apply (s'_ok (nthq U) s x su u D' E').
  - apply (s'_ok (nthq U) s x su u D' E').
  - rewrite ins_top. exact Hne.
Qed.

Lemma oi_umax : u == umax_of U p ->
  curve_spec1 ins_kv p (mvec (ins_matrix U p (npts_of U p) s x) P) u == curve_spec1 U p P u.
Proof.
  intro He. rewrite oi_lhs_rows.
  destruct oi_facts as (A & B & C & D & E).
  destruct (span_exists U p u W Hu) as [su Hsu].
  destruct (sf_all U p W u su Hu Hsu) as (A' & B' & Hlt & _ & _ & HN).
  pose proof (span_ok_umax U p u su He Hsu) as Esu.
  assert (En : npts_of U p = S su) by (unfold npts_of in *; lia).
  pose proof (sf_mono U p W) as HM.
  assert (Hun : u == nthq U (S su)).
  { rewrite He. unfold umax_of. fold (npts_of U p). rewrite En. reflexivity. }
  (* right-hand side: P (n-1) *)
  assert (HR : curve_spec1 U p P u == Pf su).
  { unfold curve_spec1.
    rewrite (qsum_map_ext (fun i => Nspec U p p i u * nth i P 0)
                          (fun i => delta i su * Pf i)).
    - apply qsum_delta0. exact B'.
    - intros i _. rewrite HN.
      rewrite (Nloc_right_end (nthq U) su p u); [reflexivity | | | lia].
      + rewrite Hun. exact Hlt.
      + intros m Hm. rewrite Hun.
        rewrite (wf_last_block U p W (su + m)%nat) by (unfold npts_of in En; lia).
        rewrite (wf_last_block U p W (S su)) by (unfold npts_of in En; lia).
        reflexivity. }
  rewrite HR.
  (* left-hand side: Qc n *)
  set (V := ins (nthq U) s x) in *.
  assert (HuV : u == V (S (npts_of U p))).
  { unfold V. rewrite ins_top. rewrite En. exact Hun. }
  rewrite (qsum_map_ext _ (fun i => delta i (npts_of U p) * Qc (nthq U) s x p Pf i)).
  - rewrite qsum_delta0 by lia. unfold Qc.
    rewrite alpha_right by lia. rewrite En. cbn [pred]. ring.
  - intros i _.
    rewrite (N_proper V (S (npts_of U p)) p i u _ HuV).
    rewrite (N_umax V (S (npts_of U p))).
    + replace (S (npts_of U p) - 1)%nat with (npts_of U p) by lia.
      rewrite (Nloc_right_end V (npts_of U p) p); [reflexivity | | | lia].
      * exact ins_strict_top.
      * intros m Hm. replace (npts_of U p + m)%nat with (S (npts_of U p + (m - 1))) by lia.
        unfold V. rewrite ins_above by lia. rewrite ins_above by lia. reflexivity.
    + exact ins_mono.
    + lia.
    + replace (S (npts_of U p) - 1)%nat with (npts_of U p) by lia. exact ins_strict_top.
    + intros i' Hi'. destruct i' as [|i']; [lia|].
      unfold V. rewrite ins_above by lia. rewrite ins_above by lia. reflexivity.
Qed.

Theorem insert_once_curve :
  curve_spec1 ins_kv p (mvec (ins_matrix U p (npts_of U p) s x) P) u == curve_spec1 U p P u.
Proof.
  destruct (Qeq_dec u (umax_of U p)) as [E|E]; [apply oi_umax | apply oi_interior]; exact E.
Qed.
End AtNode.
End OneInsert.

(* ------------------------------------------------------------------ *)
(* F. the new knot vector is well formed                               *)
(* ------------------------------------------------------------------ *)
Lemma count_q_proper x y l : x == y -> count_q x l = count_q y l.
Proof.
  intro E. induction l as [|a l IH]; [reflexivity|].
  rewrite !count_q_cons, IH.
  rewrite (Qeqb_proper x y E a a (Qeq_refl a)). reflexivity.
Qed.

Lemma count_q_insr y x l :
  count_q y (insr x l) = ((if Qeqb y x then 1 else 0) + count_q y l)%nat.
Proof.
  induction l as [|a l IH]; cbn [insr].
  - rewrite count_q_cons. reflexivity.
  - destruct (Qltb x a).
    + rewrite count_q_cons. reflexivity.
    + rewrite !count_q_cons, IH. lia.
Qed.

Lemma wf_forall v p : WF v p -> forall y, In y v -> (count_q y v <= p + 1)%nat.
Proof.
  unfold WF, wf_b. intros H y Hy.
  apply andb_true_iff in H. destruct H as [_ H].
  rewrite forallb_forall in H. apply Nat.leb_le. apply H, Hy.
Qed.

Lemma wf_intro v p :
  sorted_b v = true -> (2 * p + 2 <= length v)%nat ->
  count_q (first_q v) v = (p + 1)%nat -> count_q (last_q v) v = (p + 1)%nat ->
  (forall y, In y v -> (count_q y v <= p + 1)%nat) -> WF v p.
Proof.
  intros A B C D E. unfold WF, wf_b.
  repeat (apply andb_true_iff; split).
  - exact A.
  - apply Nat.leb_le, B.
  - apply Nat.eqb_eq, C.
  - apply Nat.eqb_eq, D.
  - apply forallb_forall. intros y Hy. apply Nat.leb_le, E, Hy.
Qed.

Section OneInsertWF.
Variable U : list Q.
Variable p : nat.
Hypothesis W : WF U p.
Variable x : Q.
Variable s : nat.
Hypothesis Hr : in_range U p x = true.
Hypothesis Hx : ~ x == umax_of U p.
Hypothesis Hs : span_ok U p x s = true.
Hypothesis Hc : (count_q x U < p + 1)%nat.

Theorem ins_kv_wf : WF (ins_kv U x) p.
Proof.
  destruct (oi_facts U p W x s Hr Hx Hs) as (A & B & C & D & E).
  destruct (wf_parts U p W) as (Hsrt & Hlen & Hf & Hl).
  assert (Hne : U <> []) by (destruct U; [cbn in Hlen; lia | discriminate]).
  assert (HF : first_q (ins_kv U x) = first_q U).
  { rewrite first_q_nthq by (rewrite (ins_kv_length U p W x); lia).
    rewrite (ins_kv_nthq U p W x s Hr Hx Hs). rewrite V_le by lia.
    symmetry. apply first_q_nthq. lia. }
  assert (HL : last_q (ins_kv U x) = last_q U).
  { unfold last_q. rewrite (ins_kv_insr U p W x). apply insr_last.
    rewrite (last_default_indep U x 0 Hne).
    rewrite <- (nthq_last U) by lia.
    pose proof (sorted_nthq U Hsrt (S s) (length U - 1)%nat ltac:(lia)). lra. }
  apply wf_intro.
  - apply sortq_sorted.
  - rewrite (ins_kv_length U p W x). lia.
  - rewrite HF. rewrite (ins_kv_insr U p W x), count_q_insr, Hf.
    destruct (Qeqb_spec (first_q U) x) as [E1|E1]; [exfalso | reflexivity].
    rewrite <- (count_q_proper _ _ U E1) in Hc. lia.
  - rewrite HL. rewrite (ins_kv_insr U p W x), count_q_insr, Hl.
    destruct (Qeqb_spec (last_q U) x) as [E1|E1]; [exfalso | reflexivity].
    apply Hx. rewrite <- E1. unfold umax_of. symmetry.
    apply (wf_last_block U p W). lia.
  - intros y Hy. rewrite (ins_kv_insr U p W x) in Hy |- *. rewrite count_q_insr.
    destruct (Qeqb_spec y x) as [E1|E1].
    + rewrite (count_q_proper _ _ U E1). lia.
    + destruct (insr_In x U y Hy) as [E2|Hin].
      * exfalso. apply E1. rewrite E2. reflexivity.
      * pose proof (wf_forall U p W y Hin). lia.
Qed.
End OneInsertWF.

(* ------------------------------------------------------------------ *)
(* G. the Boehm matrix maps positive vectors to positive vectors       *)
(* ------------------------------------------------------------------ *)
Lemma Qdiv_unit_interval a b : 0 <= a -> a <= b -> 0 < b -> 0 <= a / b /\ a / b <= 1.
Proof.
  intros H1 H2 H3. split.
  - apply Qle_shift_div_l; [exact H3 | lra].
  - apply Qle_shift_div_r; [exact H3 | lra].
Qed.

Lemma convex_pos a w1 w2 : 0 <= a -> a <= 1 -> 0 < w1 -> 0 < w2 -> 0 < a * w1 + (1 - a) * w2.
Proof.
  intros H1 H2 H3 H4. destruct (Qlt_le_dec a (1#2)) as [L|L].
  - assert (0 <= a * w1) by (apply Qmult_le_0_compat; lra).
    assert (0 < (1 - a) * w2) by (apply Qmult_lt_0_compat; lra). lra.
  - assert (0 < a * w1) by (apply Qmult_lt_0_compat; lra).
    assert (0 <= (1 - a) * w2) by (apply Qmult_le_0_compat; lra). lra.
Qed.

Theorem ins_matrix_pos U p x s Wv :
  WF U p -> in_range U p x = true -> ~ x == umax_of U p -> span_ok U p x s = true ->
  length Wv = npts_of U p -> Forall (fun w => 0 < w) Wv ->
  forall r, (r <= npts_of U p)%nat ->
  0 < nth r (mvec (ins_matrix U p (npts_of U p) s x) Wv) 0.
Proof.
  intros W Hr Hx Hs HL HW r Hrn.
  destruct (oi_facts U p W x s Hr Hx Hs) as (A & B & C & D & E).
  pose proof (sf_mono U p W) as HM.
  rewrite (mvec_ins_matrix_nth U p (npts_of U p) s x Wv r A B HL Hrn). unfold Qc.
  destruct (le_lt_dec (r + p) s) as [C1|C1].
  - rewrite alpha_left by exact C1.
    pose proof (Forall_pos_nth Wv r HW ltac:(lia)). lra.
  - destruct (le_lt_dec r s) as [C2|C2].
    + rewrite alpha_mid by lia.
      pose proof (Local.mono_le (nthq U) HM r s C2).
      pose proof (Local.mono_le (nthq U) HM (S s) (r + p)%nat ltac:(lia)).
      destruct (Qdiv_unit_interval (x - nthq U r) (nthq U (r + p) - nthq U r)) as [I1 I2];
        try lra.
      apply convex_pos; try assumption.
      * apply Forall_pos_nth; [exact HW | lia].
      * apply Forall_pos_nth; [exact HW | lia].
    + rewrite alpha_right by exact C2.
      pose proof (Forall_pos_nth Wv (pred r) HW ltac:(lia)). lra.
Qed.

Print Assumptions insert_once_curve.
Print Assumptions ins_kv_wf.
Print Assumptions ins_matrix_pos.
