(* L-table: the per-span power-basis table of the model (closed form of the loop nest of
   heavy.BasisFunction.speval_matrix) evaluates, by Horner, to the span-local Cox-de Boor
   recursion -- for every degree, row and local parameter t. *)
From Coq Require Import QArith List Lia Lqa Arith Bool Setoid.
From NurbsV Require Import Base.QList Base.Res Model.KV Model.Basis Proofs.Local.
Import ListNotations.
Open Scope Q_scope.

Lemma horner_padd p : forall q t, horner (padd p q) t == horner p t + horner q t.
Proof.
  induction p as [|a p IH]; intros [|b q] t; cbn [padd horner]; try ring.
  rewrite Qred_correct, IH. ring.
Qed.

Lemma horner_map_mul c p t : horner (map (fun x => Qred (c * x)) p) t == c * horner p t.
Proof. induction p as [|a p IH]; cbn [map horner]; [ring|]. rewrite Qred_correct, IH. ring. Qed.

Lemma horner_map_div d p t : horner (map (fun x => Qred (x / d)) p) t == horner p t / d.
Proof.
  induction p as [|a p IH]; cbn [map horner].
  - unfold Qdiv. ring.
  - rewrite Qred_correct, IH. unfold Qdiv. ring.
Qed.

Lemma horner_app0 p t : horner (p ++ [0]) t == horner p t.
Proof. induction p as [|a p IH]; cbn [app horner]; [ring|]. rewrite IH. ring. Qed.

Lemma horner_linmul c0 c1 p t : horner (linmul c0 c1 p) t == (c0 + c1 * t) * horner p t.
Proof.
  unfold linmul. rewrite horner_padd, horner_app0. cbn [horner].
  rewrite !horner_map_mul. ring.
Qed.

Lemma nth_map_seq {A} (f : nat -> A) n y d : (y < n)%nat -> nth y (map f (seq 0 n)) d = f y.
Proof.
  intros H. rewrite (nth_indep _ d (f 0%nat)) by (rewrite map_length, seq_length; exact H).
  rewrite map_nth. rewrite seq_nth by exact H. reflexivity.
Qed.

Section T.
Variable U : list Q.
Let Uf := nthq U.
Hypothesis HU : mono Uf.
Variable s : nat.
Hypothesis Hs : Uf s < Uf (S s).

Lemma denom_pos i j : (s <= i + j)%nat -> (i <= s)%nat -> 0 < Uf (i + j + 1)%nat - Uf i.
Proof.
  intros A B. pose proof (mono_le Uf HU i s B) as H1. pose proof (mono_le Uf HU (S s) (i + j + 1)%nat ltac:(lia)) as H2.
  pose proof Hs as H3. revert H1 H2 H3.
  generalize (Uf i), (Uf s), (Uf (S s)), (Uf (i + j + 1)%nat). intros; lra.
Qed.

Theorem table_is_Nloc : forall j, (j <= s)%nat -> forall y t, (y <= j)%nat ->
  horner (nth y (rows U s j) []) t == Nloc Uf s j (s + y - j)%nat (Uf s + t * (Uf (S s) - Uf s)).
Proof.
  induction j as [|j' IH]; intros Hj y t Hy.
  - assert (y = 0)%nat by lia. subst y. cbn. rewrite Nat.sub_0_r, Nat.add_0_r, Nat.eqb_refl. ring.
  - cbn [rows]. rewrite nth_map_seq by lia. rewrite horner_padd.
    cbn [Nloc]. unfold Uf in *.
    set (u := nthq U s + t * (nthq U (S s) - nthq U s)).
    set (i := (s + y - S j')%nat).
    match goal with |- horner ?A t + horner ?B t == ?c1 * ?n1 + ?c2 * ?n2 =>
      assert (T2 : horner A t == c2 * n2); [| assert (T1 : horner B t == c1 * n1); [| rewrite T1, T2; ring]]
    end.
    + (* second Cox-de Boor term  <->  cB y   (present iff y < j) *)
      destruct (Nat.ltb_spec y (S j')) as [L|L].
      * rewrite horner_linmul, horner_map_div, (IH ltac:(lia) y t ltac:(lia)). fold u.
        replace (s + y - j')%nat with (S i) by (unfold i; lia).
        replace (i + S j' + 1)%nat with (S i + S j')%nat by lia.
        replace (i + 1)%nat with (S i) by lia.
        pose proof (denom_pos (S i) j' ltac:(unfold i; lia) ltac:(unfold i; lia)) as D. unfold Uf in D.
        replace (S i + j' + 1)%nat with (S i + S j')%nat in D by lia.
        unfold u. field. lra.
      * assert (y = S j') by lia. subst y.
        rewrite (Nloc_zero (nthq U) s j' (S i) u) by (unfold i; lia). cbn [horner]. ring.
    + (* first Cox-de Boor term  <->  cA (y-1)   (present iff 0 < y) *)
      destruct (Nat.ltb_spec 0 y) as [L|L].
      * rewrite horner_linmul, horner_map_div, (IH ltac:(lia) (y - 1)%nat t ltac:(lia)). fold u.
        replace (s + (y - 1) - j')%nat with i by (unfold i; lia).
        pose proof (denom_pos i j' ltac:(unfold i; lia) ltac:(unfold i; lia)) as D. unfold Uf in D.
        replace (i + j' + 1)%nat with (i + S j')%nat in D by lia.
        unfold u. field. lra.
      * assert (y = 0)%nat by lia. subst y.
        rewrite (Nloc_zero (nthq U) s j' i u) by (unfold i; lia). cbn [horner]. ring.
Qed.
End T.
