(* PROOFS about the facade state machine Model/KVFacade.v (property C03):
   invariant preservation, atomicity, returned vectors, queries, rejections. *)
From Coq Require Import QArith Qabs List Bool Arith Lia Lqa Setoid Morphisms.
From NurbsV Require Import Base.Res Base.QList Spec.KnotSpec Gen.Consts Model.KV Model.KVFacade.
From NurbsV Require Import Proofs.KVProofs.
Import ListNotations.
Open Scope Q_scope.

(* operations that never rebind the payload *)
Definition is_pure (o : kop) : bool :=
  match o with
  | OOr _ | OAnd _ | OSplit _ | OCopy | OPlus _ | OMinus _ | OConvertFrac => true
  | _ => false
  end.

(* ------------------------------------------------------------------ *)
(* 0. the two combinators                                              *)
(* ------------------------------------------------------------------ *)

Lemma inplace_fst_wf k r :
  WF (kvec k) (kdeg k) ->
  (forall k', r = Ok k' -> WF (kvec k') (kdeg k')) ->
  WF (kvec (fst (inplace k r))) (kdeg (fst (inplace k r))).
Proof.
  intros W H. destruct r as [k'|e]; cbn [inplace fst].
  - apply H. reflexivity.
  - exact W.
Qed.

Lemma inplace_err k r e : snd (inplace k r) = Err e -> r = Err e /\ fst (inplace k r) = k.
Proof.
  destruct r as [k'|e']; cbn [inplace fst snd]; intro H; [discriminate|].
  inversion H. split; reflexivity.
Qed.

Lemma inplace_ok k r vs : snd (inplace k r) = Ok vs -> vs = [].
Proof.
  destruct r as [k'|e']; cbn [inplace snd]; intro H; [|discriminate].
  inversion H. reflexivity.
Qed.

Lemma pure1_fst k r : fst (pure1 k r) = k.
Proof. destruct r; reflexivity. Qed.

Lemma pure1_ok k r vs : snd (pure1 k r) = Ok vs -> exists k', r = Ok k' /\ vs = [view k'].
Proof.
  destruct r as [k'|e']; cbn [pure1 snd]; intro H; [|discriminate].
  inversion H. exists k'. split; reflexivity.
Qed.

Lemma pure1_err k r e : snd (pure1 k r) = Err e -> r = Err e.
Proof.
  destruct r as [k'|e']; cbn [pure1 snd]; intro H; [discriminate|].
  inversion H. reflexivity.
Qed.

Lemma bind_make_kor_wf k v k' :
  (do o <- make v None; kor k o) = Ok k' -> WF (kvec k') (kdeg k').
Proof.
  destruct (make v None) as [o|e]; cbn [bind]; intro H; [|discriminate].
  exact (kor_wf _ _ _ H).
Qed.

Lemma bind_make_kand_wf k v k' :
  (do o <- make v None; kand k o) = Ok k' -> WF (kvec k') (kdeg k').
Proof.
  destruct (make v None) as [o|e]; cbn [bind]; intro H; [|discriminate].
  exact (kand_wf _ _ _ H).
Qed.

(* ------------------------------------------------------------------ *)
(* 1. constructor                                                      *)
(* ------------------------------------------------------------------ *)

Lemma make_raw_nonnumeric v deg : all_some v = None -> make_raw v deg = Err ValueError.
Proof. intro H. unfold make_raw. rewrite H. reflexivity. Qed.

Lemma make_err v deg e : make v deg = Err e -> e = ValueError.
Proof.
  unfold make. destruct (is_valid v deg); intro H; [discriminate|].
  inversion H. reflexivity.
Qed.

(* ------------------------------------------------------------------ *)
(* 2-3. one step, all histories                                        *)
(* ------------------------------------------------------------------ *)

Theorem step_wf : forall k o,
  WF (kvec k) (kdeg k) -> WF (kvec (fst (kstep k o))) (kdeg (fst (kstep k o))).
Proof.
  intros k o W. destruct o as [ns|ns|a|s|s| | | |d|v|v|v|v|ns| |ns|ns]; cbn [kstep].
  - apply inplace_fst_wf; [exact W|]. intros k' H. exact (kinsert_wf _ _ _ H).
  - apply inplace_fst_wf; [exact W|]. intros k' H. exact (kremove_wf _ _ _ H).
  - apply inplace_fst_wf; [exact W|]. intros k' H. exact (kshift_wf _ _ _ H).
  - apply inplace_fst_wf; [exact W|]. intros k' H. exact (kscale_wf _ _ _ H).
  - destruct (Qeqb s 0); [exact W|].
    apply inplace_fst_wf; [exact W|]. intros k' H. exact (kscale_wf _ _ _ H).
  - apply inplace_fst_wf; [exact W|]. intros k' H. exact (knormalize_wf _ _ H).
  - apply inplace_fst_wf; [exact W|]. intros k' H. exact (kconvert_int_wf _ _ _ H).
  - exact W.
  - apply inplace_fst_wf; [exact W|]. intros k' H. exact (kset_degree_wf _ _ _ W H).
  - apply inplace_fst_wf; [exact W|]. intros k' H. exact (bind_make_kor_wf _ _ _ H).
  - apply inplace_fst_wf; [exact W|]. intros k' H. exact (bind_make_kand_wf _ _ _ H).
  - rewrite pure1_fst. exact W.
  - rewrite pure1_fst. exact W.
  - destruct (ksplit k ns); exact W.
  - exact W.
  - rewrite pure1_fst. exact W.
  - rewrite pure1_fst. exact W.
Qed.

Theorem reachable_wf : forall ops k,
  WF (kvec k) (kdeg k) ->
  WF (kvec (fold_left (fun s o => fst (kstep s o)) ops k))
     (kdeg (fold_left (fun s o => fst (kstep s o)) ops k)).
Proof.
  induction ops as [|o ops IH]; intros k W; cbn [fold_left].
  - exact W.
  - apply IH. apply step_wf. exact W.
Qed.

Theorem reachable_from_make : forall v deg k ops,
  make v deg = Ok k ->
  WF (kvec (fold_left (fun s o => fst (kstep s o)) ops k))
     (kdeg (fold_left (fun s o => fst (kstep s o)) ops k)).
Proof. intros v deg k ops H. apply reachable_wf. exact (make_wf _ _ _ H). Qed.

(* ------------------------------------------------------------------ *)
(* 4. atomicity                                                        *)
(* ------------------------------------------------------------------ *)

Theorem step_atomic : forall k o e, snd (kstep k o) = Err e -> fst (kstep k o) = k.
Proof.
  intros k o e. destruct o as [ns|ns|a|s|s| | | |d|v|v|v|v|ns| |ns|ns]; cbn [kstep];
    try (intro H; apply inplace_err in H; exact (proj2 H));
    try (intros _; apply pure1_fst);
    try (intros _; reflexivity).
  - destruct (Qeqb s 0); [intros _; reflexivity|].
    intro H; apply inplace_err in H; exact (proj2 H).
  - destruct (ksplit k ns); intros _; reflexivity.
Qed.

Theorem step_pure : forall k o, is_pure o = true -> fst (kstep k o) = k.
Proof.
  intros k o. destruct o as [ns|ns|a|s|s| | | |d|v|v|v|v|ns| |ns|ns]; cbn [is_pure kstep];
    intro H; try discriminate H; try apply pure1_fst; try reflexivity.
  destruct (ksplit k ns); reflexivity.
Qed.

(* ------------------------------------------------------------------ *)
(* 5. returned vectors                                                 *)
(* ------------------------------------------------------------------ *)

Lemma Forall_view ks :
  Forall (fun k' => WF (kvec k') (kdeg k')) ks ->
  Forall (fun vd : list Q * nat => WF (fst vd) (snd vd)) (map view ks).
Proof.
  intro F. induction F as [|k' ks Hk _ IH]; cbn [map]; constructor; [exact Hk | exact IH].
Qed.

Theorem returned_wf : forall k o vs,
  WF (kvec k) (kdeg k) -> snd (kstep k o) = Ok vs ->
  Forall (fun vd : list Q * nat => WF (fst vd) (snd vd)) vs.
Proof.
  intros k o vs W.
  destruct o as [ns|ns|a|s|s| | | |d|v|v|v|v|ns| |ns|ns]; cbn [kstep];
    try (intro H; apply inplace_ok in H; subst vs; constructor).
  - (* ODivide *)
    destruct (Qeqb s 0); cbn [snd]; intro H; [discriminate|].
    apply inplace_ok in H; subst vs; constructor.
  - (* OConvertFrac *)
    cbn [snd]. intro H. inversion H. constructor.
  - (* OOr *)
    intro H. apply pure1_ok in H. destruct H as (k' & E & ->).
    apply (Forall_view [k']). constructor; [exact (bind_make_kor_wf _ _ _ E) | constructor].
  - (* OAnd *)
    intro H. apply pure1_ok in H. destruct H as (k' & E & ->).
    apply (Forall_view [k']). constructor; [exact (bind_make_kand_wf _ _ _ E) | constructor].
  - (* OSplit *)
    destruct (ksplit k ns) as [ks|e] eqn:E; cbn [snd]; intro H; [|discriminate].
    inversion H. apply Forall_view. exact (ksplit_wf _ _ _ E W).
  - (* OCopy *)
    cbn [snd]. intro H. inversion H.
    apply (Forall_view [k]). constructor; [exact W | constructor].
  - (* OPlus *)
    intro H. apply pure1_ok in H. destruct H as (k' & E & ->).
    apply (Forall_view [k']). constructor; [exact (kinsert_wf _ _ _ E) | constructor].
  - (* OMinus *)
    intro H. apply pure1_ok in H. destruct H as (k' & E & ->).
    apply (Forall_view [k']). constructor; [exact (kremove_wf _ _ _ E) | constructor].
Qed.

(* ------------------------------------------------------------------ *)
(* 6. queries                                                          *)
(* ------------------------------------------------------------------ *)

Theorem valid_iff : forall k u,
  kvalid1 k u = true <->
  (umin_of (kvec k) (kdeg k) <= u /\ u <= umax_of (kvec k) (kdeg k)).
Proof.
  intros k u. rewrite kvalid1_in_range. unfold in_range.
  rewrite andb_true_iff, !Qleb_le. reflexivity.
Qed.

Lemma mult_outside k u : kvalid1 k u = false -> kmult k u = Err ValueError.
Proof. intro H. unfold kmult. rewrite H. reflexivity. Qed.

Lemma tol_mult_pos : 0 < tol_mult.
Proof. apply Qltb_lt. vm_compute. reflexivity. Qed.

Lemma near_of_eq u x : u == x -> Qltb (Qabs (u - x)) tol_mult = true.
Proof.
  intro E. apply Qltb_lt. apply Qabs_Qlt_condition.
  pose proof tol_mult_pos as P. split; lra.
Qed.

Theorem mult_ge : forall v u, (count_q u v <= kmult_raw v u)%nat.
Proof.
  intros v u. unfold count_q, kmult_raw.
  induction v as [|x v IH]; cbn [filter length]; [lia|].
  destruct (Qeqb_spec u x) as [E|E].
  - rewrite (near_of_eq _ _ E). cbn [length]. lia.
  - destruct (Qltb (Qabs (u - x)) tol_mult); cbn [length]; lia.
Qed.

Theorem mult_partial : forall v u,
  (forall x, In x v -> x == u \/ tol_mult <= Qabs (u - x)) ->
  kmult_raw v u = count_q u v.
Proof.
  intros v u. unfold count_q, kmult_raw.
  induction v as [|x v IH]; intro H; cbn [filter length]; [reflexivity|].
  assert (IH' : length (filter (fun x0 => Qltb (Qabs (u - x0)) tol_mult) v)
                = length (filter (Qeqb u) v)).
  { apply IH. intros y Hy. apply H. right. exact Hy. }
  destruct (H x (or_introl eq_refl)) as [E|Far].
  - assert (E' : u == x) by (symmetry; exact E).
    rewrite (near_of_eq _ _ E').
    assert (B : Qeqb u x = true) by (apply Qeqb_eq; exact E').
    rewrite B. cbn [length]. rewrite IH'. reflexivity.
  - assert (A : Qltb (Qabs (u - x)) tol_mult = false) by (apply Qltb_ge; exact Far).
    rewrite A.
    assert (B : Qeqb u x = false).
    { destruct (Qeqb u x) eqn:B; [|reflexivity]. exfalso.
      apply Qeqb_eq in B. pose proof (near_of_eq _ _ B) as C. congruence. }
    rewrite B. exact IH'.
Qed.

(* known finding: knot identity is tolerance based; two distinct knots closer than
   tol_mult are counted together *)
Theorem mult_refuted : exists v u, WF v 0 /\ kmult_raw v u <> count_q u v.
Proof.
  exists [0; 1; 10000000001#10000000000; 2], 1. split.
  - vm_compute. reflexivity.
  - vm_compute. discriminate.
Qed.

(* ------------------------------------------------------------------ *)
(* 7. rejections                                                       *)
(* ------------------------------------------------------------------ *)

Lemma rejects_unsorted v deg : sorted_b v = false -> make v deg = Err ValueError.
Proof.
  intro H. unfold make, is_valid. cbv zeta. rewrite H, andb_false_r. reflexivity.
Qed.

Lemma rejects_short v deg : (length v < 2)%nat -> make v deg = Err ValueError.
Proof.
  intro H. unfold make, is_valid. cbv zeta.
  assert (E : (2 <=? length v)%nat = false) by (apply Nat.leb_gt; exact H).
  rewrite E. reflexivity.
Qed.

Lemma insert_outside k nodes : kvalid k nodes = false -> kinsert k nodes = Err ValueError.
Proof. intro H. unfold kinsert. rewrite H. reflexivity. Qed.

Lemma remove_absent k nodes :
  remove_all nodes (kvec k) = None -> kremove k nodes = Err ValueError.
Proof. intro H. unfold kremove. rewrite H. reflexivity. Qed.

Lemma scale_nonpositive k s : s <= 0 -> kscale k s = Err AssertionError.
Proof.
  intro H. unfold kscale.
  assert (E : Qltb 0 s = false) by (apply Qltb_ge; exact H).
  rewrite E. reflexivity.
Qed.

Lemma divide_zero k s : s == 0 -> kstep k (ODivide s) = (k, Err ZeroDivisionError).
Proof.
  intro H. cbn [kstep].
  assert (E : Qeqb s 0 = true) by (apply Qeqb_eq; exact H).
  rewrite E. reflexivity.
Qed.

Lemma kinsert_err k ns e : kinsert k ns = Err e -> e = ValueError.
Proof.
  unfold kinsert. destruct (kvalid k ns); intro H.
  - exact (make_err _ _ _ H).
  - inversion H. reflexivity.
Qed.

Lemma kremove_err k ns e : kremove k ns = Err e -> e = ValueError.
Proof.
  unfold kremove. destruct (remove_all ns (kvec k)) as [l|]; intro H.
  - exact (make_err _ _ _ H).
  - inversion H. reflexivity.
Qed.

Theorem insert_remove_error_class : forall k ns e,
  (snd (kstep k (OInsert ns)) = Err e \/ snd (kstep k (ORemove ns)) = Err e) ->
  e = ValueError.
Proof.
  intros k ns e [H|H]; cbn [kstep] in H; apply inplace_err in H; destruct H as [H _].
  - exact (kinsert_err _ _ _ H).
  - exact (kremove_err _ _ _ H).
Qed.

Theorem excess_multiplicity : forall v deg x,
  In x v ->
  (match deg with Some d => d | None => infer_deg v end + 1 < count_q x v)%nat ->
  make v deg = Err ValueError.
Proof.
  intros v deg x Hin Hc. unfold make.
  destruct (is_valid v deg) eqn:E; [exfalso|reflexivity].
  unfold is_valid in E. cbv zeta in E.
  set (d := match deg with Some d => d | None => infer_deg v end) in *.
  repeat match goal with
         | K : _ && _ = true |- _ => apply andb_true_iff in K; destruct K
         end.
  match goal with
  | K : forallb _ v = true |- _ =>
      rewrite forallb_forall in K; specialize (K x Hin); apply Nat.leb_le in K
  end.
  lia.
Qed.

Print Assumptions step_wf.
Print Assumptions reachable_wf.
Print Assumptions step_atomic.
Print Assumptions returned_wf.
Print Assumptions mult_partial.
Print Assumptions mult_refuted.
Print Assumptions excess_multiplicity.
