(* Span-local Cox-de Boor recursion: the form on which the B-spline theory is proved.
   On a span s (U s <= u < U (s+1)) every denominator the recursion actually uses is
   non-zero, and the terms it does not use vanish (Nloc_zero). *)
From Coq Require Import QArith List Lia Lqa Arith Bool.
Open Scope Q_scope.

(* knot sequences as total functions; monotone *)
Definition mono (U : nat -> Q) := forall i, U i <= U (S i).

Lemma mono_le U : mono U -> forall i j, (i <= j)%nat -> U i <= U j.
Proof. intros H i j Hij. induction Hij. lra. specialize (H m). lra. Qed.

(* span-local Cox-de Boor: base is [i = s] *)
Fixpoint Nloc (U : nat -> Q) (s : nat) (j i : nat) (u : Q) : Q :=
  match j with
  | O => if Nat.eqb i s then 1 else 0
  | S j' =>
      (u - U i) / (U (i + j)%nat - U i) * Nloc U s j' i u
    + (U (i + j + 1)%nat - u) / (U (i + j + 1)%nat - U (i + 1)%nat) * Nloc U s j' (S i) u
  end.

Lemma Nloc_zero U s j : forall i u, (i + j < s \/ s < i)%nat -> Nloc U s j i u == 0.
Proof.
  induction j as [|j IH]; intros i u H; cbn [Nloc].
  - destruct (Nat.eqb_spec i s); [lia | reflexivity].
  - rewrite (IH i u) by lia. rewrite (IH (S i) u) by lia. ring.
Qed.

