(* C09: the B-spline derivative formula on the span-local recursion.
   D0  dNloc is the (algebraic) derivative of the polynomial u |-> Nloc U s j i u: Taylor form with remainder.
   D1  dNloc U s j i u = j * (Nloc (j-1) i / (U(i+j) - U i) - Nloc (j-1) (i+1) / (U(i+j+1) - U(i+1))).
   D2  curve level (summation by parts); shifted-sequence form.
   D3  link to Model.Calculus.difference_points. *)
From Coq Require Import QArith Qabs List Lia Lqa Arith Bool Setoid.
From NurbsV Require Import Base.QList Proofs.Local Proofs.BasisTheory Proofs.InsertSeq Proofs.KVProofs Proofs.EvalProofs Proofs.SplitProofs
  Model.Calculus.
Import ListNotations.
Open Scope Q_scope.

(* derivative of the span-local recursion: product rule on each of the two terms *)
Fixpoint dNloc (U : nat -> Q) (s j i : nat) (u : Q) : Q :=
  match j with
  | O => 0
  | S j' =>
      (1 / (U (i + j)%nat - U i)) * Nloc U s j' i u
      + ((u - U i) / (U (i + j)%nat - U i)) * dNloc U s j' i u
      - (1 / (U (i + j + 1)%nat - U (i + 1)%nat)) * Nloc U s j' (S i) u
      + ((U (i + j + 1)%nat - u) / (U (i + j + 1)%nat - U (i + 1)%nat)) * dNloc U s j' (S i) u
  end.

Lemma Nloc_S U s j' i u :
  Nloc U s (S j') i u =
    (u - U i) / (U (i + S j')%nat - U i) * Nloc U s j' i u
  + (U (i + S j' + 1)%nat - u) / (U (i + S j' + 1)%nat - U (i + 1)%nat) * Nloc U s j' (S i) u.
Proof. reflexivity. Qed.

Lemma dNloc_S U s j' i u :
  dNloc U s (S j') i u =
      (1 / (U (i + S j')%nat - U i)) * Nloc U s j' i u
      + ((u - U i) / (U (i + S j')%nat - U i)) * dNloc U s j' i u
      - (1 / (U (i + S j' + 1)%nat - U (i + 1)%nat)) * Nloc U s j' (S i) u
      + ((U (i + S j' + 1)%nat - u) / (U (i + S j' + 1)%nat - U (i + 1)%nat)) * dNloc U s j' (S i) u.
Proof. reflexivity. Qed.

Lemma inject_nat_S n : inject_Z (Z.of_nat (S n)) == inject_Z (Z.of_nat n) + 1.
Proof. rewrite Nat2Z.inj_succ. unfold Z.succ. rewrite inject_Z_plus. reflexivity. Qed.

(* ------------------------------------------------------------------ *)
(* D1                                                                  *)
(* ------------------------------------------------------------------ *)

(* the algebra of the induction step.  A = U i, B = U (i+1), E = U (i+j), F = U (i+j+1);
   r0, r2 stand for the inverses of the two differences that may vanish. *)
Lemma deriv_alg (c u A B E F r0 r2 a0 a1 a2 : Q) :
  (a1 == 0 \/ (~ E - A == 0 /\ ~ F - B == 0 /\ ~ E - B == 0)) ->
    (1 * / (E - A)) * ((u - A) * r0 * a0 + (E - u) * / (E - B) * a1)
    + ((u - A) * / (E - A)) * (c * (a0 * r0 - a1 * / (E - B)))
    - (1 * / (F - B)) * ((u - B) * / (E - B) * a1 + (F - u) * r2 * a2)
    + ((F - u) * / (F - B)) * (c * (a1 * / (E - B) - a2 * r2))
  == (c + 1) * (((u - A) * r0 * a0 + (E - u) * / (E - B) * a1) * / (E - A)
               - ((u - B) * / (E - B) * a1 + (F - u) * r2 * a2) * / (F - B)).
Proof.
  intros [Z | (H1 & H2 & H3)].
  - rewrite Z. ring.
  - field. repeat split; assumption.
Qed.

(* summation by parts *)
Lemma sum_by_parts (g P : nat -> Q) m :
  qsum (map (fun i => (g i - g (S i)) * P i) (seq 0 (S m)))
  == g 0%nat * P 0%nat - g (S m) * P m
     + qsum (map (fun i => g (S i) * (P (S i) - P i)) (seq 0 m)).
Proof.
  induction m as [|m IH].
  - cbn [seq map qsum]. ring.
  - rewrite (qsum_seq_last (fun i => (g i - g (S i)) * P i) 0 (S m)). rewrite IH.
    rewrite (qsum_seq_last (fun i => g (S i) * (P (S i) - P i)) 0 m).
    cbn [Nat.add]. ring.
Qed.

Section Deriv.
Variable U : nat -> Q.
Variable s : nat.
Hypothesis HU : mono U.
Hypothesis Hs : U s < U (S s).

(* an active index has a non-degenerate support *)
Lemma support_pos j i : (i <= s)%nat -> (s <= i + j)%nat -> U i < U (i + j + 1)%nat.
Proof.
  intros A B. pose proof (mono_le U HU i s A).
  pose proof (mono_le U HU (S s) (i + j + 1)%nat ltac:(lia)). lra.
Qed.

Lemma Nloc_cases j i u :
  Nloc U s j i u == 0 \/ U i < U (i + j + 1)%nat.
Proof.
  destruct (le_lt_dec i s); [destruct (le_lt_dec s (i + j))|].
  - right. apply support_pos; assumption.
  - left. apply Nloc_zero. lia.
  - left. apply Nloc_zero. lia.
Qed.

Theorem dNloc_formula_S u : forall j' i,
  dNloc U s (S j') i u ==
    inject_Z (Z.of_nat (S j')) *
      ( Nloc U s j' i u / (U (i + S j')%nat - U i)
      - Nloc U s j' (S i) u / (U (i + S j' + 1)%nat - U (i + 1)%nat) ).
Proof.
  induction j' as [|j'' IH]; intro i.
  - cbn [dNloc Z.of_nat]. unfold Qdiv. change (inject_Z 0) with 0. ring_simplify.
    change (inject_Z (Z.pos (Pos.of_succ_nat 0))) with 1. ring.
  - rewrite dNloc_S. rewrite (IH i), (IH (S i)).
    rewrite (Nloc_S U s j'' i u), (Nloc_S U s j'' (S i) u).
    rewrite (inject_nat_S (S j'')).
    set (c := inject_Z (Z.of_nat (S j''))).
    replace (S i + S j'' + 1)%nat with (i + S (S j'') + 1)%nat by lia.
    replace (S i + S j'')%nat with (i + S (S j''))%nat by lia.
    replace (i + S j'' + 1)%nat with (i + S (S j''))%nat by lia.
    replace (S i + 1)%nat with (S (S i)) by lia.
    replace (i + 1)%nat with (S i) by lia.
    assert (Hc : Nloc U s j'' (S i) u == 0 \/
                 (~ U (i + S (S j''))%nat - U i == 0 /\
                  ~ U (i + S (S j'') + 1)%nat - U (S i) == 0 /\
                  ~ U (i + S (S j''))%nat - U (S i) == 0)).
    { destruct (Nloc_cases j'' (S i) u) as [Z | P]; [left; exact Z | right].
      replace (S i + j'' + 1)%nat with (i + S (S j''))%nat in P by lia.
      pose proof (HU i). pose proof (HU (i + S (S j''))%nat).
      replace (S (i + S (S j''))) with (i + S (S j'') + 1)%nat in * by lia.
      repeat split; lra. }
    pose proof (deriv_alg c u (U i) (U (S i)) (U (i + S (S j''))%nat) (U (i + S (S j'') + 1)%nat)
                  (/ (U (i + S j'')%nat - U i)) (/ (U (i + S (S j'') + 1)%nat - U (S (S i))))
                  (Nloc U s j'' i u) (Nloc U s j'' (S i) u) (Nloc U s j'' (S (S i)) u) Hc) as E.
    unfold Qdiv.
    etransitivity; [| etransitivity; [exact E|]]; ring.
Qed.

(* D1 as stated *)
Theorem dNloc_formula u j i : (1 <= j)%nat ->
  dNloc U s j i u ==
    inject_Z (Z.of_nat j) *
      ( Nloc U s (j - 1) i u / (U (i + j)%nat - U i)
      - Nloc U s (j - 1) (S i) u / (U (i + j + 1)%nat - U (i + 1)%nat) ).
Proof.
  intro Hj. destruct j as [|j']; [lia|].
  replace (S j' - 1)%nat with j' by lia. apply dNloc_formula_S.
Qed.

(* ------------------------------------------------------------------ *)
(* D2                                                                  *)
(* ------------------------------------------------------------------ *)
Variable u : Q.
Variable p n : nat.
Variable P : nat -> Q.
Hypothesis Hp1 : (1 <= p)%nat.
Hypothesis Hps : (p <= s)%nat.
Hypothesis Hsn : (s < n)%nat.

(* control coefficients of the derivative *)
Definition dcoef (i : nat) : Q :=
  inject_Z (Z.of_nat p) / (U (i + p + 1)%nat - U (i + 1)%nat) * (P (S i) - P i).

Theorem deriv_curve_seq :
  qsum (map (fun i => dNloc U s p i u * P i) (seq 0 n))
  == qsum (map (fun i => Nloc U s (p - 1) (S i) u * dcoef i) (seq 0 (n - 1))).
Proof.
  destruct n as [|m]; [lia|]. replace (S m - 1)%nat with m by lia.
  set (g := fun i => inject_Z (Z.of_nat p) * (Nloc U s (p - 1) i u / (U (i + p)%nat - U i))).
  rewrite (qsum_map_ext (fun i => dNloc U s p i u * P i) (fun i => (g i - g (S i)) * P i)).
  2:{ intros i _. rewrite (dNloc_formula u p i Hp1). unfold g.
      replace (S i + p)%nat with (i + p + 1)%nat by lia.
      replace (i + 1)%nat with (S i) by lia. ring. }
  rewrite (sum_by_parts g P m).
  assert (G0 : g 0%nat == 0).
  { unfold g. rewrite (Nloc_zero U s (p - 1) 0 u) by lia. unfold Qdiv. ring. }
  assert (Gn : g (S m) == 0).
  { unfold g. rewrite (Nloc_zero U s (p - 1) (S m) u) by lia. unfold Qdiv. ring. }
  rewrite G0, Gn.
  rewrite (qsum_map_ext (fun i => g (S i) * (P (S i) - P i))
                        (fun i => Nloc U s (p - 1) (S i) u * dcoef i)).
  2:{ intros i _. unfold g, dcoef, Qdiv.
      replace (S i + p)%nat with (i + p + 1)%nat by lia.
      replace (i + 1)%nat with (S i) by lia. ring. }
  ring.
Qed.

(* the same, read on the sequence without its first knot: a curve of degree p-1 on V m := U (S m),
   span s-1, with the control coefficients p / (V (i+p) - V i) * (P (i+1) - P i) *)
Theorem deriv_curve_shift :
  qsum (map (fun i => dNloc U s p i u * P i) (seq 0 n))
  == qsum (map (fun i => Nloc (fun m => U (S m)) (s - 1) (p - 1) i u *
                         (inject_Z (Z.of_nat p) / (U (S (i + p)) - U (S i)) * (P (S i) - P i)))
               (seq 0 (n - 1))).
Proof.
  rewrite deriv_curve_seq. apply qsum_map_ext. intros i _.
  rewrite (Nloc_window U (fun m => U (S m)) 1 (s - 1) u (p - 1) i).
  2:{ intros m _. replace (m + 1)%nat with (S m) by lia. reflexivity. }
  replace (s - 1 + 1)%nat with s by lia.
  unfold dcoef.
  replace (i + p + 1)%nat with (S (i + p)) by lia.
  replace (i + 1)%nat with (S i) by lia. reflexivity.
Qed.
End Deriv.

(* sanity: the derivative of the partition of unity vanishes *)
Corollary dNloc_sum_zero U s u p n :
  mono U -> U s < U (S s) -> (1 <= p)%nat -> (p <= s)%nat -> (s < n)%nat ->
  qsum (map (fun i => dNloc U s p i u) (seq 0 n)) == 0.
Proof.
  intros HU Hs Hp1 Hps Hsn.
  rewrite (qsum_map_ext (fun i => dNloc U s p i u) (fun i => dNloc U s p i u * (fun _ => 1) i))
    by (intros i _; ring).
  rewrite (deriv_curve_seq U s HU Hs u p n (fun _ => 1) Hp1 Hps Hsn).
  apply qsum_map_zero. intros i _. unfold dcoef. ring.
Qed.

Print Assumptions dNloc_formula.
Print Assumptions dNloc_sum_zero.
Print Assumptions deriv_curve_seq.
Print Assumptions deriv_curve_shift.

(* ------------------------------------------------------------------ *)
(* D0: dNloc is the derivative of the polynomial u |-> Nloc U s j i u   *)
(* ------------------------------------------------------------------ *)
(* second-order remainder, a polynomial in u and h built by the same recursion *)
Fixpoint rem (U : nat -> Q) (s j i : nat) (u h : Q) : Q :=
  match j with
  | O => 0
  | S j' =>
      ((u - U i) / (U (i + j)%nat - U i)) * rem U s j' i u h
      + (1 / (U (i + j)%nat - U i)) * (dNloc U s j' i u + h * rem U s j' i u h)
      + ((U (i + j + 1)%nat - u) / (U (i + j + 1)%nat - U (i + 1)%nat)) * rem U s j' (S i) u h
      - (1 / (U (i + j + 1)%nat - U (i + 1)%nat)) * (dNloc U s j' (S i) u + h * rem U s j' (S i) u h)
  end.

(* Taylor form: no hypothesis on U at all (0/0 := 0 included) *)
Theorem Nloc_taylor U s u h : forall j i,
  Nloc U s j i (u + h) == Nloc U s j i u + h * dNloc U s j i u + h * h * rem U s j i u h.
Proof.
  induction j as [|j' IH]; intro i.
  - cbn [Nloc dNloc rem]. destruct (Nat.eqb i s); ring.
  - cbn [Nloc dNloc rem]. rewrite (IH i), (IH (S i)). unfold Qdiv. ring.
Qed.

(* difference quotient *)
Corollary Nloc_diff_quotient U s u h j i : ~ h == 0 ->
  (Nloc U s j i (u + h) - Nloc U s j i u) / h == dNloc U s j i u + h * rem U s j i u h.
Proof. intro Hh. rewrite Nloc_taylor. field. exact Hh. Qed.

(* the same for the specification N inside one span *)
Corollary N_taylor U n s u h :
  mono U -> U s <= u -> u < U (S s) -> U s <= u + h -> u + h < U (S s) ->
  ~ u == U n -> ~ u + h == U n ->
  forall j i,
  Spec.BSpline.N U n j i (u + h) ==
    Spec.BSpline.N U n j i u + h * dNloc U s j i u + h * h * rem U s j i u h.
Proof.
  intros HU A1 A2 B1 B2 C1 C2 j i.
  rewrite (N_local U n s (u + h) HU B1 B2 C2), (N_local U n s u HU A1 A2 C1).
  apply Nloc_taylor.
Qed.


(* epsilon-delta form over Q: the remainder is bounded for |h| <= 1, so the difference quotient
   tends to dNloc.  (Inside a span Nloc is the B-spline N: N_taylor.) *)
Lemma abs_add x y X Y : Qabs x <= X -> Qabs y <= Y -> Qabs (x + y) <= X + Y.
Proof. intros A B. pose proof (Qabs_triangle x y). lra. Qed.

Lemma abs_sub x y X Y : Qabs x <= X -> Qabs y <= Y -> Qabs (x - y) <= X + Y.
Proof.
  intros A B. unfold Qminus. apply abs_add; [exact A|]. rewrite Qabs_opp. exact B.
Qed.

Lemma abs_mul x y Y : Qabs y <= Y -> Qabs (x * y) <= Qabs x * Y.
Proof.
  intro B. rewrite Qabs_Qmult. pose proof (Qabs_nonneg x).
  rewrite (Qmult_comm (Qabs x) (Qabs y)), (Qmult_comm (Qabs x) Y).
  apply Qmult_le_compat_r; assumption.
Qed.

Lemma abs_mul_h h x M : Qabs h <= 1 -> Qabs x <= M -> Qabs (h * x) <= M.
Proof.
  intros A B. rewrite Qabs_Qmult. pose proof (Qabs_nonneg h). pose proof (Qabs_nonneg x).
  assert (Qabs h * Qabs x <= 1 * Qabs x) by (apply Qmult_le_compat_r; assumption).
  lra.
Qed.

Lemma rem_bounded U s u : forall j i,
  exists M, 0 <= M /\ forall h, Qabs h <= 1 -> Qabs (rem U s j i u h) <= M.
Proof.
  induction j as [|j' IH]; intro i.
  - exists 0. split; [lra|]. intros h _. cbn [rem]. cbn. lra.
  - destruct (IH i) as (M0 & P0 & B0). destruct (IH (S i)) as (M1 & P1 & B1).
    cbn [rem].
    set (a := (u - U i) / (U (i + S j')%nat - U i)).
    set (d := 1 / (U (i + S j')%nat - U i)).
    set (b := (U (i + S j' + 1)%nat - u) / (U (i + S j' + 1)%nat - U (i + 1)%nat)).
    set (e := 1 / (U (i + S j' + 1)%nat - U (i + 1)%nat)).
    exists (Qabs a * M0 + Qabs d * (Qabs (dNloc U s j' i u) + M0)
            + Qabs b * M1 + Qabs e * (Qabs (dNloc U s j' (S i) u) + M1)).
    split.
    + pose proof (Qabs_nonneg a). pose proof (Qabs_nonneg d).
      pose proof (Qabs_nonneg b). pose proof (Qabs_nonneg e).
      pose proof (Qabs_nonneg (dNloc U s j' i u)). pose proof (Qabs_nonneg (dNloc U s j' (S i) u)).
      repeat apply Qplus_nonneg; apply Qmult_le_0_compat; lra.
    + intros h Hh. specialize (B0 h Hh). specialize (B1 h Hh).
      apply abs_sub; [apply abs_add; [apply abs_add|]|].
      * apply abs_mul. exact B0.
      * apply abs_mul. apply abs_add; [apply Qle_refl | apply abs_mul_h; assumption].
      * apply abs_mul. exact B1.
      * apply abs_mul. apply abs_add; [apply Qle_refl | apply abs_mul_h; assumption].
Qed.

Theorem Nloc_derivative U s u j i : forall eps, 0 < eps ->
  exists delta, 0 < delta /\
    forall h, ~ h == 0 -> Qabs h < delta ->
      Qabs ((Nloc U s j i (u + h) - Nloc U s j i u) / h - dNloc U s j i u) < eps.
Proof.
  intros eps He. destruct (rem_bounded U s u j i) as (M & PM & BM).
  assert (Hd : 0 < eps / (M + 1)).
  { apply Qlt_shift_div_l; lra. }
  assert (Hmul : eps / (M + 1) * (M + 1) == eps) by (field; lra).
  set (d0 := eps / (M + 1)) in *.
  assert (Key : forall delta h, 0 < delta -> delta <= 1 -> delta <= d0 -> ~ h == 0 -> Qabs h < delta ->
            Qabs ((Nloc U s j i (u + h) - Nloc U s j i u) / h - dNloc U s j i u) < eps).
  { intros delta h D0 D1 D2 Hh Hlt.
    rewrite (Nloc_diff_quotient U s u h j i Hh).
    setoid_replace (dNloc U s j i u + h * rem U s j i u h - dNloc U s j i u)
      with (h * rem U s j i u h) by ring.
    rewrite Qabs_Qmult.
    assert (B : Qabs (rem U s j i u h) <= M) by (apply BM; lra).
    pose proof (Qabs_nonneg h). pose proof (Qabs_nonneg (rem U s j i u h)).
    assert (Qabs h * Qabs (rem U s j i u h) <= Qabs h * M).
    { rewrite (Qmult_comm (Qabs h) (Qabs (rem U s j i u h))), (Qmult_comm (Qabs h) M).
      apply Qmult_le_compat_r; assumption. }
    assert (Qabs h * (M + 1) < d0 * (M + 1)).
    { apply Qmult_lt_compat_r; lra. }
    nra. }
  destruct (Qlt_le_dec d0 1) as [C|C].
  - exists d0. split; [exact Hd|]. intros h Hh Hlt. apply (Key d0 h); try lra; assumption.
  - exists 1. split; [lra|]. intros h Hh Hlt. apply (Key 1 h); try lra; assumption.
Qed.

Print Assumptions Nloc_taylor.
Print Assumptions Nloc_derivative.
Print Assumptions N_taylor.

(* ------------------------------------------------------------------ *)
(* D3: the model's difference_points computes the coefficients of D2   *)
(* ------------------------------------------------------------------ *)
Lemma Qdiv_zero_den x y : y == 0 -> x / y == 0.
Proof. intro H. rewrite H. apply Qdiv_0_r. Qed.

(* entry i of the list *)
Lemma difference_points_nth (U : list Q) (p : nat) (P : list pt) i :
  (i < length P - 1)%nat ->
  nth i (difference_points U p P) [] =
    vscale (if Qeqb (nthq U (S i + p) - nthq U (S i)) 0 then 0
            else inject_Z (Z.of_nat p) / (nthq U (S i + p) - nthq U (S i)))
           (vsubp (nth (S i) P []) (nth i P [])).
Proof.
  intro Hi. unfold difference_points.
  rewrite (nth_map_in (B := pt) _ 0%nat []) by (rewrite seq_length; exact Hi).
  rewrite seq_nth by exact Hi.
  replace (1 + i)%nat with (S i) by lia.
  replace (S i - 1)%nat with i by lia. reflexivity.
Qed.

Lemma difference_points_length U p P : length (difference_points U p P) = (length P - 1)%nat.
Proof. unfold difference_points. rewrite map_length, seq_length. reflexivity. Qed.

(* coordinate k of entry i: exactly the coefficient [dcoef] of D2 *)
Theorem difference_points_coef (U : list Q) (p : nat) (P : list pt) i k :
  (i < length P - 1)%nat ->
  (k < length (nth (S i) P []))%nat -> (k < length (nth i P []))%nat ->
  nth k (nth i (difference_points U p P) []) 0
  == dcoef (nthq U) p (fun m => nth k (nth m P []) 0) i.
Proof.
  intros Hi K1 K2. rewrite (difference_points_nth U p P i Hi).
  unfold vscale, vsubp, dcoef.
  rewrite (nth_map_in _ 0 0) by (rewrite map2_length; lia).
  rewrite (nth_map2 _ 0 0 0) by assumption.
  rewrite !Qred_correct.
  replace (i + p + 1)%nat with (S i + p)%nat by lia.
  replace (i + 1)%nat with (S i) by lia.
  destruct (Qeqb_spec (nthq U (S i + p) - nthq U (S i)) 0) as [Z|Z].
  - rewrite (Qdiv_zero_den _ _ Z). ring.
  - reflexivity.
Qed.

(* D2 + D3: the derivative of coordinate k of the curve with control points P on the knot list U
   is the degree p-1 combination of the entries of difference_points *)
Theorem deriv_curve_model (U : list Q) (p s d k : nat) (P : list pt) (u : Q) :
  mono (nthq U) -> nthq U s < nthq U (S s) ->
  (1 <= p)%nat -> (p <= s)%nat -> (s < length P)%nat ->
  (forall i, (i < length P)%nat -> length (nth i P []) = d) -> (k < d)%nat ->
  qsum (map (fun i => dNloc (nthq U) s p i u * nth k (nth i P []) 0) (seq 0 (length P)))
  == qsum (map (fun i => Nloc (nthq U) s (p - 1) (S i) u
                         * nth k (nth i (difference_points U p P) []) 0)
               (seq 0 (length (difference_points U p P)))).
Proof.
  intros HU Hs Hp1 Hps Hsn Hd Hk.
  rewrite (deriv_curve_seq (nthq U) s HU Hs u p (length P) (fun m => nth k (nth m P []) 0) Hp1 Hps Hsn).
  rewrite difference_points_length.
  apply qsum_map_ext. intros i Hi. apply in_seq in Hi.
  rewrite (difference_points_coef U p P i k) by (try rewrite !Hd; lia).
  reflexivity.
Qed.

Print Assumptions difference_points_coef.
Print Assumptions deriv_curve_model.

(* ------------------------------------------------------------------ *)
(* Non-vacuity                                                         *)
(* ------------------------------------------------------------------ *)
Definition ex_U : list Q := [0; 0; 0; 1; 2; 3; 3; 3].
Definition ex_P : list pt := [[0; 1]; [1; 3]; [2; 0]; [4; 1]; [5; 5]].

Example ex_hyps : mono (nthq ex_U) /\ nthq ex_U 3 < nthq ex_U (S 3).
Proof.
  split; [intro i; apply sorted_mono; vm_compute; reflexivity|].
  apply Qltb_lt. vm_compute. reflexivity.
Qed.

(* D1 on the span [1,2) of ex_U, every degree and index *)
Example ex_D1 : forall u j i, (1 <= j)%nat ->
  dNloc (nthq ex_U) 3 j i u ==
    inject_Z (Z.of_nat j) *
      ( Nloc (nthq ex_U) 3 (j - 1) i u / (nthq ex_U (i + j) - nthq ex_U i)
      - Nloc (nthq ex_U) 3 (j - 1) (S i) u / (nthq ex_U (i + j + 1) - nthq ex_U (i + 1)) ).
Proof. destruct ex_hyps as [A B]. exact (dNloc_formula (nthq ex_U) 3 A B). Qed.

(* both sides of D1 computed at u = 3/2, degree 2, indices 0..5 *)
Example ex_D1_compute :
  forallb (fun i =>
    Qeqb (dNloc (nthq ex_U) 3 2 i (3#2))
         (inject_Z 2 * ( Nloc (nthq ex_U) 3 1 i (3#2) / (nthq ex_U (i + 2) - nthq ex_U i)
                       - Nloc (nthq ex_U) 3 1 (S i) (3#2) / (nthq ex_U (i + 3) - nthq ex_U (i + 1)))))
    (seq 0 6) = true.
Proof. vm_compute. reflexivity. Qed.

(* the derivative is not trivially zero there: dN_{2,3}(3/2) = 1/2, dN_{2,1}(3/2) = -1/2
   (dN_{2,2}(3/2) = 0: the symmetric quadratic B-spline on 0,1,2,3 peaks at 3/2) *)
Example ex_D1_values :
  Qeqb (dNloc (nthq ex_U) 3 2 3 (3#2)) (1#2) && Qeqb (dNloc (nthq ex_U) 3 2 1 (3#2)) (-1#2)
  && Qeqb (dNloc (nthq ex_U) 3 2 2 (3#2)) 0 = true.
Proof. vm_compute. reflexivity. Qed.

(* D2 + D3 on the model's difference_points, degree 2, both coordinates *)
Example ex_D2 : forall u k, (k < 2)%nat ->
  qsum (map (fun i => dNloc (nthq ex_U) 3 2 i u * nth k (nth i ex_P []) 0) (seq 0 5))
  == qsum (map (fun i => Nloc (nthq ex_U) 3 1 (S i) u
                         * nth k (nth i (difference_points ex_U 2 ex_P) []) 0) (seq 0 4)).
Proof.
  intros u k Hk. destruct ex_hyps as [A B].
  apply (deriv_curve_model ex_U 2 3 2 k ex_P u A B); try (cbn; lia); try exact Hk.
  intros i Hi. cbn in Hi.
  destruct i as [|[|[|[|[|i]]]]]; try reflexivity; lia.
Qed.
