(* Knot removal undoes knot insertion exactly.
   U1: the coarse basis is the fine basis contracted with the Boehm insertion matrix M;
   U2: the unconstrained projection spline2spline kf k None = (T, E) satisfies T M = I, E vanishes on range(M);
   U3: the same for the interpolation-constrained projection (the one knot_remove uses);
   U4: curve level: c_knot_remove (c_knot_insert c nodes) nodes returns the control points of c. *)
From Coq Require Import QArith Qabs List Bool Arith Lia Lqa Setoid Morphisms Permutation.
From NurbsV Require Import Base.Res Base.QList Spec.BSpline Spec.KnotSpec Gen.Consts Model.KV Model.Basis
  Model.CurveM Model.Ops Model.CurveOps Model.Linalg Model.Quadrature Model.LeastSq Model.CurveLS.
From NurbsV Require Import Proofs.KVProofs Proofs.EvalProofs Proofs.InsertBasic Proofs.InsertList
  Proofs.InsertCompose Proofs.InsertCurve Proofs.RemoveBasic Proofs.MatProofs Proofs.LSProofs.
From NurbsV Require Proofs.UnionProofs.
Import ListNotations.
Open Scope Q_scope.

(* ------------------------------------------------------------------ *)
(* 0. basis rows and the specification                                  *)
(* ------------------------------------------------------------------ *)
Lemma basis_row_valid k j u r : basis_row k j u = Ok r -> kvalid1 k u = true.
Proof.
  unfold basis_row, kspan. destruct (kvalid1 k u); [reflexivity|]. cbn. intro H; discriminate.
Qed.

(* dot of the basis row with a coefficient vector = the specification's curve value *)
Lemma basis_row_dot k u r z :
  WF (kvec k) (kdeg k) -> basis_row k (kdeg k) u = Ok r -> length z = knpts k ->
  dot r z == curve_spec1 (kvec k) (kdeg k) z u.
Proof.
  intros W Hr Hz.
  destruct (basis_row_spec k (kdeg k) u W (le_n _) (basis_row_valid _ _ _ _ Hr)) as (r' & Hr' & Hl & Hn).
  rewrite Hr in Hr'. inversion Hr'; subst r'. clear Hr'.
  rewrite dot_correct.
  rewrite (qsum_map2_seq (fun x y => x * y) 0 r z) by lia.
  rewrite Hl. unfold curve_spec1. rewrite npts_of_knpts.
  apply qsum_map_ext. intros i Hi. apply in_seq in Hi. rewrite (Hn i) by lia. reflexivity.
Qed.

Lemma in_range_knots_proper U1 U2 p u : Forall2 Qeq U1 U2 -> in_range U1 p u = in_range U2 p u.
Proof.
  intro H. unfold in_range, umin_of, umax_of.
  rewrite (InsertCompose.Forall2_Qeq_length _ _ H).
  rewrite (InsertCompose.Forall2_Qeq_nthq _ _ H p).
  rewrite (InsertCompose.Forall2_Qeq_nthq _ _ H (length U2 - p - 1)). reflexivity.
Qed.

(* ------------------------------------------------------------------ *)
(* 0b. Gram transfer for FF (bilinear), rows at interpolation nodes,    *)
(*     bilinear form of the symmetrised error matrix                    *)
(* ------------------------------------------------------------------ *)
Theorem grams_of_transfer_FF kold knew g x y a b : grams_of kold knew = Ok g ->
  length x = knpts kold -> length y = knpts kold -> length a = knpts knew -> length b = knpts knew ->
  (forall u f gk, In u (quad_nodes kold knew) ->
      basis_row kold (kdeg kold) u = Ok f -> basis_row knew (kdeg knew) u = Ok gk -> dot f x == dot gk a) ->
  (forall u f gk, In u (quad_nodes kold knew) ->
      basis_row kold (kdeg kold) u = Ok f -> basis_row knew (kdeg knew) u = Ok gk -> dot f y == dot gk b) ->
  dot x (mvec (gFF g) y) == dot a (mvec (gGG g) b).
Proof.
  intros H Hx Hy Ha Hb Nx Ny. revert g H.
  apply (grams_of_ind_shaped kold knew (fun g => dot x (mvec (gFF g) y) == dot a (mvec (gGG g) b))).
  - unfold gzero; cbn [gFF gGG]. rewrite !mvec_zeros_mat, !dot_zeros_r. reflexivity.
  - intros c u f gk acc Hu Hf Hg Lf Lg (S1 & S2 & S3) IH. cbn [gstep gFF gGG].
    pose proof (shaped_len _ _ _ S1) as L1. pose proof (shaped_len _ _ _ S3) as L3.
    rewrite (mvec_outer_acc c f f _ _ (gFF acc) y Lf Lf S1).
    rewrite (mvec_outer_acc c gk gk _ _ (gGG acc) b Lg Lg S3).
    rewrite !dot_vplus_r by vlen. unfold vscl. rewrite !dot_scale_r.
    rewrite IH. rewrite (Ny u f gk Hu Hf Hg). rewrite (dot_sym x f), (Nx u f gk Hu Hf Hg).
    rewrite (dot_sym a gk). reflexivity.
Qed.

Lemma rows_transfer {A} (f1 f2 : A -> res (list Q)) x z : forall ns F G,
  Forall2 (fun a b => f1 a = Ok b) ns F -> Forall2 (fun a b => f2 a = Ok b) ns G ->
  (forall u f g, In u ns -> f1 u = Ok f -> f2 u = Ok g -> dot f x == dot g z) ->
  veq (mvec F x) (mvec G z).
Proof.
  intros ns F G H1. revert G. induction H1 as [|u f ns F Hu H1 IH]; intros G H2 Hn.
  - inversion H2; subst. constructor.
  - inversion H2 as [|u' g ns' G' Hg H2']; subst. cbn [mvec map]. constructor.
    + apply (Hn u f g); [left; reflexivity|exact Hu|exact Hg].
    + apply IH; [exact H2'|]. intros u0 f0 g0 Hin. apply Hn. right. exact Hin.
Qed.

Section AbstractErrorBilinear.
  Variables (nn no : nat) (FF GF GG T : mat).
  Hypothesis SFF : shaped no no FF.
  Hypothesis SGF : shaped nn no GF.
  Hypothesis SGG : shaped nn nn GG.
  Hypothesis ST : shaped nn no T.

  Theorem qE_bilinear x y : length x = no -> length y = no ->
    dot x (mvec (qE no FF GF GG T) y) ==
    (1 # 2) * (dot x (mvec FF y) - dot (mvec T x) (mvec GF y) - dot (mvec T y) (mvec GF x)
               + dot (mvec T x) (mvec GG (mvec T y))).
  Proof using All.
    intros Hx Hy. pose proof (shaped_len _ _ _ SFF) as LFF. pose proof (shaped_len _ _ _ SGF) as LGF.
    pose proof (shaped_len _ _ _ SGG) as LGG. pose proof (shaped_len _ _ _ ST) as LT.
    set (TGF := qTGF no GF T).
    assert (S1 : shaped no no TGF) by (apply shaped_mmul_n'; vlen).
    assert (S2 : shaped no no (mtrans_n no TGF)) by (apply shaped_mtrans_n'; unfold TGF, qTGF; vlen).
    assert (S3 : shaped no no (mmul_n no (mtrans_n no T) (mmul_n no GG T))) by (apply shaped_mmul_n'; vlen).
    unfold qE. fold TGF. rewrite mvec_mscale.
    rewrite (mvec_madd no no); [|apply shaped_msub; [apply shaped_msub|]; assumption|exact S3].
    rewrite (mvec_msub no no); [|apply shaped_msub; assumption|exact S2].
    rewrite (mvec_msub no no); [|assumption|assumption].
    unfold vscl. rewrite dot_scale_r.
    rewrite dot_vplus_r by (unfold TGF, qTGF; vlen).
    rewrite !dot_vsub_r by (unfold TGF, qTGF; vlen).
    assert (E1 : forall x y, length x = no -> length y = no ->
                 dot x (mvec TGF y) == dot (mvec T x) (mvec GF y)).
    { intros x0 y0 Hx0 Hy0. unfold TGF, qTGF. rewrite (mvec_mmul_n_gen no _ GF y0 Hy0).
      rewrite <- (dot_mvec_adjoint_gen no T x0 (mvec GF y0) Hx0) by vlen. reflexivity. }
    assert (E2 : dot x (mvec (mtrans_n no TGF) y) == dot (mvec T y) (mvec GF x)).
    { rewrite <- (dot_mvec_adjoint_gen no TGF x y Hx) by (unfold TGF, qTGF; vlen).
      rewrite dot_sym. apply E1; assumption. }
    assert (E3 : dot x (mvec (mmul_n no (mtrans_n no T) (mmul_n no GG T)) y)
                 == dot (mvec T x) (mvec GG (mvec T y))).
    { rewrite (mvec_mmul_n_gen no _ _ y Hy). rewrite (mvec_mmul_n_gen no GG T y Hy).
      rewrite <- (dot_mvec_adjoint_gen no T x _ Hx) by vlen. reflexivity. }
    rewrite (E1 x y Hx Hy), E2, E3. ring.
  Qed.
End AbstractErrorBilinear.

(* the constrained projection reproduces whatever lies in the new space: abstract algebra.
   If GF (M z) = GG z and F (M z) = G z for every z then cT (M z) = z. *)
Section AbstractUndo.
  Variables (nn no : nat) (FF GF GG GGinv : mat).
  Hypothesis SFF : shaped no no FF.
  Hypothesis SGF : shaped nn no GF.
  Hypothesis SGG : shaped nn nn GG.
  Hypothesis SGGi : shaped nn nn GGinv.
  Hypothesis HGGr : forall v, length v = nn -> veq (mvec GG (mvec GGinv v)) v.
  Hypothesis HGGl : forall v, length v = nn -> veq (mvec GGinv (mvec GG v)) v.
  Variables (m : nat) (G F LLinv : mat).
  Hypothesis SG : shaped m nn G.
  Hypothesis SF : shaped m no F.
  Hypothesis SLLi : shaped m m LLinv.
  Hypothesis HLLr : forall y, length y = m -> veq (mvec (aLL nn GGinv m G) (mvec LLinv y)) y.
  Variable Mm : mat.
  Hypothesis LM : length Mm = no.
  Hypothesis HGFM : forall z, length z = nn -> veq (mvec GF (mvec Mm z)) (mvec GG z).
  Hypothesis HFM : forall z, length z = nn -> veq (mvec F (mvec Mm z)) (mvec G z).

  Theorem cT_undo z : length z = nn ->
    veq (mvec (cT nn no GF GGinv m G F LLinv) (mvec Mm z)) z.
  Proof using All.
    intro Hz.
    pose proof (shaped_len _ _ _ SGG) as LGG. pose proof (shaped_len _ _ _ SGGi) as LGGi.
    pose proof (shaped_len _ _ _ SG) as LG. pose proof (shaped_len _ _ _ SLLi) as LLLi.
    assert (Hv : length (mvec Mm z) = no) by (rewrite mvec_length; exact LM).
    rewrite (cT_act nn no FF GF GG GGinv SFF SGF SGG SGGi HGGr HGGl m G F LLinv SG SF SLLi HLLr _ Hv).
    rewrite (HGFM z Hz), (HFM z Hz).
    rewrite (aQG_act nn no FF GF GG GGinv SFF SGF SGG SGGi HGGr HGGl m G F LLinv SG SF SLLi HLLr (mvec GG z))
      by (rewrite mvec_length; exact LGG).
    rewrite (aQF_act nn no FF GF GG GGinv SFF SGF SGG SGGi HGGr HGGl m G F LLinv SG SF SLLi HLLr (mvec G z))
      by (rewrite mvec_length; exact LG).
    rewrite !(HGGl z Hz).
    pose proof (aGT_length nn no FF GF GG GGinv SFF SGF SGG SGGi HGGr HGGl m G F LLinv SG SF SLLi HLLr) as LGT.
    vring.
  Qed.
End AbstractUndo.

(* ------------------------------------------------------------------ *)
(* 1. The setting: k coarse, kf = k + nodes, M the insertion matrix;    *)
(*    kc any well-formed vector with the knots of k up to ==            *)
(*    (the vector kremove gives back; kc := k is the plain case)        *)
(* ------------------------------------------------------------------ *)
Section Setting.
  Variables (k kf kc : kv) (nodes : list Q) (M : mat).
  Hypothesis W : WF (kvec k) (kdeg k).
  Hypothesis HM : knot_insert k nodes = Ok M.
  Hypothesis Hk : kinsert k nodes = Ok kf.
  Hypothesis Hd : kdeg kf = kdeg k.
  Hypothesis Wc : WF (kvec kc) (kdeg kc).
  Hypothesis Hcv : Forall2 Qeq (kvec kc) (kvec k).
  Hypothesis Hcd : kdeg kc = kdeg k.

  Let no := knpts kf.
  Let nn := knpts kc.

  Lemma kc_npts : knpts kc = knpts k.
  Proof using Hcv Hcd. unfold knpts. rewrite (InsertCompose.Forall2_Qeq_length _ _ Hcv), Hcd. reflexivity. Qed.

  Lemma kf_wf : WF (kvec kf) (kdeg kf).
  Proof using Hk. exact (kinsert_wf _ _ _ Hk). Qed.

  Lemma M_shaped : shaped no nn M.
  Proof using All.
    pose proof HM as H. rewrite knot_insert_full_fst in H.
    destruct (knot_insert_full k nodes) as [[M' kf']|] eqn:E; cbn [bind fst] in H; [|discriminate].
    inversion H; subst M'.
    destruct (knot_insert_full_inv k nodes M kf' W E) as (_ & _ & _ & R1 & _).
    destruct (knot_insert_curve k nodes M kf W HM Hk Hd) as [L _].
    split; [exact L|]. unfold nn. rewrite kc_npts. exact R1.
  Qed.

  Lemma M_length : length M = no.
  Proof using All. exact (proj1 M_shaped). Qed.

  (* U1, bilinear form: sum_r f_r (M z)_r = sum_i g_i z_i *)
  Theorem U1_dot u f g z :
    basis_row kf (kdeg kf) u = Ok f -> basis_row kc (kdeg kc) u = Ok g -> length z = nn ->
    dot f (mvec M z) == dot g z.
  Proof using All.
    intros Hf Hg Hz.
    rewrite (basis_row_dot kf u f (mvec M z) kf_wf Hf) by (rewrite mvec_length; exact M_length).
    rewrite (basis_row_dot kc u g z Wc Hg Hz).
    rewrite Hd, Hcd.
    rewrite (curve_spec1_knots_proper (kvec kc) (kvec k) _ _ _ Hcv).
    destruct (knot_insert_curve k nodes M kf W HM Hk Hd) as [_ C].
    apply C.
    - rewrite <- kc_npts. exact Hz.
    - rewrite <- Hcd. rewrite <- (in_range_knots_proper _ _ (kdeg kc) u Hcv).
      rewrite <- kvalid1_in_range. exact (basis_row_valid _ _ _ _ Hg).
  Qed.

  (* U1: the coarse basis values are the fine ones contracted with M *)
  Theorem U1_basis u f g :
    basis_row kf (kdeg kf) u = Ok f -> basis_row kc (kdeg kc) u = Ok g ->
    veq g (mvec (mtrans_n nn M) f).
  Proof using All.
    intros Hf Hg.
    pose proof (basis_row_length _ _ _ _ Hf) as Lf. pose proof (basis_row_length _ _ _ _ Hg) as Lg.
    fold no in Lf. fold nn in Lg.
    apply veq_intro; [rewrite mvec_length, mtrans_n_length; exact Lg|].
    intros i Hi. rewrite Lg in Hi.
    rewrite <- (dot_evec_l nn i g Hi Lg).
    rewrite <- (dot_evec_l nn i (mvec (mtrans_n nn M) f) Hi) by (rewrite mvec_length, mtrans_n_length; reflexivity).
    rewrite (dot_sym (evec nn i) g).
    rewrite <- (U1_dot u f g (evec nn i) Hf Hg (evec_length nn i Hi)).
    rewrite dot_sym.
    apply (dot_mvec_adjoint_gen nn M (evec nn i) f (evec_length nn i Hi)).
    rewrite M_length. exact Lf.
  Qed.

  Corollary U1_entry u f g i :
    basis_row kf (kdeg kf) u = Ok f -> basis_row kc (kdeg kc) u = Ok g -> (i < nn)%nat ->
    nth i g 0 == dot f (mcol i M).
  Proof using All.
    intros Hf Hg Hi. rewrite (veq_nth _ _ (U1_basis u f g Hf Hg) i).
    rewrite nth_mvec, row_mtrans_n by exact Hi. apply dot_sym.
  Qed.
  Lemma nn_pos : (0 < nn)%nat.
  Proof using Wc. exact (wf_knpts_pos kc Wc). Qed.

  (* the node hypotheses of the Gram transfer theorems, for x = M z *)
  Lemma U1_nodes z : length z = nn ->
    forall u f gk, In u (quad_nodes kf kc) ->
      basis_row kf (kdeg kf) u = Ok f -> basis_row kc (kdeg kc) u = Ok gk ->
      dot f (mvec M z) == dot gk z.
  Proof using All. intros Hz u f gk _ Hf Hg. exact (U1_dot u f gk z Hf Hg Hz). Qed.

  Lemma Mz_length z : length (mvec M z) = no.
  Proof using All. rewrite mvec_length. exact M_length. Qed.

  Lemma GF_M g z : grams_of kf kc = Ok g -> length z = nn ->
    veq (mvec (gGF g) (mvec M z)) (mvec (gGG g) z).
  Proof using All.
    intros Hg Hz. apply (grams_of_transfer kf kc g (mvec M z) z Hg (Mz_length z) Hz (U1_nodes z Hz)).
  Qed.

  Lemma FF_M g a b : grams_of kf kc = Ok g -> length a = nn -> length b = nn ->
    dot (mvec M a) (mvec (gFF g) (mvec M b)) == dot a (mvec (gGG g) b).
  Proof using All.
    intros Hg Ha Hb.
    apply (grams_of_transfer_FF kf kc g (mvec M a) (mvec M b) a b Hg (Mz_length a) (Mz_length b) Ha Hb
             (U1_nodes a Ha) (U1_nodes b Hb)).
  Qed.

  (* ---------------------------------------------------------------- *)
  (* U2: the unconstrained projection                                   *)
  (* ---------------------------------------------------------------- *)
  Section U2.
    Variables (T E : mat).
    Hypothesis HS : spline2spline kf kc None = Ok (T, E).

    Lemma U2_grams : exists g, grams_of kf kc = Ok g.
    Proof using HS.
      destruct (s2s_none_unfold _ _ _ _ HS) as (g & _ & Hg & _). exists g. exact Hg.
    Qed.

    Theorem U2_vec z : length z = nn -> veq (mvec T (mvec M z)) z.
    Proof using All.
      intro Hz. destruct U2_grams as [g Hg].
      apply (spline2spline_reproduces kf kc T E g HS Hg (mvec M z) z (Mz_length z) Hz (U1_nodes z Hz)).
    Qed.

    Theorem U2_left_inverse : meq (mmul_n nn T M) (ident nn).
    Proof using All.
      destruct U2_grams as [g Hg].
      pose proof (spline2spline_T_shaped kf kc T E g HS Hg) as ST.
      apply (meq_ext nn nn); [apply shaped_mmul_n'; exact (shaped_len _ _ _ ST)|apply shaped_ident|].
      intros z Hz. rewrite (mvec_mmul_n_gen nn T M z Hz). rewrite (MatProofs.mvec_ident nn z Hz).
      apply U2_vec. exact Hz.
    Qed.

    (* the error form vanishes on range(M): bilinear version (what fit_error reads) *)
    Theorem U2_error_bilinear a b : length a = nn -> length b = nn ->
      dot (mvec M a) (mvec E (mvec M b)) == 0.
    Proof using All.
      intros Ha Hb. destruct U2_grams as [g Hg].
      destruct (grams_of_shaped _ _ _ Hg) as (S1 & S2 & S3).
      pose proof (shaped_len _ _ _ S1) as L1. pose proof (shaped_len _ _ _ S2) as L2.
      pose proof (spline2spline_T_shaped kf kc T E g HS Hg) as ST. pose proof (shaped_len _ _ _ ST) as LT.
      rewrite (spline2spline_error_action kf kc T E g (mvec M b) HS Hg nn_pos (Mz_length b)).
      rewrite dot_vsub_r by (rewrite !mvec_length, mtrans_n_length; exact L1).
      rewrite (FF_M g a b Hg Ha Hb).
      rewrite <- (dot_mvec_adjoint_gen (knpts kf) (gGF g) (mvec M a) (mvec T (mvec M b)) (Mz_length a))
        by (rewrite mvec_length; congruence).
      rewrite (U2_vec b Hb). rewrite (GF_M g a Hg Ha).
      rewrite (dot_sym (mvec (gGG g) a) b).
      rewrite (grams_of_GG_symmetric kf kc g Hg b a Hb Ha). ring.
    Qed.

    Corollary U2_error z : length z = nn -> dot (mvec M z) (mvec E (mvec M z)) == 0.
    Proof using All. intro Hz. apply U2_error_bilinear; exact Hz. Qed.
  End U2.

  (* ---------------------------------------------------------------- *)
  (* U3: the constrained projection (interpolation at the nodes ns)     *)
  (* ---------------------------------------------------------------- *)
  Section U3.
    Variables (ns : list Q) (T E : mat).
    Hypothesis HS : spline2spline kf kc (Some ns) = Ok (T, E).
    Hypothesis Hns : (0 < length ns)%nat.

    Lemma U3_data : exists g F G, grams_of kf kc = Ok g /\
      mapM (basis_row kf (kdeg kf)) ns = Ok F /\ mapM (basis_row kc (kdeg kc)) ns = Ok G.
    Proof using HS.
      destruct (s2s_some_unfold _ _ _ _ _ HS) as (_ & g & _ & F & G & _ & Hg & _ & HF & HG & _).
      exists g, F, G. repeat split; assumption.
    Qed.

    Lemma F_M F G z : mapM (basis_row kf (kdeg kf)) ns = Ok F -> mapM (basis_row kc (kdeg kc)) ns = Ok G ->
      length z = nn -> veq (mvec F (mvec M z)) (mvec G z).
    Proof using All.
      intros HF HG Hz.
      apply (rows_transfer (basis_row kf (kdeg kf)) (basis_row kc (kdeg kc)) (mvec M z) z ns F G
               (mapM_Forall2 _ _ _ HF) (mapM_Forall2 _ _ _ HG)).
      intros u f g _ Hf Hg. exact (U1_dot u f g z Hf Hg Hz).
    Qed.

    Theorem U3_vec z : length z = nn -> veq (mvec T (mvec M z)) z.
    Proof using All.
      intro Hz. destruct U3_data as (g & F & G & Hg & HF & HG).
      destruct (s2s_some_facts kf kc ns T E g F G HS Hg HF HG Hns)
        as (GGinv & LLinv & S1 & S2 & S3 & S4 & Hr & Hl & S5 & HLr & HT & HE).
      rewrite HT.
      apply (cT_undo (knpts kc) (knpts kf) (gFF g) (gGF g) (gGG g) GGinv S1 S2 S3 S4 Hr Hl
               (length ns) G F LLinv (s2s_G_shaped kc ns G HG) (s2s_F_shaped kf ns F HF) S5 HLr
               M M_length).
      - intros z0 Hz0. exact (GF_M g z0 Hg Hz0).
      - intros z0 Hz0. exact (F_M F G z0 HF HG Hz0).
      - exact Hz.
    Qed.

    Lemma U3_T_shaped : shaped nn no T.
    Proof using HS Hns.
      destruct U3_data as (g & F & G & Hg & HF & HG).
      exact (spline2spline_cT_shaped kf kc ns T E g F G HS Hg HF HG Hns).
    Qed.

    Theorem U3_left_inverse : meq (mmul_n nn T M) (ident nn).
    Proof using All.
      apply (meq_ext nn nn); [apply shaped_mmul_n'; exact (shaped_len _ _ _ U3_T_shaped)|apply shaped_ident|].
      intros z Hz. rewrite (mvec_mmul_n_gen nn T M z Hz). rewrite (MatProofs.mvec_ident nn z Hz).
      apply U3_vec. exact Hz.
    Qed.

    Theorem U3_error_bilinear a b : length a = nn -> length b = nn ->
      dot (mvec M a) (mvec E (mvec M b)) == 0.
    Proof using All.
      intros Ha Hb. destruct U3_data as (g & F & G & Hg & HF & HG).
      destruct (s2s_some_facts kf kc ns T E g F G HS Hg HF HG Hns)
        as (GGinv & LLinv & S1 & S2 & S3 & S4 & Hr & Hl & S5 & HLr & HT & HE).
      rewrite HE at 1.
      rewrite (qE_bilinear (knpts kc) (knpts kf) (gFF g) (gGF g) (gGG g) T S1 S2 S3 U3_T_shaped
                 (mvec M a) (mvec M b) (Mz_length a) (Mz_length b)).
      rewrite (FF_M g a b Hg Ha Hb).
      rewrite (U3_vec a Ha), (U3_vec b Hb).
      rewrite (GF_M g a Hg Ha), (GF_M g b Hg Hb).
      rewrite (grams_of_GG_symmetric kf kc g Hg b a Hb Ha). ring.
    Qed.

    Corollary U3_error z : length z = nn -> dot (mvec M z) (mvec E (mvec M z)) == 0.
    Proof using All. intro Hz. apply U3_error_bilinear; exact Hz. Qed.
  End U3.
End Setting.

(* ------------------------------------------------------------------ *)
(* 2. Helpers for the curve level                                       *)
(* ------------------------------------------------------------------ *)
Lemma knot_insert_nil k : knot_insert k [] = Ok (ident (knpts k)).
Proof. reflexivity. Qed.

Lemma F2Q_count (a b : list Q) x : Forall2 Qeq a b -> count_q x a = count_q x b.
Proof.
  induction 1 as [|y z a b Hyz H IH]; [reflexivity|].
  rewrite !count_q_cons, IH. rewrite (Qeqb_proper x x (Qeq_refl x) y z Hyz). reflexivity.
Qed.

(* kremove (kinsert k nodes) nodes gives back the knots of k (up to ==) and its degree *)
Theorem kremove_kinsert k nodes kf knew :
  WF (kvec k) (kdeg k) -> kinsert k nodes = Ok kf -> kremove kf nodes = Ok knew ->
  WF (kvec knew) (kdeg knew) /\ Forall2 Qeq (kvec knew) (kvec k) /\ kdeg knew = kdeg k.
Proof.
  intros W Hk Hr. destruct (kremove_spec _ _ _ Hr) as [R Wn].
  destruct (kinsert_vec _ _ _ Hk) as [Ev _].
  assert (HF : Forall2 Qeq (kvec knew) (kvec k)).
  { apply sorted_counts_Forall2; [apply (wf_parts _ _ Wn)|apply (wf_parts _ _ W)|].
    intro y. pose proof (count_q_remove_all y _ _ _ R) as C. rewrite Ev in C.
    rewrite (count_q_perm _ _ _ (sortq_perm _)), count_q_app in C. lia. }
  split; [exact Wn|]. split; [exact HF|].
  destruct (wf_parts _ _ Wn) as (_ & _ & C1 & _). destruct (wf_parts _ _ W) as (_ & _ & C2 & _).
  assert (E : first_q (kvec knew) == first_q (kvec k)).
  { unfold first_q. apply InsertCompose.Forall2_Qeq_nth_d; [exact HF|reflexivity]. }
  rewrite (F2Q_count _ _ _ HF) in C1. rewrite (count_q_proper _ _ _ E) in C1. lia.
Qed.

Lemma in_range_limits U1 p1 U2 p2 : (forall u, in_range U1 p1 u = in_range U2 p2 u) ->
  umin_of U1 p1 <= umax_of U1 p1 -> umin_of U2 p2 <= umax_of U2 p2 ->
  umin_of U1 p1 == umin_of U2 p2 /\ umax_of U1 p1 == umax_of U2 p2.
Proof.
  intros H L1 L2.
  assert (A1 : in_range U1 p1 (umin_of U1 p1) = true)
    by (unfold in_range; apply andb_true_iff; split; apply Qleb_le; [apply Qle_refl|exact L1]).
  assert (A2 : in_range U1 p1 (umax_of U1 p1) = true)
    by (unfold in_range; apply andb_true_iff; split; apply Qleb_le; [exact L1|apply Qle_refl]).
  assert (B1 : in_range U2 p2 (umin_of U2 p2) = true)
    by (unfold in_range; apply andb_true_iff; split; apply Qleb_le; [apply Qle_refl|exact L2]).
  assert (B2 : in_range U2 p2 (umax_of U2 p2) = true)
    by (unfold in_range; apply andb_true_iff; split; apply Qleb_le; [exact L2|apply Qle_refl]).
  rewrite H in A1, A2. rewrite <- H in B1, B2.
  apply in_range_bounds in A1, A2, B1, B2. split; lra.
Qed.

Lemma kinsert_in_range k nodes M kf :
  WF (kvec k) (kdeg k) -> knot_insert k nodes = Ok M -> kinsert k nodes = Ok kf -> kdeg kf = kdeg k ->
  forall u, in_range (kvec kf) (kdeg kf) u = in_range (kvec k) (kdeg k) u.
Proof.
  intros W HM Hk Hd u.
  pose proof HM as H. rewrite knot_insert_full_fst in H.
  destruct (knot_insert_full k nodes) as [[M' kf']|] eqn:E; cbn [bind fst] in H; [|discriminate].
  inversion H; subst M'.
  destruct (knot_insert_full_inv k nodes M kf' W E) as (_ & D1 & _ & _ & I1 & _).
  pose proof (knot_insert_full_knots k nodes M kf' kf W E Hk Hd) as HF.
  rewrite <- (I1 u). rewrite D1, Hd. symmetry. apply in_range_knots_proper. exact HF.
Qed.

Lemma get_unique_aux_len : forall v acc, (length acc <= length (get_unique_aux v acc))%nat.
Proof.
  induction v as [|x v IH]; intro acc; cbn [get_unique_aux]; [lia|].
  destruct (existsb _ acc); [apply IH|].
  eapply Nat.le_trans; [|apply IH]. rewrite app_length. cbn. lia.
Qed.

Lemma kknots_pos k : WF (kvec k) (kdeg k) -> (0 < length (kknots k))%nat.
Proof.
  intro W. destruct (wf_parts _ _ W) as (_ & L & _).
  unfold kknots, get_unique. rewrite (Permutation_length (sortq_perm _)).
  assert (Hs : (0 < length (slice (kdeg k) (knpts k + 1) (kvec k)))%nat)
    by (unfold slice, knpts; rewrite firstn_length, skipn_length; lia).
  destruct (slice _ _ _) as [|x v]; [cbn in Hs; lia|].
  cbn [get_unique_aux existsb]. eapply Nat.lt_le_trans; [|apply get_unique_aux_len]. cbn. lia.
Qed.

Lemma qmax_fold_zero : forall l a, a == 0 -> Forall (fun x => x == 0) l ->
  fold_left (fun a b => if Qltb a b then b else a) l a == 0.
Proof.
  induction l as [|x l IH]; intros a Ha H; cbn [fold_left]; [exact Ha|].
  inversion H; subst. destruct (Qltb a x); apply IH; assumption.
Qed.

Lemma qmax_zero l : Forall (fun x => x == 0) l -> qmax l == 0.
Proof. intro H. unfold qmax. apply qmax_fold_zero; [reflexivity|exact H]. Qed.

Lemma fit_error_zero E (P : list pt) :
  (forall a b, (a < pdim P)%nat -> (b < pdim P)%nat -> dot (coordq a P) (mvec E (coordq b P)) == 0) ->
  fit_error E P == 0.
Proof.
  intro H. unfold fit_error. apply qmax_zero. apply Forall_forall. intros x Hx.
  apply in_concat in Hx. destruct Hx as (l & Hl & Hx).
  apply in_map_iff in Hl. destruct Hl as (a & <- & Ha).
  apply in_map_iff in Hx. destruct Hx as (b & <- & Hb).
  apply in_seq in Ha. apply in_seq in Hb.
  rewrite Qred_correct, H by lia. reflexivity.
Qed.

Lemma coord_mat_apply_veq M (P : list (list Q)) d kk :
  (kk < d)%nat -> Forall (fun q : list Q => length q = d) P -> pdim P = d ->
  veq (coord kk (mat_apply M P)) (mvec M (coord kk P)).
Proof.
  intros Hk HP Hd. apply veq_intro.
  - rewrite coord_length, mat_apply_length, mvec_length. reflexivity.
  - intros i _. apply (coord_mat_apply M P d kk Hk HP Hd i).
Qed.

Lemma points_eq_by_coords (A B : list (list Q)) d : length A = length B ->
  Forall (fun q : list Q => length q = d) A -> Forall (fun q : list Q => length q = d) B ->
  (forall kk, (kk < d)%nat -> veq (coord kk A) (coord kk B)) -> Forall2 (Forall2 Qeq) A B.
Proof.
  intros HL HA HB H. apply (meq_intro A B HL). intros i Hi.
  assert (LA : length (nth i A []) = d) by (apply (proj1 (Forall_nth _ A) HA i [] Hi)).
  assert (LB : length (nth i B []) = d) by (apply (proj1 (Forall_nth _ B) HB i []); lia).
  apply veq_intro; [congruence|]. rewrite LA. intros kk Hk.
  rewrite <- !coord_nth. apply veq_nth. apply H. exact Hk.
Qed.

(* ------------------------------------------------------------------ *)
(* 3. U4: the curve level                                               *)
(* ------------------------------------------------------------------ *)
Section U4.
  Variables (k kf knew : kv) (nodes : list Q) (M : mat).
  Hypothesis W : WF (kvec k) (kdeg k).
  Hypothesis HM : knot_insert k nodes = Ok M.
  Hypothesis Hk : kinsert k nodes = Ok kf.
  Hypothesis Hd : kdeg kf = kdeg k.
  Hypothesis Hrem : kremove kf nodes = Ok knew.

  Lemma knew_wf : WF (kvec knew) (kdeg knew).
  Proof. exact (proj1 (kremove_kinsert k nodes kf knew W Hk Hrem)). Qed.
  Lemma knew_knots : Forall2 Qeq (kvec knew) (kvec k).
  Proof. exact (proj1 (proj2 (kremove_kinsert k nodes kf knew W Hk Hrem))). Qed.
  Lemma knew_deg : kdeg knew = kdeg k.
  Proof. exact (proj2 (proj2 (kremove_kinsert k nodes kf knew W Hk Hrem))). Qed.
  Lemma knew_npts : knpts knew = knpts k.
  Proof. exact (kc_npts k knew knew_knots knew_deg). Qed.

  Lemma U4_vec T E : spline2spline kf knew (knots_opt knew) = Ok (T, E) ->
    forall z, length z = knpts knew -> veq (mvec T (mvec M z)) z.
  Proof using All.
    unfold knots_opt. destruct (kdeg knew =? 0)%nat; intros HS z Hz.
    - exact (U2_vec k kf knew nodes M W HM Hk Hd knew_wf knew_knots knew_deg T E HS z Hz).
    - exact (U3_vec k kf knew nodes M W HM Hk Hd knew_wf knew_knots knew_deg (kknots knew) T E HS
               (kknots_pos knew knew_wf) z Hz).
  Qed.

  Lemma U4_T_length T E : spline2spline kf knew (knots_opt knew) = Ok (T, E) -> length T = knpts knew.
  Proof using All.
    unfold knots_opt. destruct (kdeg knew =? 0)%nat; intros HS.
    - destruct (U2_grams kf knew T E HS) as [g Hg].
      exact (shaped_len _ _ _ (spline2spline_T_shaped kf knew T E g HS Hg)).
    - exact (shaped_len _ _ _ (U3_T_shaped kf knew (kknots knew) T E HS (kknots_pos knew knew_wf))).
  Qed.

  Lemma U4_err T E : spline2spline kf knew (knots_opt knew) = Ok (T, E) ->
    forall a b, length a = knpts knew -> length b = knpts knew ->
    dot (mvec M a) (mvec E (mvec M b)) == 0.
  Proof using All.
    unfold knots_opt. destruct (kdeg knew =? 0)%nat; intros HS a b Ha Hb.
    - exact (U2_error_bilinear k kf knew nodes M W HM Hk Hd knew_wf knew_knots knew_deg T E HS a b Ha Hb).
    - exact (U3_error_bilinear k kf knew nodes M W HM Hk Hd knew_wf knew_knots knew_deg (kknots knew) T E HS
               (kknots_pos knew knew_wf) a b Ha Hb).
  Qed.

  Lemma U4_limits : limits_eqb kf knew = true.
  Proof using All.
    pose proof (kinsert_wf _ _ _ Hk) as Wf.
    destruct (in_range_limits _ _ _ _ (kinsert_in_range k nodes M kf W HM Hk Hd)
                (Qlt_le_weak _ _ (wf_umin_lt_umax _ _ Wf)) (Qlt_le_weak _ _ (wf_umin_lt_umax _ _ W)))
      as [E1 E2].
    unfold limits_eqb. rewrite !kumin_umin, !kumax_umax.
    assert (F1 : umin_of (kvec knew) (kdeg knew) == umin_of (kvec k) (kdeg k)).
    { unfold umin_of. rewrite knew_deg. apply InsertCompose.Forall2_Qeq_nthq. exact knew_knots. }
    assert (F2 : umax_of (kvec knew) (kdeg knew) == umax_of (kvec k) (kdeg k)).
    { unfold umax_of. rewrite knew_deg, (InsertCompose.Forall2_Qeq_length _ _ knew_knots).
      apply InsertCompose.Forall2_Qeq_nthq. exact knew_knots. }
    apply andb_true_iff. split; apply Qeqb_eq; [rewrite E1, F1|rewrite E2, F2]; reflexivity.
  Qed.

  Variables (P : list pt) (d : nat).
  Hypothesis HPl : length P = knpts k.
  Hypothesis HPd : Forall (fun q : pt => length q = d) P.

  Lemma P_pdim : pdim P = d.
  Proof.
    apply pdim_Forall; [|exact HPd]. pose proof (wf_knpts_pos k W). destruct P; [cbn in HPl; lia|discriminate].
  Qed.

  Lemma M_len : length M = knpts kf.
  Proof. exact (proj1 (knot_insert_curve k nodes M kf W HM Hk Hd)). Qed.

  Lemma P1_dims : Forall (fun q : pt => length q = d) (mat_apply M P).
  Proof. apply mat_apply_dims; [exact HPd|exact P_pdim]. Qed.

  Lemma P1_pdim : pdim (mat_apply M P) = d.
  Proof.
    apply pdim_Forall; [|exact P1_dims].
    pose proof (wf_knpts_pos kf (kinsert_wf _ _ _ Hk)) as Hp.
    intro E. apply (f_equal (@length _)) in E. rewrite mat_apply_length, M_len in E. cbn in E. lia.
  Qed.

  Lemma U4_coord kk : (kk < d)%nat -> veq (coord kk (mat_apply M P)) (mvec M (coord kk P)).
  Proof. intro Hkk. exact (coord_mat_apply_veq M P d kk Hkk HPd P_pdim). Qed.

  Lemma U4_points T E : spline2spline kf knew (knots_opt knew) = Ok (T, E) ->
    Forall2 (Forall2 Qeq) (mat_apply T (mat_apply M P)) P.
  Proof using All.
    intro HS. apply (points_eq_by_coords _ _ d).
    - rewrite mat_apply_length, (U4_T_length T E HS), knew_npts. symmetry. exact HPl.
    - apply mat_apply_dims; [exact P1_dims|exact P1_pdim].
    - exact HPd.
    - intros kk Hkk. rewrite (coord_mat_apply_veq T (mat_apply M P) d kk Hkk P1_dims P1_pdim).
      rewrite (U4_coord kk Hkk). apply (U4_vec T E HS).
      rewrite coord_length, knew_npts. exact HPl.
  Qed.

  (* the error functional of the projection vanishes on an inserted curve *)
  Theorem U4_fit_error T E : spline2spline kf knew (knots_opt knew) = Ok (T, E) ->
    fit_error E (mat_apply M P) == 0.
  Proof using All.
    intro HS. apply fit_error_zero. rewrite P1_pdim. intros a b Ha Hb.
    change (coordq a (mat_apply M P)) with (coord a (mat_apply M P)).
    change (coordq b (mat_apply M P)) with (coord b (mat_apply M P)).
    rewrite (U4_coord a Ha), (U4_coord b Hb).
    apply (U4_err T E HS); rewrite coord_length, knew_npts; exact HPl.
  Qed.

  Lemma nodes_nil_of_eqb : kv_eqb knew kf = true -> nodes = [].
  Proof.
    intro EK. unfold kv_eqb in EK. apply andb_true_iff in EK. destruct EK as [EK _].
    apply ql_eqb_Forall2 in EK. apply InsertCompose.Forall2_Qeq_length in EK.
    destruct (kremove_spec _ _ _ Hrem) as [R _]. apply remove_all_length in R.
    destruct nodes; [reflexivity|]. cbn [length] in R. lia.
  Qed.

  Lemma U4_points_nil : nodes = [] -> Forall2 (Forall2 Qeq) (mat_apply M P) P.
  Proof.
    intro E. pose proof HM as HM'. rewrite E, knot_insert_nil in HM'. inversion HM' as [EM].
    apply (points_eq_by_coords _ _ d).
    - rewrite mat_apply_length, MatProofs.ident_length. symmetry. exact HPl.
    - rewrite EM. exact P1_dims.
    - exact HPd.
    - intros kk Hkk. rewrite (coord_mat_apply_veq _ P d kk Hkk HPd P_pdim).
      apply MatProofs.mvec_ident. rewrite coord_length. exact HPl.
  Qed.

  (* c_update on the inserted curve returns the original control points *)
  Theorem c_update_undo tol c2 :
    c_update (mkcurve kf (Some (mat_apply M P)) None) knew tol (knots_opt knew) = Ok c2 ->
    exists P2, cP c2 = Some P2 /\ Forall2 (Forall2 Qeq) P2 P /\ cW c2 = None
               /\ kv_eqb (ckv c2) knew = true.
  Proof using All.
    intro H. pose proof (c_update_kv _ _ _ _ _ H) as KV. revert H.
    unfold c_update. cbn [ckv cP cW]. destruct (kv_eqb knew kf) eqn:EK.
    - intro H. inversion H; subst c2. exists (mat_apply M P). cbn [cP cW].
      split; [reflexivity|]. split; [exact (U4_points_nil (nodes_nil_of_eqb EK))|].
      split; [reflexivity|exact KV].
    - rewrite U4_limits. cbn [negb]. unfold c_fit_curve. cbn [cW cP ckv].
      destruct (spline2spline kf knew (knots_opt knew)) as [[T E]|] eqn:HS; cbn [bind]; [|intro H; discriminate].
      assert (G : forall c', Ok (mkcurve knew (Some (mat_apply T (mat_apply M P))) None) = Ok c' ->
                  exists P2, cP c' = Some P2 /\ Forall2 (Forall2 Qeq) P2 P /\ cW c' = None).
      { intros c' H. inversion H; subst c'. exists (mat_apply T (mat_apply M P)). cbn [cP cW].
        split; [reflexivity|]. split; [exact (U4_points T E HS)|reflexivity]. }
      destruct tol as [t|].
      + destruct (negb (Qeqb t 0) && Qltb t (fit_error E (mat_apply M P))); [intro H; discriminate|].
        intro H. destruct (G c2 H) as (P2 & A & B & C). exists P2. repeat split; assumption.
      + intro H. destruct (G c2 H) as (P2 & A & B & C). exists P2. repeat split; assumption.
  Qed.

  (* success: as soon as the certified inverses succeed, the tolerance guard passes for every t >= 0 *)
  Theorem c_update_undo_succeeds t T E : 0 <= t ->
    spline2spline kf knew (knots_opt knew) = Ok (T, E) ->
    exists c2, c_update (mkcurve kf (Some (mat_apply M P)) None) knew (Some t) (knots_opt knew) = Ok c2.
  Proof using All.
    intros Ht HS. unfold c_update. cbn [ckv cP cW]. destruct (kv_eqb knew kf); [eexists; reflexivity|].
    rewrite U4_limits. cbn [negb]. unfold c_fit_curve. cbn [cW cP ckv]. rewrite HS. cbn [bind].
    assert (G : Qltb t (fit_error E (mat_apply M P)) = false)
      by (rewrite (U4_fit_error T E HS); apply Qltb_ge; exact Ht).
    rewrite G, andb_false_r. eexists. reflexivity.
  Qed.
End U4.

Lemma c_knot_insert_poly c P nodes c1 : cW c = None -> cP c = Some P -> c_knot_insert c nodes = Ok c1 ->
  exists kf M, kinsert (ckv c) nodes = Ok kf /\ knot_insert (ckv c) nodes = Ok M /\
               c1 = mkcurve kf (Some (mat_apply M P)) None.
Proof.
  intros HW HP. unfold c_knot_insert.
  destruct (kinsert (ckv c) nodes) as [kf|]; cbn [bind]; [|intro H; discriminate].
  destruct (knot_insert (ckv c) nodes) as [M|]; cbn [bind]; [|intro H; discriminate].
  unfold apply_matrix. rewrite HP, HW.
  destruct (negb (length M =? knpts kf)%nat); [intro H; discriminate|]. cbn [option_map].
  intro H. inversion H. exists kf, M. repeat split; reflexivity.
Qed.

(* U4: removing the knots that were just inserted gives back the control points (exactly, up to ==),
   the knots (up to ==) and the degree *)
Theorem knot_remove_undoes_knot_insert c (P : list pt) d nodes c1 c2 tol :
  cW c = None -> cP c = Some P -> WF (kvec (ckv c)) (cdeg c) ->
  length P = cnpts c -> Forall (fun q : pt => length q = d) P ->
  c_knot_insert c nodes = Ok c1 -> kdeg (ckv c1) = cdeg c ->
  c_knot_remove c1 nodes tol = Ok c2 ->
  exists P2, cP c2 = Some P2 /\ Forall2 (Forall2 Qeq) P2 P /\ cW c2 = None /\
             Forall2 Qeq (kvec (ckv c2)) (kvec (ckv c)) /\ kdeg (ckv c2) = cdeg c.
Proof.
  intros HW HP W HPl HPd H1 Hd H2. unfold cdeg, cnpts in *.
  destruct (c_knot_insert_poly c P nodes c1 HW HP H1) as (kf & M & Hk & HM & E1).
  rewrite E1 in H2, Hd. cbn [ckv] in Hd.
  unfold c_knot_remove in H2. cbn [ckv] in H2.
  destruct (kremove kf nodes) as [knew|] eqn:Hrem; cbn [bind] in H2; [|discriminate].
  destruct (c_update_undo (ckv c) kf knew nodes M W HM Hk Hd Hrem P d HPl HPd tol c2 H2)
    as (P2 & A & B & C & KV).
  exists P2. repeat (split; [assumption|]).
  destruct (kremove_kinsert (ckv c) nodes kf knew W Hk Hrem) as (_ & HF & HD).
  unfold kv_eqb in KV. apply andb_true_iff in KV. destruct KV as [K1 K2].
  apply ql_eqb_Forall2 in K1. apply Nat.eqb_eq in K2. split.
  - exact (veq_trans _ _ _ K1 HF).
  - congruence.
Qed.

(* U4, success: with the same hypotheses, once the removal of the knots and the certified inverses of
   the projection succeed, knot_remove accepts for every tolerance t >= 0 (the error functional of the
   projection is exactly 0) *)
Theorem knot_remove_after_insert_error_zero c (P : list pt) d nodes c1 knew T E :
  cW c = None -> cP c = Some P -> WF (kvec (ckv c)) (cdeg c) ->
  length P = cnpts c -> Forall (fun q : pt => length q = d) P ->
  c_knot_insert c nodes = Ok c1 -> kdeg (ckv c1) = cdeg c ->
  kremove (ckv c1) nodes = Ok knew ->
  spline2spline (ckv c1) knew (knots_opt knew) = Ok (T, E) ->
  exists P1, cP c1 = Some P1 /\ fit_error E P1 == 0.
Proof.
  intros HW HP W HPl HPd H1 Hd Hrem HS. unfold cdeg, cnpts in *.
  destruct (c_knot_insert_poly c P nodes c1 HW HP H1) as (kf & M & Hk & HM & E1).
  rewrite E1 in Hrem, HS, Hd |- *. cbn [ckv cP] in *.
  exists (mat_apply M P). split; [reflexivity|].
  exact (U4_fit_error (ckv c) kf knew nodes M W HM Hk Hd Hrem P d HPl HPd T E HS).
Qed.

Theorem knot_remove_after_insert_succeeds c (P : list pt) d nodes c1 knew T E t :
  cW c = None -> cP c = Some P -> WF (kvec (ckv c)) (cdeg c) ->
  length P = cnpts c -> Forall (fun q : pt => length q = d) P ->
  c_knot_insert c nodes = Ok c1 -> kdeg (ckv c1) = cdeg c ->
  kremove (ckv c1) nodes = Ok knew ->
  spline2spline (ckv c1) knew (knots_opt knew) = Ok (T, E) ->
  0 <= t ->
  exists c2, c_knot_remove c1 nodes (Some t) = Ok c2.
Proof.
  intros HW HP W HPl HPd H1 Hd Hrem HS Ht. unfold cdeg, cnpts in *.
  destruct (c_knot_insert_poly c P nodes c1 HW HP H1) as (kf & M & Hk & HM & E1).
  rewrite E1 in Hrem, HS, Hd |- *. cbn [ckv cP] in *.
  unfold c_knot_remove. cbn [ckv]. rewrite Hrem. cbn [bind].
  exact (c_update_undo_succeeds (ckv c) kf knew nodes M W HM Hk Hd Hrem P d HPl HPd t T E Ht HS).
Qed.

(* ------------------------------------------------------------------ *)
(* 3b. kremove after kinsert always succeeds                            *)
(* ------------------------------------------------------------------ *)
Lemma remove1_sorted x : forall l l', sorted_b l = true -> remove1 x l = Some l' -> sorted_b l' = true.
Proof.
  induction l as [|a l IH]; cbn [remove1]; intros l' Hs H; [discriminate|].
  destruct (Qeqb x a).
  - inversion H; subst. exact (sorted_b_tail _ _ Hs).
  - destruct (remove1 x l) as [r|] eqn:R; [|discriminate]. inversion H; subst.
    apply UnionProofs.sorted_cons_iff in Hs. destruct Hs as [H1 H2].
    apply UnionProofs.sorted_cons_iff. split; [|apply IH; [exact H2|reflexivity]].
    intros y Hy. apply H1. destruct (remove1_perm x l r R) as (z & _ & Pz).
    apply (Permutation_in y (Permutation_sym Pz)). right. exact Hy.
Qed.

Lemma remove_all_sorted : forall ns l l', sorted_b l = true -> remove_all ns l = Some l' -> sorted_b l' = true.
Proof.
  induction ns as [|x ns IH]; cbn [remove_all]; intros l l' Hs H.
  - inversion H; subst. exact Hs.
  - destruct (remove1 x l) as [r|] eqn:R; [|discriminate].
    apply (IH r l' (remove1_sorted x l r Hs R) H).
Qed.

Lemma remove1_some x : forall l, (0 < count_q x l)%nat -> exists l', remove1 x l = Some l'.
Proof.
  induction l as [|a l IH]; [cbn; lia|]. rewrite count_q_cons. cbn [remove1].
  destruct (Qeqb x a); [intros _; eexists; reflexivity|]. cbn [Nat.add]. intro H.
  destruct (IH H) as [r R]. rewrite R. eexists. reflexivity.
Qed.

Lemma remove_all_some : forall ns l, (forall z, count_q z ns <= count_q z l)%nat ->
  exists l', remove_all ns l = Some l'.
Proof.
  induction ns as [|x ns IH]; intros l H; cbn [remove_all]; [eexists; reflexivity|].
  assert (Exx : Qeqb x x = true) by (apply Qeqb_eq; reflexivity).
  destruct (remove1_some x l) as [r R].
  { specialize (H x). rewrite count_q_cons, Exx in H. lia. }
  rewrite R. apply IH. intro z. pose proof (count_q_remove1 z x l r R) as C.
  specialize (H z). rewrite count_q_cons in H. lia.
Qed.

Lemma wf_Forall2 v p l : WF v p -> Forall2 Qeq l v -> sorted_b l = true -> WF l p.
Proof.
  intros W HF Hs. destruct (wf_parts v p W) as (_ & Hl & Hf & Hc).
  pose proof (InsertCompose.Forall2_Qeq_length _ _ HF) as HL.
  unfold WF, wf_b. repeat (apply andb_true_iff; split).
  - exact Hs.
  - apply Nat.leb_le. lia.
  - apply Nat.eqb_eq. rewrite (F2Q_count _ _ _ HF).
    rewrite (count_q_proper _ (first_q v)); [exact Hf|].
    unfold first_q. apply InsertCompose.Forall2_Qeq_nth_d; [exact HF|reflexivity].
  - apply Nat.eqb_eq. rewrite (F2Q_count _ _ _ HF).
    rewrite (count_q_proper _ (last_q v)); [exact Hc|].
    unfold last_q. apply InsertCompose.Forall2_Qeq_last; [exact HF|reflexivity].
  - apply forallb_forall. intros x Hx. apply Nat.leb_le. rewrite (F2Q_count _ _ _ HF).
    destruct (count_q x v) as [|n] eqn:C; [lia|].
    destruct (count_pos_In x v) as (z & Hz & Ez); [lia|].
    rewrite <- C, (count_q_proper _ _ _ Ez). exact (wf_forall v p W z Hz).
Qed.

Theorem kremove_kinsert_succeeds k nodes kf :
  WF (kvec k) (kdeg k) -> kinsert k nodes = Ok kf -> exists knew, kremove kf nodes = Ok knew.
Proof.
  intros W Hk. destruct (kinsert_vec _ _ _ Hk) as [Ev _].
  assert (Cf : forall z, count_q z (kvec kf) = (count_q z (kvec k) + count_q z nodes)%nat).
  { intro z. rewrite Ev, (count_q_perm _ _ _ (sortq_perm _)), count_q_app. reflexivity. }
  destruct (remove_all_some nodes (kvec kf)) as [l R]; [intro z; rewrite Cf; lia|].
  assert (Hs : sorted_b l = true).
  { apply (remove_all_sorted nodes (kvec kf) l); [rewrite Ev; apply sortq_sorted|exact R]. }
  assert (HF : Forall2 Qeq l (kvec k)).
  { apply sorted_counts_Forall2; [exact Hs|apply (wf_parts _ _ W)|].
    intro y. pose proof (count_q_remove_all y _ _ _ R) as C. rewrite Cf in C. lia. }
  pose proof (wf_Forall2 _ _ l W HF Hs) as Wl.
  unfold kremove. rewrite R. unfold make. rewrite (UnionProofs.wf_is_valid l _ Wl).
  eexists. reflexivity.
Qed.

(* U4, success, in one statement: the removal of the knots succeeds, and whenever the certified
   inverses of the projection succeed the curve is returned for every tolerance t >= 0 *)
Theorem knot_remove_after_insert_only_uncertified c (P : list pt) d nodes c1 :
  cW c = None -> cP c = Some P -> WF (kvec (ckv c)) (cdeg c) ->
  length P = cnpts c -> Forall (fun q : pt => length q = d) P ->
  c_knot_insert c nodes = Ok c1 -> kdeg (ckv c1) = cdeg c ->
  exists knew, kremove (ckv c1) nodes = Ok knew /\
    forall T E t, spline2spline (ckv c1) knew (knots_opt knew) = Ok (T, E) -> 0 <= t ->
      exists c2, c_knot_remove c1 nodes (Some t) = Ok c2.
Proof.
  intros HW HP W HPl HPd H1 Hd.
  destruct (c_knot_insert_poly c P nodes c1 HW HP H1) as (kf & M & Hk & HM & E1).
  destruct (kremove_kinsert_succeeds (ckv c) nodes kf W Hk) as [knew Hrem].
  exists knew. assert (Hrem' : kremove (ckv c1) nodes = Ok knew) by (rewrite E1; exact Hrem).
  split; [exact Hrem'|]. intros T E t HS Ht.
  exact (knot_remove_after_insert_succeeds c P d nodes c1 knew T E t HW HP W HPl HPd H1 Hd Hrem' HS Ht).
Qed.

(* ------------------------------------------------------------------ *)
(* 4. The statements for kc := k (as in the setting of the brief)        *)
(* ------------------------------------------------------------------ *)
Section Plain.
  Variables (k kf : kv) (nodes : list Q) (M : mat).
  Hypothesis W : WF (kvec k) (kdeg k).
  Hypothesis HM : knot_insert k nodes = Ok M.
  Hypothesis Hk : kinsert k nodes = Ok kf.
  Hypothesis Hd : kdeg kf = kdeg k.

  Theorem U1 u f g : basis_row kf (kdeg k) u = Ok f -> basis_row k (kdeg k) u = Ok g ->
    veq g (mvec (mtrans_n (knpts k) M) f) /\
    forall i, (i < knpts k)%nat -> nth i g 0 == dot f (mcol i M).
  Proof using All.
    rewrite <- Hd at 1. intros Hf Hg. split.
    - exact (U1_basis k kf k nodes M W HM Hk Hd W (veq_refl _) eq_refl u f g Hf Hg).
    - intros i Hi. exact (U1_entry k kf k nodes M W HM Hk Hd W (veq_refl _) eq_refl u f g i Hf Hg Hi).
  Qed.

  Theorem U2 T E : spline2spline kf k None = Ok (T, E) ->
    meq (mmul_n (knpts k) T M) (ident (knpts k)) /\
    (forall P, length P = knpts k -> veq (mvec T (mvec M P)) P) /\
    (forall P, length P = knpts k -> dot (mvec M P) (mvec E (mvec M P)) == 0).
  Proof using All.
    intro HS. split; [|split].
    - exact (U2_left_inverse k kf k nodes M W HM Hk Hd W (veq_refl _) eq_refl T E HS).
    - exact (U2_vec k kf k nodes M W HM Hk Hd W (veq_refl _) eq_refl T E HS).
    - exact (U2_error k kf k nodes M W HM Hk Hd W (veq_refl _) eq_refl T E HS).
  Qed.

  Theorem U3 ns T E : (0 < length ns)%nat -> spline2spline kf k (Some ns) = Ok (T, E) ->
    (length ns <= knpts k)%nat /\
    meq (mmul_n (knpts k) T M) (ident (knpts k)) /\
    (forall P, length P = knpts k -> veq (mvec T (mvec M P)) P) /\
    (forall P, length P = knpts k -> dot (mvec M P) (mvec E (mvec M P)) == 0).
  Proof using All.
    intros Hns HS. split; [exact (proj1 (s2s_some_unfold _ _ _ _ _ HS))|]. split; [|split].
    - exact (U3_left_inverse k kf k nodes M W HM Hk Hd W (veq_refl _) eq_refl ns T E HS Hns).
    - exact (U3_vec k kf k nodes M W HM Hk Hd W (veq_refl _) eq_refl ns T E HS Hns).
    - exact (U3_error k kf k nodes M W HM Hk Hd W (veq_refl _) eq_refl ns T E HS Hns).
  Qed.
End Plain.

(* ------------------------------------------------------------------ *)
(* 5. Example: the hypotheses are satisfiable                           *)
(* ------------------------------------------------------------------ *)
Definition ux_k : kv := mkkv [0; 0; 0; 1 # 2; 1; 1; 1] 2.
Definition ux_nodes : list Q := [1 # 4; 1 # 2].
Definition ux_P : list pt := [[0; 0]; [1; 2]; [3; 1]; [4; -1]].
Definition ux_c : curve := mkcurve ux_k (Some ux_P) None.
Definition ux_c1 : curve := unwrap ux_c (c_knot_insert ux_c ux_nodes).
Definition ux_tol : option Q := Some (1 # 1000000000).
Definition ux_c2 : curve := unwrap ux_c (c_knot_remove ux_c1 ux_nodes ux_tol).
Definition ux_kf : kv := unwrap ux_k (kinsert ux_k ux_nodes).
Definition ux_M : mat := unwrap [] (knot_insert ux_k ux_nodes).
Definition ux_TE : mat * mat := unwrap ([], []) (spline2spline ux_kf ux_k (Some (kknots ux_k))).
Definition ux_TEn : mat * mat := unwrap ([], []) (spline2spline ux_kf ux_k None).

Example ux_wf : WF (kvec ux_k) (kdeg ux_k).
Proof. vm_compute. reflexivity. Qed.
Example ux_insert : c_knot_insert ux_c ux_nodes = Ok ux_c1 /\ kdeg (ckv ux_c1) = cdeg ux_c
                    /\ length (kvec (ckv ux_c1)) = 9%nat.
Proof. vm_compute. repeat split; reflexivity. Qed.
Example ux_remove : c_knot_remove ux_c1 ux_nodes ux_tol = Ok ux_c2.
Proof. vm_compute. reflexivity. Qed.
Example ux_kinsert : kinsert ux_k ux_nodes = Ok ux_kf /\ kdeg ux_kf = kdeg ux_k.
Proof. vm_compute. split; reflexivity. Qed.
Example ux_knot_insert : knot_insert ux_k ux_nodes = Ok ux_M.
Proof. vm_compute. reflexivity. Qed.
Example ux_s2s : spline2spline ux_kf ux_k (Some (kknots ux_k)) = Ok (fst ux_TE, snd ux_TE)
                 /\ length (kknots ux_k) = 3%nat.
Proof. vm_compute. split; reflexivity. Qed.
Example ux_s2s_none : spline2spline ux_kf ux_k None = Ok (fst ux_TEn, snd ux_TEn).
Proof. vm_compute. reflexivity. Qed.

(* the theorems on the example *)
Example ux_undo : exists P2, cP ux_c2 = Some P2 /\ Forall2 (Forall2 Qeq) P2 ux_P /\ cW ux_c2 = None /\
  Forall2 Qeq (kvec (ckv ux_c2)) (kvec ux_k) /\ kdeg (ckv ux_c2) = 2%nat.
Proof.
  destruct ux_insert as (H1 & H2 & _).
  apply (knot_remove_undoes_knot_insert ux_c ux_P 2 ux_nodes ux_c1 ux_c2 ux_tol eq_refl eq_refl ux_wf eq_refl);
    [repeat constructor|exact H1|exact H2|exact ux_remove].
Qed.

Example ux_U3 : meq (mmul_n 4 (fst ux_TE) ux_M) (ident 4).
Proof.
  destruct ux_kinsert as [H1 H2]. destruct ux_s2s as [H3 H4].
  apply (U3 ux_k ux_kf ux_nodes ux_M ux_wf ux_knot_insert H1 H2 (kknots ux_k) (fst ux_TE) (snd ux_TE)).
  - rewrite H4. lia.
  - exact H3.
Qed.

Example ux_U2 : meq (mmul_n 4 (fst ux_TEn) ux_M) (ident 4).
Proof.
  destruct ux_kinsert as [H1 H2].
  apply (U2 ux_k ux_kf ux_nodes ux_M ux_wf ux_knot_insert H1 H2 (fst ux_TEn) (snd ux_TEn) ux_s2s_none).
Qed.

(* U3 needs 0 < length ns: with fit = Some [] the model succeeds but every row of T is empty
   (the bordered part has no columns and madd truncates), so T M = I is FALSE as written without
   that hypothesis; knot_remove never calls it that way (kknots of a well-formed vector is not empty,
   kknots_pos). *)
Example ux_U3_needs_nodes :
  match spline2spline ux_kf ux_k (Some []) with
  | Ok (T, _) => map (@length Q) T = [0; 0; 0; 0]%nat
  | Err _ => False
  end.
Proof. vm_compute. reflexivity. Qed.

(* direct check, independent of the theorems *)
Example ux_direct : match cP ux_c2 with Some P2 => ptl_eqb P2 ux_P | None => false end = true.
Proof. vm_compute. reflexivity. Qed.

Print Assumptions U1_dot.
Print Assumptions U1_basis.
Print Assumptions U1.
Print Assumptions U2_left_inverse.
Print Assumptions U2_error_bilinear.
Print Assumptions U2.
Print Assumptions U3_left_inverse.
Print Assumptions U3_error_bilinear.
Print Assumptions U3.
Print Assumptions kremove_kinsert.
Print Assumptions c_update_undo.
Print Assumptions knot_remove_undoes_knot_insert.
Print Assumptions knot_remove_after_insert_error_zero.
Print Assumptions knot_remove_after_insert_succeeds.
Print Assumptions kremove_kinsert_succeeds.
Print Assumptions knot_remove_after_insert_only_uncertified.
Print Assumptions ux_undo.
