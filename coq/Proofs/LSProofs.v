(* Least-squares projection of splines (model of heavy.LeastSquare): discrete fit (fit_function),
   continuous projection spline2spline without and with interpolation constraints.
   Corollaries of the certified inverse and of the lstsq theorems of MatProofs. *)
From Coq Require Import QArith List Bool Arith Lia Lqa Setoid Morphisms.
From NurbsV Require Import Base.Res Base.QList Gen.Consts Model.KV Model.Basis Model.Ops Model.Linalg
  Model.Quadrature Model.LeastSq Proofs.MatProofs.
Import ListNotations.
Open Scope Q_scope.

(* ------------------------------------------------------------------ *)
(* 0. Generic helpers                                                   *)
(* ------------------------------------------------------------------ *)
Lemma mapM_Forall2 {A B} (f : A -> res B) l bs :
  mapM f l = Ok bs -> Forall2 (fun a b => f a = Ok b) l bs.
Proof.
  revert bs; induction l as [|a l IH]; cbn; intros bs H.
  - inversion H. constructor.
  - destruct (f a) eqn:E; cbn in H; [|discriminate].
    destruct (mapM f l); cbn in H; [|discriminate].
    inversion H; subst. constructor; [exact E|]. apply IH. reflexivity.
Qed.

Lemma mapM_Forall {A B} (f : A -> res B) (P : B -> Prop) l bs :
  (forall a b, f a = Ok b -> P b) -> mapM f l = Ok bs -> Forall P bs.
Proof.
  intros HP H. apply mapM_Forall2 in H. induction H; constructor; eauto.
Qed.

Lemma basis_row_length k j u r : basis_row k j u = Ok r -> length r = knpts k.
Proof.
  unfold basis_row. destruct (kspan k u); cbn; intro H; [|discriminate].
  inversion H. rewrite map_length. apply seq_length.
Qed.

Lemma rat_row_length W r r' : rat_row W r = Ok r' -> length r' = Nat.min (length W) (length r).
Proof.
  unfold rat_row. destruct (Qeqb (dot r W) 0); intro H; [discriminate|].
  inversion H. apply map2_length.
Qed.

Definition wlen_ok (k : kv) (W : option (list Q)) : Prop :=
  match W with None => True | Some w => length w = knpts k end.

Lemma rbasis_row_length k W j u r : wlen_ok k W ->
  rbasis_row k W j u = Ok r -> length r = knpts k.
Proof.
  intro HW. unfold rbasis_row. destruct (basis_row k j u) as [r0|] eqn:E; cbn; [|discriminate].
  apply basis_row_length in E. destruct W as [w|].
  - intro H. apply rat_row_length in H. cbn in HW. lia.
  - intro H. inversion H. subst. exact E.
Qed.

Lemma mapM_shaped {A} (f : A -> res (list Q)) c l bs :
  (forall a b, f a = Ok b -> length b = c) -> mapM f l = Ok bs -> shaped (length l) c bs.
Proof.
  intros Hf H. split; [apply (mapM_length f l bs H)|]. apply (mapM_Forall f _ l bs Hf H).
Qed.

Lemma mvec_zeros A n : veq (mvec A (repeat 0 n)) (repeat 0 (length A)).
Proof.
  induction A as [|r A IH]; cbn; constructor; [apply dot_zeros_r|exact IH].
Qed.

(* ------------------------------------------------------------------ *)
(* A. Discrete least squares: fit_function                              *)
(* ------------------------------------------------------------------ *)
Section DiscreteFit.
  Variables (k : kv) (nodes : list Q) (W : option (list Q)) (M B : mat).
  Hypothesis HW : wlen_ok k W.
  Hypothesis HM : fit_function k nodes W = Ok M.
  Hypothesis HB : mapM (rbasis_row k W (kdeg k)) nodes = Ok B.

  Let n := length nodes.
  Let m := knpts k.

  Lemma fit_B_shaped : shaped n m B.
  Proof.
    apply (mapM_shaped (rbasis_row k W (kdeg k)) m nodes B); [|exact HB].
    intros a b. apply rbasis_row_length. exact HW.
  Qed.

  Lemma fit_unfold : (m <= n)%nat /\ lstsq B = Ok M.
  Proof.
    unfold fit_function in HM. fold n m in HM.
    destruct (Nat.ltb_spec n m); [discriminate|].
    rewrite HB in HM. cbn in HM. split; assumption.
  Qed.

  Lemma fit_cases : ((m < n)%nat \/ n = m) /\ lstsq B = Ok M.
  Proof. destruct fit_unfold as [H1 H2]. split; [lia|exact H2]. Qed.

  (* A1 *)
  Theorem fit_function_orthogonal z : length z = n ->
    veq (mvec (mtrans_n m B) (vsub (mvec B (mvec M z)) z)) (repeat 0 m).
  Proof.
    intro Hz. destruct fit_cases as [[Hlt|Heq] HL].
    - apply (lstsq_orthogonal n m B M fit_B_shaped Hlt HL z Hz).
    - pose proof fit_B_shaped as HS. rewrite Heq in HS.
      assert (E : veq (mvec B (mvec M z)) z)
        by (apply (lstsq_square_interpolates m B M z HS HL); congruence).
      rewrite (vsub_veq_zero _ _ E). rewrite mvec_zeros. rewrite mtrans_n_length. reflexivity.
  Qed.

  (* A2 *)
  Theorem fit_function_minimal z y : length z = n -> length y = m ->
    norm2 (vsub (mvec B (mvec M z)) z) <= norm2 (vsub (mvec B y) z).
  Proof.
    intros Hz Hy. destruct fit_cases as [[Hlt|Heq] HL].
    - apply (lstsq_minimal n m B M fit_B_shaped Hlt HL z y Hz Hy).
    - pose proof fit_B_shaped as HS. rewrite Heq in HS.
      assert (E : veq (mvec B (mvec M z)) z)
        by (apply (lstsq_square_interpolates m B M z HS HL); congruence).
      rewrite (vsub_veq_zero _ _ E).
      assert (Z : norm2 (repeat 0 (length (mvec B (mvec M z)))) == 0)
        by (unfold norm2; apply dot_zeros_r).
      rewrite Z. apply norm2_nonneg.
  Qed.

  (* A3 *)
  Theorem fit_function_reproduces z q : length q = m -> veq z (mvec B q) -> veq (mvec M z) q.
  Proof.
    intros Hq Hz. destruct fit_cases as [[Hlt|Heq] HL].
    - apply (lstsq_reproduces n m B M fit_B_shaped Hlt HL z q Hq Hz).
    - pose proof fit_B_shaped as HS. rewrite Heq in HS.
      unfold lstsq in HL. cbv zeta in HL.
      rewrite (mcols_square m B HS) in HL. rewrite Nat.ltb_irrefl, Nat.eqb_refl in HL.
      rewrite Hz. apply (invert_left B M q HL). rewrite (proj1 HS). exact Hq.
  Qed.

  (* A4 *)
  Theorem fit_function_interpolates z : n = m -> length z = n -> veq (mvec B (mvec M z)) z.
  Proof.
    intros Heq Hz. destruct fit_cases as [_ HL].
    pose proof fit_B_shaped as HS. rewrite Heq in HS.
    apply (lstsq_square_interpolates m B M z HS HL). congruence.
  Qed.
End DiscreteFit.

(* A5 *)
Theorem fit_function_refuses k nodes W : (length nodes < knpts k)%nat ->
  fit_function k nodes W = Err AssertionError.
Proof.
  intro H. unfold fit_function. destruct (Nat.ltb_spec (length nodes) (knpts k)); [reflexivity|lia].
Qed.

(* ------------------------------------------------------------------ *)
(* 1. Toolkit: matrices are determined by their action on vectors;      *)
(*    madd / msub / mmul / mtrans of the model in terms of that action  *)
(* ------------------------------------------------------------------ *)
Global Instance vplus_proper : Proper (veq ==> veq ==> veq) vplus.
Proof.
  intros a a' Ha. unfold vplus. induction Ha; intros b b' Hb; inversion Hb; subst; cbn; constructor.
  - rewrite H, H0. reflexivity.
  - apply IHHa. assumption.
Qed.
Global Instance vsub_proper : Proper (veq ==> veq ==> veq) vsub.
Proof.
  intros a a' Ha. unfold vsub. induction Ha; intros b b' Hb; inversion Hb; subst; cbn; constructor.
  - rewrite H, H0. reflexivity.
  - apply IHHa. assumption.
Qed.

Definition vscl (c : Q) (v : list Q) : list Q := map (Qmult c) v.
Global Instance vscl_proper : Proper (Qeq ==> veq ==> veq) vscl.
Proof.
  intros c c' Hc a a' Ha. unfold vscl. induction Ha; cbn; constructor; [|assumption].
  rewrite Hc, H. reflexivity.
Qed.
Lemma vscl_length c v : length (vscl c v) = length v.
Proof. apply map_length. Qed.
Lemma nth_vscl c v i : nth i (vscl c v) 0 == c * nth i v 0.
Proof.
  destruct (Nat.lt_ge_cases i (length v)) as [L|L].
  - unfold vscl. rewrite (nth_map_lt (Qmult c) v 0 0) by exact L. reflexivity.
  - rewrite !nth_overflow; [ring|exact L|rewrite vscl_length; exact L].
Qed.

Ltac vlen :=
  unfold vplus, vsub, vscl;
  repeat (rewrite ?mvec_length, ?mmul_n_length, ?mtrans_n_length, ?map_length, ?map2_length,
                  ?repeat_length, ?ident_length, ?mcol_length);
  try lia.

Ltac vring :=
  apply veq_intro; [vlen | intros ?i _;
    repeat ((rewrite nth_vplus by vlen) || (rewrite nth_vsub by vlen) || (rewrite nth_vscl)); try ring].

Definition evec (c j : nat) : list Q := nth j (ident c) [].
Lemma evec_length c j : (j < c)%nat -> length (evec c j) = c.
Proof. intro H. apply (shaped_row c c (ident c) j (shaped_ident c) H). Qed.

Lemma mvec_evec r c M j : shaped r c M -> (j < c)%nat -> veq (mvec M (evec c j)) (mcol j M).
Proof.
  intros HM Hj. apply veq_intro.
  - rewrite mvec_length, mcol_length. reflexivity.
  - rewrite mvec_length. intros i Hi. rewrite (proj1 HM) in Hi.
    rewrite nth_mvec, nth_mcol. rewrite dot_sym. unfold evec. rewrite <- nth_mvec.
    apply nth_mvec_ident; [|exact Hj]. apply (shaped_row r c M i HM Hi).
Qed.

Theorem meq_ext r c X Y : shaped r c X -> shaped r c Y ->
  (forall v, length v = c -> veq (mvec X v) (mvec Y v)) -> meq X Y.
Proof.
  intros HX HY H. apply (meq_by_columns r c X Y HX HY). intros j Hj.
  rewrite <- (mvec_evec r c X j HX Hj), <- (mvec_evec r c Y j HY Hj).
  apply H. apply evec_length. exact Hj.
Qed.

Lemma shaped_len r c A : shaped r c A -> length A = r.
Proof. intros [H _]. exact H. Qed.
Lemma shaped_mmul_n' r k A B : length A = r -> shaped r k (mmul_n k A B).
Proof. intros <-. apply shaped_mmul_n. Qed.
Lemma shaped_mtrans_n' c r A : length A = r -> shaped c r (mtrans_n c A).
Proof. intros <-. apply shaped_mtrans_n. Qed.

Lemma mmul_as_n r c A B : shaped r c B -> (0 < r)%nat -> mmul A B = mmul_n c A B.
Proof. intros HB Hr. unfold mmul. rewrite (mcols_shaped r c B HB Hr). reflexivity. Qed.
Lemma mtrans_as_n r c A : shaped r c A -> (0 < r)%nat -> mtrans A = mtrans_n c A.
Proof. intros HA Hr. unfold mtrans. rewrite (mcols_shaped r c A HA Hr). reflexivity. Qed.

Lemma shaped_map2 (f : Q -> Q -> Q) r c A B :
  shaped r c A -> shaped r c B -> shaped r c (map2 (map2 f) A B).
Proof.
  intros [HL HF] [HL' HF']. split; [rewrite map2_length; lia|]. clear HL HL'.
  revert B HF'. induction HF; intros B HF'; destruct HF'; cbn; constructor.
  - rewrite map2_length. lia.
  - apply IHHF. assumption.
Qed.
Lemma shaped_madd r c A B : shaped r c A -> shaped r c B -> shaped r c (madd A B).
Proof. apply (shaped_map2 (fun x y => Qred (x + y))). Qed.
Lemma shaped_msub r c A B : shaped r c A -> shaped r c B -> shaped r c (msub A B).
Proof. apply (shaped_map2 (fun x y => Qred (x - y))). Qed.

Lemma dot_map2_lin (f : Q -> Q -> Q) al be a b v :
  (forall x y, f x y == al * x + be * y) -> length a = length b ->
  dot (map2 f a b) v == al * dot a v + be * dot b v.
Proof.
  intros Hf HL.
  rewrite (dot_sumn (length a) (map2 f a b) v) by (rewrite map2_length; lia).
  rewrite (dot_sumn (length a) a v), (dot_sumn (length a) b v) by lia.
  rewrite <- !sumn_scale_l, <- sumn_add. apply sumn_ext. intros i Hi.
  rewrite (nth_map2_lt f a b 0 0 0) by lia. rewrite Hf. ring.
Qed.

Lemma mvec_map2_lin (f : Q -> Q -> Q) al be r c A B v :
  (forall x y, f x y == al * x + be * y) -> shaped r c A -> shaped r c B ->
  veq (mvec (map2 (map2 f) A B) v) (vplus (vscl al (mvec A v)) (vscl be (mvec B v))).
Proof.
  intros Hf HA HB. pose proof (shaped_len _ _ _ HA) as LA. pose proof (shaped_len _ _ _ HB) as LB.
  apply veq_intro; [vlen|]. rewrite mvec_length, map2_length. intros i Hi.
  rewrite nth_vplus by vlen. rewrite !nth_vscl, !nth_mvec.
  rewrite (nth_map2_lt (map2 f) A B [] [] []) by lia.
  apply dot_map2_lin; [exact Hf|].
  rewrite (shaped_row r c A i HA), (shaped_row r c B i HB) by lia. reflexivity.
Qed.

Lemma mvec_madd r c A B v : shaped r c A -> shaped r c B ->
  veq (mvec (madd A B) v) (vplus (mvec A v) (mvec B v)).
Proof.
  intros HA HB. pose proof (shaped_len _ _ _ HA) as LA. pose proof (shaped_len _ _ _ HB) as LB.
  unfold madd.
  rewrite (mvec_map2_lin (fun x y => Qred (x + y)) 1 1 r c A B v); try assumption.
  - vring.
  - intros. rewrite Qred_correct. ring.
Qed.
Lemma mvec_msub r c A B v : shaped r c A -> shaped r c B ->
  veq (mvec (msub A B) v) (vsub (mvec A v) (mvec B v)).
Proof.
  intros HA HB. pose proof (shaped_len _ _ _ HA) as LA. pose proof (shaped_len _ _ _ HB) as LB.
  unfold msub.
  rewrite (mvec_map2_lin (fun x y => Qred (x - y)) 1 (-1) r c A B v); try assumption.
  - vring.
  - intros. rewrite Qred_correct. ring.
Qed.

(* ------------------------------------------------------------------ *)
(* 2. The abstract projection: Gram matrices FF (no x no), GF (nn x no), *)
(*    GG (nn x nn) with a two-sided inverse GGinv                        *)
(* ------------------------------------------------------------------ *)
Section AbstractProjection.
  Variables (nn no : nat) (FF GF GG GGinv : mat).
  Hypothesis SFF : shaped no no FF.
  Hypothesis SGF : shaped nn no GF.
  Hypothesis SGG : shaped nn nn GG.
  Hypothesis SGGi : shaped nn nn GGinv.
  Hypothesis HGGr : forall v, length v = nn -> veq (mvec GG (mvec GGinv v)) v.
  Hypothesis HGGl : forall v, length v = nn -> veq (mvec GGinv (mvec GG v)) v.

  Let LFF := shaped_len _ _ _ SFF.
  Let LGF := shaped_len _ _ _ SGF.
  Let LGG := shaped_len _ _ _ SGG.
  Let LGGi := shaped_len _ _ _ SGGi.

  Definition aT : mat := mmul_n no GGinv GF.
  Definition aE : mat := msub FF (mmul_n no (mtrans_n no GF) aT).

  Lemma aT_shaped : shaped nn no aT.
  Proof using All. apply shaped_mmul_n'. exact LGGi. Qed.

  Lemma aT_act v : length v = no -> veq (mvec aT v) (mvec GGinv (mvec GF v)).
  Proof using All. intro Hv. unfold aT. apply mvec_mmul_n_gen. exact Hv. Qed.

  (* B1, vector form *)
  Lemma aT_normal_vec v : length v = no -> veq (mvec GG (mvec aT v)) (mvec GF v).
  Proof using All. intro Hv. rewrite (aT_act v Hv). apply HGGr. vlen. Qed.

  (* B1 *)
  Theorem aT_normal : meq (mmul_n no GG aT) GF.
  Proof using All.
    apply (meq_ext nn no); [apply shaped_mmul_n'; exact LGG | exact SGF |].
    intros v Hv. rewrite (mvec_mmul_n_gen no GG aT v Hv). apply aT_normal_vec. exact Hv.
  Qed.

  Lemma aE_shaped : shaped no no aE.
  Proof using All. apply shaped_msub; [exact SFF|]. apply shaped_mmul_n'. vlen. Qed.

  Lemma aE_act x : length x = no ->
    veq (mvec aE x) (vsub (mvec FF x) (mvec (mtrans_n no GF) (mvec aT x))).
  Proof using All.
    intro Hx. unfold aE. rewrite (mvec_msub no no); [|exact SFF|apply shaped_mmul_n'; vlen].
    rewrite (mvec_mmul_n_gen no _ aT x Hx). reflexivity.
  Qed.

  (* B2: Pythagoras in the quadrature inner product *)
  Theorem aE_pythagoras x : length x = no ->
    dot x (mvec aE x) == dot x (mvec FF x) - dot (mvec aT x) (mvec GG (mvec aT x)).
  Proof using All.
    intro Hx. rewrite (aE_act x Hx). rewrite dot_vsub_r by vlen.
    rewrite <- (dot_mvec_adjoint_gen no GF x (mvec aT x) Hx) by (unfold aT; vlen).
    rewrite <- (aT_normal_vec x Hx). rewrite (dot_sym (mvec GG (mvec aT x))). reflexivity.
  Qed.

  (* B3, abstract: if GF a = GG b then the projection sends a to b *)
  Theorem aT_reproduces a b : length a = no -> length b = nn ->
    veq (mvec GF a) (mvec GG b) -> veq (mvec aT a) b.
  Proof using All.
    intros Ha Hb H. rewrite (aT_act a Ha). rewrite H. apply HGGl. exact Hb.
  Qed.

  (* matrix forms *)
  Corollary aT_unique S : shaped nn no S -> meq GF (mmul_n no GG S) -> meq aT S.
  Proof using All.
    intros HS H. apply (meq_ext nn no _ _ aT_shaped HS). intros v Hv.
    apply aT_reproduces; [exact Hv|vlen; apply (shaped_len _ _ _ HS)|].
    rewrite H. apply mvec_mmul_n_gen. exact Hv.
  Qed.

  Corollary aT_left_inverse S : shaped no nn S -> meq (mmul_n nn GF S) GG ->
    meq (mmul_n nn aT S) (ident nn).
  Proof using All.
    intros HS H. apply (meq_ext nn nn); [apply shaped_mmul_n'; unfold aT; vlen|apply shaped_ident|].
    intros z Hz. rewrite (mvec_mmul_n_gen nn aT S z Hz). rewrite (mvec_ident nn z Hz).
    apply aT_reproduces; [vlen; apply (shaped_len _ _ _ HS)|exact Hz|].
    rewrite <- (mvec_mmul_n_gen nn GF S z Hz). rewrite H. reflexivity.
  Qed.

  (* ---------------------------------------------------------------- *)
  (* constrained projection: G (m x nn), F (m x no) collocation rows   *)
  (* ---------------------------------------------------------------- *)
  Variables (m : nat) (G F LLinv : mat).
  Hypothesis SG : shaped m nn G.
  Hypothesis SF : shaped m no F.
  Hypothesis SLLi : shaped m m LLinv.

  Definition aGT : mat := mtrans_n nn G.
  Definition aLL : mat := mmul_n m G (mmul_n m GGinv aGT).
  Hypothesis HLLr : forall y, length y = m -> veq (mvec aLL (mvec LLinv y)) y.

  Let LG := shaped_len _ _ _ SG.
  Let LF := shaped_len _ _ _ SF.
  Let LLLi := shaped_len _ _ _ SLLi.

  Definition aLG : mat := mmul_n nn LLinv (mmul_n nn G GGinv).
  Definition aQG : mat := msub GGinv (mmul_n nn GGinv (mmul_n nn aGT aLG)).
  Definition aQF : mat := mmul_n m GGinv (mmul_n m aGT LLinv).
  Definition cT : mat := madd (mmul_n no aQG GF) (mmul_n no aQF F).
  Definition cLambda : mat := msub (mmul_n no LLinv F) (mmul_n no aLG GF).

  Lemma aGT_length : length aGT = nn.
  Proof using All. unfold aGT. vlen. Qed.

  Lemma aLL_act y : length y = m ->
    veq (mvec aLL y) (mvec G (mvec GGinv (mvec aGT y))).
  Proof using All.
    intro Hy. unfold aLL. rewrite (mvec_mmul_n_gen m G _ y Hy).
    rewrite (mvec_mmul_n_gen m GGinv aGT y Hy). reflexivity.
  Qed.

  Lemma aLG_act w : length w = nn ->
    veq (mvec aLG w) (mvec LLinv (mvec G (mvec GGinv w))).
  Proof using All.
    intro Hw. unfold aLG. rewrite (mvec_mmul_n_gen nn LLinv _ w Hw).
    rewrite (mvec_mmul_n_gen nn G GGinv w Hw). reflexivity.
  Qed.

  Lemma aQG_shaped : shaped nn nn aQG.
  Proof using All. apply shaped_msub; [exact SGGi|]. apply shaped_mmul_n'. exact LGGi. Qed.
  Lemma aQF_shaped : shaped nn m aQF.
  Proof using All. apply shaped_mmul_n'. exact LGGi. Qed.

  Lemma aQG_act w : length w = nn ->
    veq (mvec aQG w)
        (vsub (mvec GGinv w) (mvec GGinv (mvec aGT (mvec LLinv (mvec G (mvec GGinv w)))))).
  Proof using All.
    intro Hw. unfold aQG.
    rewrite (mvec_msub nn nn); [|exact SGGi|apply shaped_mmul_n'; exact LGGi].
    rewrite (mvec_mmul_n_gen nn GGinv _ w Hw). rewrite (mvec_mmul_n_gen nn aGT aLG w Hw).
    rewrite (aLG_act w Hw). reflexivity.
  Qed.

  Lemma aQF_act y : length y = m ->
    veq (mvec aQF y) (mvec GGinv (mvec aGT (mvec LLinv y))).
  Proof using All.
    intro Hy. unfold aQF. rewrite (mvec_mmul_n_gen m GGinv _ y Hy).
    rewrite (mvec_mmul_n_gen m aGT LLinv y Hy). reflexivity.
  Qed.

  Lemma cT_shaped : shaped nn no cT.
  Proof using All.
    apply shaped_madd; apply shaped_mmul_n'; [exact (shaped_len _ _ _ aQG_shaped)|exact (shaped_len _ _ _ aQF_shaped)].
  Qed.

  Lemma cT_act v : length v = no ->
    veq (mvec cT v) (vplus (mvec aQG (mvec GF v)) (mvec aQF (mvec F v))).
  Proof using All.
    intro Hv. unfold cT.
    rewrite (mvec_madd nn no);
      [|apply shaped_mmul_n'; exact (shaped_len _ _ _ aQG_shaped)
       |apply shaped_mmul_n'; exact (shaped_len _ _ _ aQF_shaped)].
    rewrite (mvec_mmul_n_gen no aQG GF v Hv), (mvec_mmul_n_gen no aQF F v Hv). reflexivity.
  Qed.

  (* C1, vector form: the fitted spline takes the source's values at the nodes *)
  Lemma cT_interpolates_vec v : length v = no -> veq (mvec G (mvec cT v)) (mvec F v).
  Proof using All.
    intro Hv. rewrite (cT_act v Hv).
    assert (Hw : length (mvec GF v) = nn) by vlen.
    assert (Hy : length (mvec F v) = m) by vlen.
    rewrite mvec_vplus by (pose proof (shaped_len _ _ _ aQG_shaped); pose proof (shaped_len _ _ _ aQF_shaped); vlen).
    rewrite (aQG_act _ Hw), (aQF_act _ Hy).
    rewrite mvec_vsub by (pose proof aGT_length; vlen).
    set (w := mvec GF v) in *. set (y := mvec F v) in *.
    rewrite <- (aLL_act (mvec LLinv (mvec G (mvec GGinv w)))) by vlen.
    rewrite <- (aLL_act (mvec LLinv y)) by vlen.
    rewrite (HLLr y Hy). rewrite (HLLr (mvec G (mvec GGinv w))) by vlen.
    vring.
  Qed.

  (* C1 *)
  Theorem cT_interpolates : meq (mmul_n no G cT) F.
  Proof using All.
    apply (meq_ext m no); [apply shaped_mmul_n'; exact LG|exact SF|].
    intros v Hv. rewrite (mvec_mmul_n_gen no G cT v Hv). apply cT_interpolates_vec. exact Hv.
  Qed.

  Lemma cLambda_shaped : shaped m no cLambda.
  Proof using All. apply shaped_msub; apply shaped_mmul_n'; [exact LLLi|unfold aLG; vlen]. Qed.

  Lemma cLambda_act v : length v = no ->
    veq (mvec cLambda v)
        (vsub (mvec LLinv (mvec F v)) (mvec LLinv (mvec G (mvec GGinv (mvec GF v))))).
  Proof using All.
    intro Hv. unfold cLambda.
    rewrite (mvec_msub m no); [|apply shaped_mmul_n'; exact LLLi|apply shaped_mmul_n'; unfold aLG; vlen].
    rewrite (mvec_mmul_n_gen no LLinv F v Hv), (mvec_mmul_n_gen no aLG GF v Hv).
    rewrite aLG_act by vlen. reflexivity.
  Qed.

  (* C2, vector form: GG T v = GF v + G^T (Lambda v) *)
  Lemma cT_multiplier_vec v : length v = no ->
    veq (mvec GG (mvec cT v)) (vplus (mvec GF v) (mvec aGT (mvec cLambda v))).
  Proof using All.
    intro Hv. rewrite (cT_act v Hv), (cLambda_act v Hv).
    assert (Hw : length (mvec GF v) = nn) by vlen.
    assert (Hy : length (mvec F v) = m) by vlen.
    rewrite mvec_vplus by (pose proof (shaped_len _ _ _ aQG_shaped); pose proof (shaped_len _ _ _ aQF_shaped); vlen).
    rewrite (aQG_act _ Hw), (aQF_act _ Hy).
    rewrite !mvec_vsub by (pose proof aGT_length; vlen).
    set (w := mvec GF v) in *. set (y := mvec F v) in *.
    rewrite !HGGr by (pose proof aGT_length; vlen).
    pose proof aGT_length. vring.
  Qed.

  (* C2: the residual moments lie in the row space of G *)
  Theorem cT_multiplier : meq (msub (mmul_n no GG cT) GF) (mmul_n no aGT cLambda).
  Proof using All.
    apply (meq_ext nn no).
    - apply shaped_msub; [apply shaped_mmul_n'; exact LGG|exact SGF].
    - apply shaped_mmul_n'. apply aGT_length.
    - intros v Hv. rewrite (mvec_msub nn no); [|apply shaped_mmul_n'; exact LGG|exact SGF].
      rewrite (mvec_mmul_n_gen no GG cT v Hv), (mvec_mmul_n_gen no aGT cLambda v Hv).
      rewrite (cT_multiplier_vec v Hv). pose proof aGT_length. vring.
  Qed.

  (* C2, meaning: the residual is orthogonal (in the quadrature inner product) to every element
     z of the new space that vanishes at all the nodes *)
  Corollary cT_constrained_orthogonal v z : length v = no -> length z = nn ->
    veq (mvec G z) (repeat 0 m) ->
    dot z (vsub (mvec GG (mvec cT v)) (mvec GF v)) == 0.
  Proof using All.
    intros Hv Hz Hvan. rewrite (cT_multiplier_vec v Hv).
    assert (E : veq (vsub (vplus (mvec GF v) (mvec aGT (mvec cLambda v))) (mvec GF v))
                    (mvec aGT (mvec cLambda v))) by (pose proof aGT_length; vring).
    rewrite E. unfold aGT.
    rewrite <- (dot_mvec_adjoint_gen nn G z (mvec cLambda v) Hz)
      by (pose proof (shaped_len _ _ _ cLambda_shaped); vlen).
    rewrite Hvan. rewrite dot_sym. apply dot_zeros_r.
  Qed.
End AbstractProjection.

(* ------------------------------------------------------------------ *)
(* 3. The Gram matrices of grams_of: an induction principle over every   *)
(*    quadrature node, shapes, action of outer_acc, symmetry, transfer   *)
(* ------------------------------------------------------------------ *)
Lemma fold_left_err {A X} (f : res A -> X -> res A) l e :
  (forall e x, f (Err e) x = Err e) -> fold_left f l (Err e) = Err e.
Proof. intro Hf. induction l as [|x l IH]; cbn; [reflexivity|]. rewrite Hf. exact IH. Qed.

Lemma fold_left_res_inv {A X} (f : res A -> X -> res A) (P : A -> Prop) l :
  (forall e x, f (Err e) x = Err e) ->
  (forall a x b, In x l -> P a -> f (Ok a) x = Ok b -> P b) ->
  forall a b, P a -> fold_left f l (Ok a) = Ok b -> P b.
Proof.
  intros He. induction l as [|x l IH]; cbn; intros Hs a b Pa H.
  - inversion H; subst. exact Pa.
  - destruct (f (Ok a) x) as [a'|e] eqn:E.
    + apply (IH (fun a x b Hx => Hs a x b (or_intror Hx)) a' b); [|exact H].
      apply (Hs a x a' (or_introl eq_refl) Pa E).
    + rewrite (fold_left_err f l e He) in H. discriminate.
Qed.

Lemma fold_left_inv {A X} (f : A -> X -> A) (P : A -> Prop) l :
  (forall a x, In x l -> P a -> P (f a x)) -> forall a, P a -> P (fold_left f l a).
Proof.
  induction l as [|x l IH]; cbn; intros Hs a Pa; [exact Pa|].
  apply IH; [intros; apply Hs; auto|]. apply Hs; auto.
Qed.

Lemma combine_rows {A B C Wt} (f1 : A -> res B) (f2 : A -> res C) nodes Fv Gv :
  Forall2 (fun a b => f1 a = Ok b) nodes Fv ->
  Forall2 (fun a b => f2 a = Ok b) nodes Gv ->
  forall (w : list Wt) x, In x (combine (combine w Fv) Gv) ->
  exists u, In u nodes /\ f1 u = Ok (snd (fst x)) /\ f2 u = Ok (snd x).
Proof.
  intro H1. revert Gv. induction H1 as [|u f nodes Fv Hu H1 IH]; intros Gv H2 w x Hx.
  - destruct w; cbn in Hx; contradiction.
  - inversion H2 as [|u' g nodes' Gv' Hg H2']; subst.
    destruct w as [|wk w]; cbn in Hx; [contradiction|].
    destruct Hx as [<-|Hx].
    + exists u. cbn. split; [left; reflexivity|]. split; assumption.
    + destruct (IH Gv' H2' w x Hx) as (u0 & Hin & K). exists u0. split; [right; exact Hin|exact K].
Qed.

Definition gstep (c : Q) (f gk : list Q) (acc : grams) : grams :=
  mkgr (outer_acc c f f (gFF acc)) (outer_acc c gk f (gGF acc)) (outer_acc c gk gk (gGG acc)).

Definition gzero (kold knew : kv) : grams :=
  mkgr (zeros (knpts kold) (knpts kold)) (zeros (knpts knew) (knpts kold))
       (zeros (knpts knew) (knpts knew)).

(* every quadrature node used by grams_of *)
Definition quad_nodes_of (x01 allk : list Q) : list Q :=
  concat (map (fun se : Q * Q => let (s, e) := se in map (fun x => Qred (s + (e - s) * x)) x01)
              (pairs allk)).
Definition quad_nodes (kold knew : kv) : list Q :=
  let allk := dedupq (sortq (kknots kold ++ kknots knew)) in
  let n := (kdeg kold + kdeg knew + ls_quad_extra)%nat in
  match (if ls_rule_closed then closed_linspace n else open_linspace n) with
  | Ok x01 => quad_nodes_of x01 allk
  | Err _ => []
  end.

Theorem grams_of_ind kold knew (P : grams -> Prop) :
  P (gzero kold knew) ->
  (forall c u f gk acc, In u (quad_nodes kold knew) ->
     basis_row kold (kdeg kold) u = Ok f -> basis_row knew (kdeg knew) u = Ok gk ->
     P acc -> P (gstep c f gk acc)) ->
  forall g, grams_of kold knew = Ok g -> P g.
Proof.
  intros P0 Pstep g H. unfold grams_of in H. cbv zeta in H.
  destruct (if ls_rule_closed then closed_newton_cotes _ else open_newton_cotes _) as [w|]; cbn [bind] in H;
    [|discriminate].
  destruct (if ls_rule_closed then closed_linspace _ else open_linspace _) as [x01|] eqn:EX; cbn [bind] in H;
    [|discriminate].
  assert (EQ : quad_nodes kold knew
               = quad_nodes_of x01 (dedupq (sortq (kknots kold ++ kknots knew))))
    by (unfold quad_nodes; cbv zeta; rewrite EX; reflexivity).
  revert H. apply fold_left_res_inv; [reflexivity| |exact P0].
  intros a [s e] b Hse Pa Hb. unfold gram_span in Hb. cbn [bind] in Hb.
  destruct (mapM (basis_row kold (kdeg kold)) _) as [Fv|] eqn:EF; cbn [bind] in Hb; [|discriminate].
  destruct (mapM (basis_row knew (kdeg knew)) _) as [Gv|] eqn:EG; cbn [bind] in Hb; [|discriminate].
  inversion Hb; subst b. clear Hb.
  apply fold_left_inv; [|exact Pa].
  intros acc x Hx Pacc.
  destruct (combine_rows _ _ _ _ _ (mapM_Forall2 _ _ _ EF) (mapM_Forall2 _ _ _ EG) w x Hx)
    as (u & Hin & Hf & Hg).
  destruct x as [[wk f] gk]. cbn in Hf, Hg.
  apply (Pstep _ u f gk acc); try assumption.
  rewrite EQ. unfold quad_nodes_of. apply in_concat.
  exists (map (fun x => Qred (s + (e - s) * x)) x01). split; [|exact Hin].
  apply in_map_iff. exists (s, e). split; [reflexivity|exact Hse].
Qed.

(* shapes *)
Lemma shaped_zeros r c : shaped r c (zeros r c).
Proof.
  unfold zeros. split; [apply repeat_length|]. apply Forall_forall. intros x Hx.
  apply repeat_spec in Hx. subst. apply repeat_length.
Qed.

Lemma shaped_outer_acc w a b r c acc :
  length a = r -> length b = c -> shaped r c acc -> shaped r c (outer_acc w a b acc).
Proof.
  intros Ha Hb [HL HF]. unfold outer_acc. split; [rewrite map2_length; lia|].
  clear HL Ha. revert a. induction HF; intros [|ai a]; cbn; constructor.
  - rewrite map2_length. lia.
  - apply IHHF.
Qed.

Definition gshaped (no nn : nat) (g : grams) : Prop :=
  shaped no no (gFF g) /\ shaped nn no (gGF g) /\ shaped nn nn (gGG g).

Theorem grams_of_shaped kold knew g : grams_of kold knew = Ok g ->
  gshaped (knpts kold) (knpts knew) g.
Proof.
  apply (grams_of_ind kold knew (gshaped (knpts kold) (knpts knew))).
  - (split; [|split]); apply shaped_zeros.
  - intros c u f gk acc _ Hf Hg (H1 & H2 & H3).
    apply basis_row_length in Hf. apply basis_row_length in Hg.
    (split; [|split]); cbn; apply shaped_outer_acc; assumption.
Qed.

(* the induction principle with the shapes available *)
Theorem grams_of_ind_shaped kold knew (P : grams -> Prop) :
  P (gzero kold knew) ->
  (forall c u f gk acc, In u (quad_nodes kold knew) ->
     basis_row kold (kdeg kold) u = Ok f -> basis_row knew (kdeg knew) u = Ok gk ->
     length f = knpts kold -> length gk = knpts knew ->
     gshaped (knpts kold) (knpts knew) acc ->
     P acc -> P (gstep c f gk acc)) ->
  forall g, grams_of kold knew = Ok g -> P g.
Proof.
  intros P0 Pstep g H.
  enough (gshaped (knpts kold) (knpts knew) g /\ P g) by tauto.
  revert g H. apply grams_of_ind.
  - split; [(split; [|split]); apply shaped_zeros|exact P0].
  - intros c u f gk acc Hu Hf Hg [(H1 & H2 & H3) Pa].
    pose proof (basis_row_length _ _ _ _ Hf) as Lf. pose proof (basis_row_length _ _ _ _ Hg) as Lg.
    split.
    + (split; [|split]); cbn; apply shaped_outer_acc; assumption.
    + apply (Pstep c u f gk acc Hu Hf Hg Lf Lg); [(split; [|split]); assumption|exact Pa].
Qed.

(* entries and action of outer_acc *)
Lemma mvec_outer_acc w a b r c acc v :
  length a = r -> length b = c -> shaped r c acc ->
  veq (mvec (outer_acc w a b acc) v) (vplus (mvec acc v) (vscl (w * dot b v) a)).
Proof.
  intros Ha Hb HS. pose proof (shaped_len _ _ _ HS) as LS.
  apply veq_intro; [unfold outer_acc; vlen|].
  rewrite mvec_length. unfold outer_acc at 1. rewrite map2_length. intros i Hi.
  rewrite nth_vplus by vlen. rewrite nth_vscl, !nth_mvec.
  unfold outer_acc.
  rewrite (nth_map2_lt (fun ai row => map2 (fun bj x => Qred (x + w * ai * bj)) b row) a acc 0 [] []) by lia.
  rewrite (dot_map2_lin (fun bj x => Qred (x + w * nth i a 0 * bj)) (w * nth i a 0) 1).
  - ring.
  - intros. rewrite Qred_correct. ring.
  - rewrite (shaped_row r c acc i HS) by lia. exact Hb.
Qed.

Lemma mvec_zeros_mat r c v : veq (mvec (zeros r c) v) (repeat 0 r).
Proof.
  unfold zeros. induction r as [|r IH]; cbn; constructor; [|exact IH].
  rewrite dot_sym. apply dot_zeros_r.
Qed.

(* GG (and FF) are symmetric bilinear forms *)
Theorem grams_of_GG_symmetric kold knew g : grams_of kold knew = Ok g ->
  forall x y, length x = knpts knew -> length y = knpts knew ->
  dot x (mvec (gGG g) y) == dot y (mvec (gGG g) x).
Proof.
  intro H. revert g H.
  apply (grams_of_ind_shaped kold knew
           (fun g => forall x y, length x = knpts knew -> length y = knpts knew ->
                                 dot x (mvec (gGG g) y) == dot y (mvec (gGG g) x))).
  - intros x y _ _. unfold gzero; cbn [gGG]. rewrite !mvec_zeros_mat, !dot_zeros_r. reflexivity.
  - intros c u f gk acc _ _ _ Lf Lg (S1 & S2 & S3) IH x y Hx Hy. cbn [gstep gGG].
    pose proof (shaped_len _ _ _ S3) as L3.
    rewrite !(mvec_outer_acc c gk gk _ _ (gGG acc) _ Lg Lg S3).
    rewrite !dot_vplus_r by vlen. unfold vscl. rewrite !dot_scale_r.
    rewrite (IH x y Hx Hy). rewrite (dot_sym x gk), (dot_sym y gk). ring.
Qed.

(* transfer: if the old-basis combination with coefficients a and the new-basis combination with
   coefficients b take the same value at every quadrature node, then GF a = GG b *)
Theorem grams_of_transfer kold knew g a b : grams_of kold knew = Ok g ->
  length a = knpts kold -> length b = knpts knew ->
  (forall u f gk, In u (quad_nodes kold knew) ->
                  basis_row kold (kdeg kold) u = Ok f -> basis_row knew (kdeg knew) u = Ok gk ->
                  dot f a == dot gk b) ->
  veq (mvec (gGF g) a) (mvec (gGG g) b).
Proof.
  intros H Ha Hb Hnodes. revert g H.
  apply (grams_of_ind_shaped kold knew (fun g => veq (mvec (gGF g) a) (mvec (gGG g) b))).
  - unfold gzero; cbn [gGG gGF]. rewrite !mvec_zeros_mat. reflexivity.
  - intros c u f gk acc Hu Hf Hg Lf Lg (S1 & S2 & S3) IH. cbn [gstep gGF gGG].
    rewrite (mvec_outer_acc c gk f _ _ (gGF acc) a Lg Lf S2).
    rewrite (mvec_outer_acc c gk gk _ _ (gGG acc) b Lg Lg S3).
    rewrite IH. rewrite (Hnodes u f gk Hu Hf Hg). reflexivity.
Qed.

(* ------------------------------------------------------------------ *)
(* 2b. The symmetrised error matrix of the constrained branch            *)
(* ------------------------------------------------------------------ *)
Lemma shaped_mscale c r k A : shaped r k A -> shaped r k (mscale c A).
Proof.
  intros [HL HF]. unfold mscale. split; [rewrite map_length; exact HL|].
  clear HL. induction HF; cbn; constructor; [rewrite map_length; assumption|assumption].
Qed.

Lemma dot_map_lin (f : Q -> Q) c a v : (forall x, f x == c * x) -> dot (map f a) v == c * dot a v.
Proof.
  intro Hf. rewrite (dot_sumn (length a) (map f a) v) by (rewrite map_length; lia).
  rewrite (dot_sumn (length a) a v) by lia. rewrite <- sumn_scale_l.
  apply sumn_ext. intros i Hi. rewrite (nth_map_lt f a 0 0) by exact Hi. rewrite Hf. ring.
Qed.

Lemma mvec_mscale c A v : veq (mvec (mscale c A) v) (vscl c (mvec A v)).
Proof.
  unfold mscale, vscl, mvec. induction A as [|r A IH]; cbn; constructor; [|exact IH].
  apply dot_map_lin. intro x. apply Qred_correct.
Qed.

Section AbstractError.
  Variables (nn no : nat) (FF GF GG T : mat).
  Hypothesis SFF : shaped no no FF.
  Hypothesis SGF : shaped nn no GF.
  Hypothesis SGG : shaped nn nn GG.
  Hypothesis ST : shaped nn no T.

  Definition qTGF : mat := mmul_n no (mtrans_n no T) GF.
  Definition qE : mat :=
    mscale (1 # 2) (madd (msub (msub FF qTGF) (mtrans_n no qTGF))
                         (mmul_n no (mtrans_n no T) (mmul_n no GG T))).

  Lemma qE_shaped : shaped no no qE.
  Proof using All.
    unfold qE, qTGF. apply shaped_mscale. apply shaped_madd; [apply shaped_msub; [apply shaped_msub|]|].
    - exact SFF.
    - apply shaped_mmul_n'. vlen.
    - apply shaped_mtrans_n'. vlen.
    - apply shaped_mmul_n'. vlen.
  Qed.

  (* x^T E x = 1/2 ( |f|^2 - 2 <f, g> + |g|^2 ) with f = sum x_i F_i and g = sum (T x)_j G_j *)
  Theorem qE_quadratic x : length x = no ->
    dot x (mvec qE x) ==
    (1 # 2) * (dot x (mvec FF x) - 2 * dot (mvec T x) (mvec GF x) + dot (mvec T x) (mvec GG (mvec T x))).
  Proof using All.
    intro Hx. pose proof (shaped_len _ _ _ SFF) as LFF. pose proof (shaped_len _ _ _ SGF) as LGF.
    pose proof (shaped_len _ _ _ SGG) as LGG. pose proof (shaped_len _ _ _ ST) as LT.
    assert (S1 : shaped no no qTGF) by (apply shaped_mmul_n'; vlen).
    assert (S2 : shaped no no (mtrans_n no qTGF)) by (apply shaped_mtrans_n'; unfold qTGF; vlen).
    assert (S3 : shaped no no (mmul_n no (mtrans_n no T) (mmul_n no GG T))) by (apply shaped_mmul_n'; vlen).
    unfold qE. rewrite mvec_mscale.
    rewrite (mvec_madd no no); [|apply shaped_msub; [apply shaped_msub|]; assumption|exact S3].
    rewrite (mvec_msub no no); [|apply shaped_msub; assumption|exact S2].
    rewrite (mvec_msub no no); [|assumption|assumption].
    unfold vscl. rewrite dot_scale_r.
    rewrite dot_vplus_r by (unfold qTGF; vlen).
    rewrite !dot_vsub_r by (unfold qTGF; vlen).
    assert (E1 : dot x (mvec qTGF x) == dot (mvec T x) (mvec GF x)).
    { unfold qTGF. rewrite (mvec_mmul_n_gen no _ GF x Hx).
      rewrite <- (dot_mvec_adjoint_gen no T x (mvec GF x) Hx) by vlen. reflexivity. }
    assert (E2 : dot x (mvec (mtrans_n no qTGF) x) == dot (mvec T x) (mvec GF x)).
    { rewrite <- (dot_mvec_adjoint_gen no qTGF x x Hx) by (unfold qTGF; vlen).
      rewrite dot_sym. exact E1. }
    assert (E3 : dot x (mvec (mmul_n no (mtrans_n no T) (mmul_n no GG T)) x)
                 == dot (mvec T x) (mvec GG (mvec T x))).
    { rewrite (mvec_mmul_n_gen no _ _ x Hx). rewrite (mvec_mmul_n_gen no GG T x Hx).
      rewrite <- (dot_mvec_adjoint_gen no T x _ Hx) by vlen. reflexivity. }
    rewrite E1, E2, E3. ring.
  Qed.
End AbstractError.

(* ------------------------------------------------------------------ *)
(* B. spline2spline without constraints                                 *)
(* ------------------------------------------------------------------ *)
Lemma invert_facts n M M' : invert M = Ok M' -> length M = n ->
  shaped n n M /\ shaped n n M' /\
  (forall v, length v = n -> veq (mvec M (mvec M' v)) v) /\
  (forall v, length v = n -> veq (mvec M' (mvec M v)) v).
Proof.
  intros H HL. destruct (invert_sound _ _ H) as (S1 & S2 & _ & _). rewrite HL in S1, S2.
  split; [exact S1|]. split; [exact S2|]. split; intros v Hv.
  - apply (invert_right M M' v H). congruence.
  - apply (invert_left M M' v H). congruence.
Qed.

Lemma s2s_none_unfold kold knew T E : spline2spline kold knew None = Ok (T, E) ->
  exists g GGinv, grams_of kold knew = Ok g /\ invert (gGG g) = Ok GGinv /\
    T = mmul GGinv (gGF g) /\ E = msub (gFF g) (mmul (mtrans (gGF g)) T).
Proof.
  unfold spline2spline. cbn [bind].
  destruct (grams_of kold knew) as [g|]; cbn [bind]; [|discriminate].
  destruct (invert (gGG g)) as [GGinv|] eqn:EI; cbn [bind]; [|discriminate].
  intro H. inversion H. exists g, GGinv. repeat split; try reflexivity. exact EI.
Qed.

Lemma mmul_aT nn no GGinv GF : shaped nn nn GGinv -> shaped nn no GF ->
  mmul GGinv GF = aT no GF GGinv.
Proof.
  intros S1 S2. destruct nn as [|nn].
  - destruct GGinv; [reflexivity|]. destruct S1 as [S1 _]. cbn in S1. discriminate.
  - apply (mmul_as_n (S nn) no); [exact S2|lia].
Qed.

Section Unconstrained.
  Variables (kold knew : kv) (T E : mat) (g : grams).
  Hypothesis HS : spline2spline kold knew None = Ok (T, E).
  Hypothesis Hg : grams_of kold knew = Ok g.

  Let no := knpts kold.
  Let nn := knpts knew.

  Lemma s2s_none_facts :
    exists GGinv, shaped no no (gFF g) /\ shaped nn no (gGF g) /\ shaped nn nn (gGG g) /\
      shaped nn nn GGinv /\
      (forall v, length v = nn -> veq (mvec (gGG g) (mvec GGinv v)) v) /\
      (forall v, length v = nn -> veq (mvec GGinv (mvec (gGG g) v)) v) /\
      T = aT no (gGF g) GGinv /\
      ((0 < nn)%nat -> E = aE no (gFF g) (gGF g) GGinv).
  Proof.
    destruct (s2s_none_unfold _ _ _ _ HS) as (g' & GGinv & Hg' & Hinv & HT & HE).
    rewrite Hg in Hg'. inversion Hg'; subst g'. clear Hg'.
    pose proof (grams_of_shaped _ _ _ Hg) as HSh. fold no nn in HSh.
    destruct HSh as (S1 & S2 & S3).
    destruct (invert_facts nn _ _ Hinv (shaped_len _ _ _ S3)) as (_ & S4 & Hr & Hl).
    exists GGinv. do 6 (split; [assumption|]).
    assert (ET : T = aT no (gGF g) GGinv) by (rewrite HT; apply (mmul_aT nn no); assumption).
    split; [exact ET|]. intro Hpos. rewrite HE. unfold aE.
    rewrite (mtrans_as_n nn no (gGF g) S2 Hpos).
    rewrite (mmul_as_n nn no _ T); [rewrite ET; reflexivity| |exact Hpos].
    rewrite ET. apply (aT_shaped nn no _ _ _ _ S1 S2 S3 S4 Hr Hl).
  Qed.

  (* B1: the normal equations GG T = GF *)
  Theorem spline2spline_normal_equations : meq (mmul_n no (gGG g) T) (gGF g).
  Proof.
    destruct s2s_none_facts as (GGinv & S1 & S2 & S3 & S4 & Hr & Hl & HT & _).
    rewrite HT. apply (aT_normal nn no _ _ _ _ S1 S2 S3 S4 Hr Hl).
  Qed.

  Lemma spline2spline_T_shaped : shaped nn no T.
  Proof.
    destruct s2s_none_facts as (GGinv & S1 & S2 & S3 & S4 & Hr & Hl & HT & _).
    rewrite HT. apply (aT_shaped nn no _ _ _ _ S1 S2 S3 S4 Hr Hl).
  Qed.

  (* B2: the error matrix is FF - GF^T T ... *)
  Theorem spline2spline_error_matrix : (0 < nn)%nat ->
    E = msub (gFF g) (mmul_n no (mtrans_n no (gGF g)) T) /\ shaped no no E.
  Proof.
    intro Hpos.
    destruct s2s_none_facts as (GGinv & S1 & S2 & S3 & S4 & Hr & Hl & HT & HE).
    rewrite (HE Hpos). split; [rewrite HT; reflexivity|].
    apply (aE_shaped nn no _ _ _ _ S1 S2 S3 S4 Hr Hl).
  Qed.

  (* ... hence the squared error of projecting x is |x|_F^2 - |T x|_G^2 (Pythagoras) *)
  Theorem spline2spline_error_pythagoras x : (0 < nn)%nat -> length x = no ->
    dot x (mvec E x) == dot x (mvec (gFF g) x) - dot (mvec T x) (mvec (gGG g) (mvec T x)).
  Proof.
    intros Hpos Hx.
    destruct s2s_none_facts as (GGinv & S1 & S2 & S3 & S4 & Hr & Hl & HT & HE).
    rewrite (HE Hpos), HT. apply (aE_pythagoras nn no _ _ _ _ S1 S2 S3 S4 Hr Hl x Hx).
  Qed.

  (* B3: if the source spline (old coefficients a) and a spline of the new space (coefficients b)
     take the same value at every quadrature node, the projection returns b *)
  Theorem spline2spline_reproduces a b : length a = no -> length b = nn ->
    (forall u f gk, In u (quad_nodes kold knew) ->
                  basis_row kold (kdeg kold) u = Ok f -> basis_row knew (kdeg knew) u = Ok gk ->
                    dot f a == dot gk b) ->
    veq (mvec T a) b.
  Proof.
    intros Ha Hb Hnodes.
    destruct s2s_none_facts as (GGinv & S1 & S2 & S3 & S4 & Hr & Hl & HT & _).
    rewrite HT. apply (aT_reproduces nn no _ _ _ _ S1 S2 S3 S4 Hr Hl a b Ha Hb).
    apply (grams_of_transfer kold knew g a b Hg Ha Hb Hnodes).
  Qed.

  (* B3 (i): the old space is contained in the new one, F(u) = R G(u) at every node
     (knot insertion, degree elevation): the projection is exact, T = R^T *)
  Corollary spline2spline_refinement R : shaped no nn R ->
    (forall u f gk, In u (quad_nodes kold knew) ->
                  basis_row kold (kdeg kold) u = Ok f -> basis_row knew (kdeg knew) u = Ok gk ->
                    veq f (mvec R gk)) ->
    meq T (mtrans_n nn R).
  Proof.
    intros SR HR. pose proof (shaped_len _ _ _ SR) as LR.
    apply (meq_ext nn no); [exact spline2spline_T_shaped|apply shaped_mtrans_n'; exact LR|].
    intros v Hv. apply spline2spline_reproduces; [exact Hv|vlen|].
    intros u f gk Hu Hf Hgk. rewrite (HR u f gk Hu Hf Hgk).
    apply (dot_mvec_adjoint_gen nn R gk v); [apply (basis_row_length _ _ _ _ Hgk)|congruence].
  Qed.

  (* B3 (ii): projecting a curve that already lies in the new space returns its coefficients:
     if G(u) = S F(u) at every node, a spline with new coefficients z has old coefficients S^T z,
     and T (S^T z) = z *)
  Corollary spline2spline_left_inverse S : shaped nn no S ->
    (forall u f gk, In u (quad_nodes kold knew) ->
                  basis_row kold (kdeg kold) u = Ok f -> basis_row knew (kdeg knew) u = Ok gk ->
                    veq gk (mvec S f)) ->
    meq (mmul_n nn T (mtrans_n no S)) (ident nn).
  Proof.
    intros SS HSF. pose proof (shaped_len _ _ _ SS) as LS.
    apply (meq_ext nn nn);
      [apply shaped_mmul_n'; exact (shaped_len _ _ _ spline2spline_T_shaped)|apply shaped_ident|].
    intros z Hz. rewrite (mvec_mmul_n_gen nn T _ z Hz). rewrite (mvec_ident nn z Hz).
    apply spline2spline_reproduces; [vlen|exact Hz|].
    intros u f gk Hu Hf Hgk. rewrite (HSF u f gk Hu Hf Hgk). symmetry.
    apply (dot_mvec_adjoint_gen no S f z); [apply (basis_row_length _ _ _ _ Hf)|congruence].
  Qed.
End Unconstrained.

(* ------------------------------------------------------------------ *)
(* C. spline2spline with interpolation constraints                      *)
(* ------------------------------------------------------------------ *)
(* C3 *)
Theorem spline2spline_refuses kold knew ns : (knpts knew < length ns)%nat ->
  spline2spline kold knew (Some ns) = Err NotImplementedError.
Proof.
  intro H. unfold spline2spline.
  destruct (Nat.ltb_spec (knpts knew) (length ns)); [reflexivity|lia].
Qed.

Definition model_cT (nn no : nat) (GF GGinv G F LLinv : mat) : mat :=
  let GT := mtrans_n nn G in
  let LG := mmul LLinv (mmul G GGinv) in
  let QG := msub GGinv (mmul GGinv (mmul GT LG)) in
  let QF := mmul GGinv (mmul GT LLinv) in
  madd (mmul QG GF) (mmul QF F).

Definition model_cE (no : nat) (FF GF GG T : mat) : mat :=
  let Tt := mtrans_n no T in
  let TGF := mmul Tt GF in
  mscale (1#2) (madd (msub (msub FF TGF) (mtrans_n no TGF)) (mmul Tt (mmul GG T))).

Lemma model_cE_eq nn no FF GF GG T : (0 < nn)%nat ->
  shaped nn no GF -> shaped nn nn GG -> shaped nn no T ->
  model_cE no FF GF GG T = qE no FF GF GG T.
Proof.
  intros Hn SGF SGG ST. unfold model_cE, qE, qTGF. cbv zeta.
  rewrite (mmul_as_n nn no _ GF SGF Hn).
  rewrite (mmul_as_n nn no GG T ST Hn).
  rewrite (mmul_as_n nn no _ (mmul_n no GG T)); [reflexivity| |exact Hn].
  apply shaped_mmul_n'. apply (shaped_len _ _ _ SGG).
Qed.

Lemma s2s_some_unfold kold knew ns T E : spline2spline kold knew (Some ns) = Ok (T, E) ->
  (length ns <= knpts knew)%nat /\
  exists g GGinv F G LLinv, grams_of kold knew = Ok g /\ invert (gGG g) = Ok GGinv /\
    mapM (basis_row kold (kdeg kold)) ns = Ok F /\
    mapM (basis_row knew (kdeg knew)) ns = Ok G /\
    invert (mmul G (mmul GGinv (mtrans_n (knpts knew) G))) = Ok LLinv /\
    T = model_cT (knpts knew) (knpts kold) (gGF g) GGinv G F LLinv /\
    E = model_cE (knpts kold) (gFF g) (gGF g) (gGG g) T.
Proof.
  unfold spline2spline.
  destruct (Nat.ltb_spec (knpts knew) (length ns)) as [L|L]; cbn [bind]; [discriminate|].
  destruct (grams_of kold knew) as [g|]; cbn [bind]; [|discriminate].
  destruct (invert (gGG g)) as [GGinv|] eqn:EI; cbn [bind]; [|discriminate].
  destruct (mapM (basis_row kold (kdeg kold)) ns) as [F|] eqn:EF; cbn [bind]; [|discriminate].
  destruct (mapM (basis_row knew (kdeg knew)) ns) as [G|] eqn:EG; cbn [bind]; [|discriminate].
  destruct (invert (mmul G (mmul GGinv (mtrans_n (knpts knew) G)))) as [LLinv|] eqn:EL; cbn [bind];
    [|discriminate].
  intro H. inversion H. split; [exact L|].
  exists g, GGinv, F, G, LLinv. repeat split; try reflexivity; assumption.
Qed.

(* the model's products (mmul reads the column count off its second argument) are the
   dimensioned products of the abstract section as soon as there is at least one node *)
Lemma model_cT_eq nn no m GF GGinv G F LLinv :
  (0 < m)%nat -> (0 < nn)%nat ->
  shaped nn no GF -> shaped nn nn GGinv -> shaped m nn G -> shaped m no F -> shaped m m LLinv ->
  model_cT nn no GF GGinv G F LLinv = cT nn no GF GGinv m G F LLinv.
Proof.
  intros Hm Hn SGF SGGi SG SF SLLi.
  pose proof (shaped_len _ _ _ SGF). pose proof (shaped_len _ _ _ SGGi).
  pose proof (shaped_len _ _ _ SG). pose proof (shaped_len _ _ _ SF). pose proof (shaped_len _ _ _ SLLi).
  unfold model_cT, cT, aQG, aQF, aLG, aGT. cbv zeta.
  assert (SGT : shaped nn m (mtrans_n nn G)) by (apply shaped_mtrans_n'; assumption).
  rewrite (mmul_as_n nn nn G GGinv SGGi Hn).
  rewrite (mmul_as_n m nn LLinv (mmul_n nn G GGinv)) by (try apply shaped_mmul_n'; assumption).
  rewrite (mmul_as_n m nn (mtrans_n nn G) (mmul_n nn LLinv (mmul_n nn G GGinv)))
    by (try apply shaped_mmul_n'; assumption).
  rewrite (mmul_as_n nn nn GGinv (mmul_n nn (mtrans_n nn G) _))
    by (try apply shaped_mmul_n'; vlen; assumption).
  rewrite (mmul_as_n m m (mtrans_n nn G) LLinv SLLi Hm).
  rewrite (mmul_as_n nn m GGinv (mmul_n m (mtrans_n nn G) LLinv))
    by (try apply shaped_mmul_n'; vlen; assumption).
  rewrite (mmul_as_n nn no _ GF SGF Hn).
  rewrite (mmul_as_n m no _ F SF Hm).
  reflexivity.
Qed.

Lemma model_LL_eq nn m GGinv G : (0 < nn)%nat -> shaped nn nn GGinv -> shaped m nn G ->
  mmul G (mmul GGinv (mtrans_n nn G)) = aLL nn GGinv m G.
Proof.
  intros Hn SGGi SG. pose proof (shaped_len _ _ _ SGGi). pose proof (shaped_len _ _ _ SG).
  unfold aLL, aGT.
  assert (SGT : shaped nn m (mtrans_n nn G)) by (apply shaped_mtrans_n'; assumption).
  rewrite (mmul_as_n nn m GGinv _ SGT Hn).
  rewrite (mmul_as_n nn m G (mmul_n m GGinv (mtrans_n nn G))) by (try apply shaped_mmul_n'; assumption).
  reflexivity.
Qed.

Section Constrained.
  Variables (kold knew : kv) (ns : list Q) (T E : mat) (g : grams) (F G : mat).
  Hypothesis HS : spline2spline kold knew (Some ns) = Ok (T, E).
  Hypothesis Hg : grams_of kold knew = Ok g.
  Hypothesis HF : mapM (basis_row kold (kdeg kold)) ns = Ok F.
  Hypothesis HG : mapM (basis_row knew (kdeg knew)) ns = Ok G.

  Let no := knpts kold.
  Let nn := knpts knew.
  Let m := length ns.

  Lemma s2s_F_shaped : shaped m no F.
  Proof. apply (mapM_shaped (basis_row kold (kdeg kold)) no ns F); [|exact HF]. intros a b. apply basis_row_length. Qed.
  Lemma s2s_G_shaped : shaped m nn G.
  Proof. apply (mapM_shaped (basis_row knew (kdeg knew)) nn ns G); [|exact HG]. intros a b. apply basis_row_length. Qed.

  Lemma s2s_some_facts : (0 < m)%nat ->
    exists GGinv LLinv, shaped no no (gFF g) /\ shaped nn no (gGF g) /\ shaped nn nn (gGG g) /\
      shaped nn nn GGinv /\
      (forall v, length v = nn -> veq (mvec (gGG g) (mvec GGinv v)) v) /\
      (forall v, length v = nn -> veq (mvec GGinv (mvec (gGG g) v)) v) /\
      shaped m m LLinv /\
      (forall y, length y = m -> veq (mvec (aLL nn GGinv m G) (mvec LLinv y)) y) /\
      T = cT nn no (gGF g) GGinv m G F LLinv /\
      E = qE no (gFF g) (gGF g) (gGG g) T.
  Proof.
    intro Hm.
    destruct (s2s_some_unfold _ _ _ _ _ HS) as (Hle & g' & GGinv & F' & G' & LLinv & Hg' & Hinv & HF' & HG' & HLL & HT & HE).
    rewrite Hg in Hg'. inversion Hg'; subst g'. clear Hg'.
    rewrite HF in HF'. inversion HF'; subst F'. clear HF'.
    rewrite HG in HG'. inversion HG'; subst G'. clear HG'.
    fold nn no in HLL, HT, HE. fold m nn in Hle.
    assert (Hn : (0 < nn)%nat) by lia.
    pose proof (grams_of_shaped _ _ _ Hg) as HSh. fold no nn in HSh.
    destruct HSh as (S1 & S2 & S3).
    destruct (invert_facts nn _ _ Hinv (shaped_len _ _ _ S3)) as (_ & S4 & Hr & Hl).
    rewrite (model_LL_eq nn m GGinv G Hn S4 s2s_G_shaped) in HLL.
    assert (LLL : length (aLL nn GGinv m G) = m)
      by (unfold aLL; rewrite mmul_n_length; apply (shaped_len _ _ _ s2s_G_shaped)).
    destruct (invert_facts m _ _ HLL LLL) as (_ & S5 & HLr & _).
    exists GGinv, LLinv. do 8 (split; [assumption|]).
    assert (ET : T = cT nn no (gGF g) GGinv m G F LLinv).
    { rewrite HT. apply (model_cT_eq nn no m); try assumption; [exact s2s_G_shaped|exact s2s_F_shaped]. }
    split; [exact ET|]. rewrite HE. apply (model_cE_eq nn no); try assumption.
    rewrite ET.
    apply (cT_shaped nn no _ _ _ _ S1 S2 S3 S4 Hr Hl m G F LLinv s2s_G_shaped s2s_F_shaped S5 HLr).
  Qed.

  (* C1: interpolation  G T = F  (the fitted curve takes the source's values at the nodes) *)
  Theorem spline2spline_interpolates : meq (mmul_n no G T) F.
  Proof.
    destruct (Nat.eq_dec m 0) as [Z|NZ].
    - pose proof (shaped_len _ _ _ s2s_F_shaped) as LF.
      pose proof (shaped_len _ _ _ s2s_G_shaped) as LG. rewrite Z in LF, LG.
      destruct F; [|discriminate]. destruct G; [|discriminate]. constructor.
    - destruct s2s_some_facts as (GGinv & LLinv & S1 & S2 & S3 & S4 & Hr & Hl & S5 & HLr & HT & HE); [lia|].
      rewrite HT.
      apply (cT_interpolates nn no _ _ _ _ S1 S2 S3 S4 Hr Hl m G F LLinv s2s_G_shaped s2s_F_shaped S5 HLr).
  Qed.

  (* C1 for coefficient vectors *)
  Corollary spline2spline_interpolates_vec v : length v = no -> veq (mvec G (mvec T v)) (mvec F v).
  Proof.
    intro Hv. rewrite <- (mvec_mmul_n_gen no G T v Hv). rewrite spline2spline_interpolates. reflexivity.
  Qed.

  (* C2: constrained optimality  GG T - GF = G^T Lambda  with an explicit multiplier matrix *)
  Theorem spline2spline_multiplier : (0 < m)%nat ->
    exists Lambda, shaped m no Lambda /\
      meq (msub (mmul_n no (gGG g) T) (gGF g)) (mmul_n no (mtrans_n nn G) Lambda).
  Proof.
    intro Hm.
    destruct (s2s_some_facts Hm) as (GGinv & LLinv & S1 & S2 & S3 & S4 & Hr & Hl & S5 & HLr & HT & HE).
    exists (cLambda nn no (gGF g) GGinv G F LLinv). split.
    - apply (cLambda_shaped nn no _ _ _ _ S1 S2 S3 S4 Hr Hl m G F LLinv s2s_G_shaped s2s_F_shaped S5 HLr).
    - rewrite HT.
      apply (cT_multiplier nn no _ _ _ _ S1 S2 S3 S4 Hr Hl m G F LLinv s2s_G_shaped s2s_F_shaped S5 HLr).
  Qed.

  (* C2, meaning: the residual moments GG T v - GF v are orthogonal to every element z of the new
     space that vanishes at all the nodes *)
  Theorem spline2spline_constrained_orthogonal v z : (0 < m)%nat ->
    length v = no -> length z = nn -> veq (mvec G z) (repeat 0 m) ->
    dot z (vsub (mvec (gGG g) (mvec T v)) (mvec (gGF g) v)) == 0.
  Proof.
    intros Hm Hv Hz Hvan.
    destruct (s2s_some_facts Hm) as (GGinv & LLinv & S1 & S2 & S3 & S4 & Hr & Hl & S5 & HLr & HT & HE).
    rewrite HT.
    apply (cT_constrained_orthogonal nn no _ _ _ _ S1 S2 S3 S4 Hr Hl m G F LLinv
             s2s_G_shaped s2s_F_shaped S5 HLr v z Hv Hz Hvan).
  Qed.

  Lemma spline2spline_cT_shaped : (0 < m)%nat -> shaped nn no T.
  Proof.
    intro Hm.
    destruct (s2s_some_facts Hm) as (GGinv & LLinv & S1 & S2 & S3 & S4 & Hr & Hl & S5 & HLr & HT & HE).
    rewrite HT.
    apply (cT_shaped nn no _ _ _ _ S1 S2 S3 S4 Hr Hl m G F LLinv s2s_G_shaped s2s_F_shaped S5 HLr).
  Qed.

  (* the error matrix of the constrained branch: x^T E x is half the squared quadrature distance
     between the source spline (coefficients x) and its constrained fit (coefficients T x) *)
  Theorem spline2spline_constrained_error x : (0 < m)%nat -> length x = no ->
    dot x (mvec E x) ==
    (1 # 2) * (dot x (mvec (gFF g) x) - 2 * dot (mvec T x) (mvec (gGF g) x)
               + dot (mvec T x) (mvec (gGG g) (mvec T x))).
  Proof.
    intros Hm Hx. pose proof (spline2spline_cT_shaped Hm) as ST.
    destruct (s2s_some_facts Hm) as (GGinv & LLinv & S1 & S2 & S3 & S4 & Hr & Hl & S5 & HLr & HT & HE).
    rewrite HE at 1. apply (qE_quadratic nn no _ _ _ _ S1 S2 S3 ST x Hx).
  Qed.
End Constrained.

(* ------------------------------------------------------------------ *)
(* GG is a symmetric matrix                                             *)
(* ------------------------------------------------------------------ *)
Lemma dot_evec_l c j w : (j < c)%nat -> length w = c -> dot (evec c j) w == nth j w 0.
Proof.
  intros Hj Hw. unfold evec. rewrite <- nth_mvec. apply nth_mvec_ident; assumption.
Qed.

Theorem grams_of_GG_symmetric_mat kold knew g : grams_of kold knew = Ok g ->
  meq (gGG g) (mtrans_n (knpts knew) (gGG g)).
Proof.
  intro H. set (nn := knpts knew).
  destruct (grams_of_shaped _ _ _ H) as (_ & _ & S3). fold nn in S3.
  pose proof (shaped_len _ _ _ S3) as L3.
  apply (meq_ext nn nn); [exact S3|apply shaped_mtrans_n'; exact L3|].
  intros v Hv. apply veq_intro; [vlen|]. rewrite mvec_length, L3. intros i Hi.
  rewrite (nth_mvec (mtrans_n nn (gGG g))), row_mtrans_n by exact Hi.
  rewrite <- (dot_evec_l nn i (mvec (gGG g) v) Hi) by vlen.
  rewrite (grams_of_GG_symmetric kold knew g H (evec nn i) v (evec_length nn i Hi) Hv).
  rewrite (mvec_evec nn nn (gGG g) i S3 Hi). apply dot_sym.
Qed.

(* ------------------------------------------------------------------ *)
(* D. Examples: the hypotheses are satisfiable                           *)
(* ------------------------------------------------------------------ *)
Definition ex_kold : kv := mkkv [0; 0; 0; 1 # 2; 1; 1; 1] 2.
Definition ex_knew : kv := mkkv [0; 0; 0; 1; 1; 1] 2.
Definition unwrap {A} (d : A) (r : res A) : A := match r with Ok a => a | Err _ => d end.

Definition ex_g : grams := unwrap (mkgr [] [] []) (grams_of ex_kold ex_knew).
Definition ex_TE : mat * mat := unwrap ([], []) (spline2spline ex_kold ex_knew None).
Definition ex_TEc : mat * mat := unwrap ([], []) (spline2spline ex_kold ex_knew (Some [0; 1])).
Definition ex_F : mat := unwrap [] (mapM (basis_row ex_kold 2) [0; 1]).
Definition ex_G : mat := unwrap [] (mapM (basis_row ex_knew 2) [0; 1]).

Example ex_grams : grams_of ex_kold ex_knew = Ok ex_g.
Proof. vm_compute. reflexivity. Qed.
Example ex_none : spline2spline ex_kold ex_knew None = Ok (fst ex_TE, snd ex_TE).
Proof. vm_compute. reflexivity. Qed.
Example ex_some : spline2spline ex_kold ex_knew (Some [0; 1]) = Ok (fst ex_TEc, snd ex_TEc).
Proof. vm_compute. reflexivity. Qed.
Example ex_F_ok : mapM (basis_row ex_kold (kdeg ex_kold)) [0; 1] = Ok ex_F.
Proof. vm_compute. reflexivity. Qed.
Example ex_G_ok : mapM (basis_row ex_knew (kdeg ex_knew)) [0; 1] = Ok ex_G.
Proof. vm_compute. reflexivity. Qed.

(* B1, B2 on the example *)
Example ex_normal_equations : meq (mmul_n 4 (gGG ex_g) (fst ex_TE)) (gGF ex_g).
Proof. exact (spline2spline_normal_equations ex_kold ex_knew _ _ ex_g ex_none ex_grams). Qed.

Example ex_pythagoras x : length x = 4%nat ->
  dot x (mvec (snd ex_TE) x)
  == dot x (mvec (gFF ex_g) x) - dot (mvec (fst ex_TE) x) (mvec (gGG ex_g) (mvec (fst ex_TE) x)).
Proof.
  apply (spline2spline_error_pythagoras ex_kold ex_knew _ _ ex_g ex_none ex_grams x).
  vm_compute. lia.
Qed.

(* B3 (ii) on the example: the new space (one quadratic Bezier span) is contained in the old one
   (knot 1/2 inserted): G(u) = S F(u) with S the transposed Boehm matrix *)
Definition ex_S : mat := [[1; 1 # 2; 0; 0]; [0; 1 # 2; 1 # 2; 0]; [0; 0; 1 # 2; 1]].

Definition ex_nodes_check : bool :=
  forallb (fun u => match basis_row ex_kold 2 u, basis_row ex_knew 2 u with
                    | Ok f, Ok gk => ql_eqb gk (mvec ex_S f)
                    | _, _ => false
                    end) (quad_nodes ex_kold ex_knew).

Example ex_nodes_check_true : ex_nodes_check = true /\ length (quad_nodes ex_kold ex_knew) = 14%nat.
Proof. vm_compute. split; reflexivity. Qed.

Example ex_left_inverse : meq (mmul_n 3 (fst ex_TE) (mtrans_n 4 ex_S)) (ident 3).
Proof.
  apply (spline2spline_left_inverse ex_kold ex_knew _ _ ex_g ex_none ex_grams ex_S).
  - split; [reflexivity|]. repeat constructor.
  - intros u f gk Hu Hf Hgk. destruct ex_nodes_check_true as [Hc _].
    unfold ex_nodes_check in Hc. rewrite forallb_forall in Hc. specialize (Hc u Hu).
    change (kdeg ex_kold) with 2%nat in Hf. change (kdeg ex_knew) with 2%nat in Hgk.
    rewrite Hf, Hgk in Hc. apply ql_eqb_sound. exact Hc.
Qed.

(* C1, C2 on the example *)
Example ex_interpolates : meq (mmul_n 4 ex_G (fst ex_TEc)) ex_F.
Proof.
  exact (spline2spline_interpolates ex_kold ex_knew [0; 1] _ _ ex_g ex_F ex_G ex_some ex_grams ex_F_ok ex_G_ok).
Qed.

Example ex_multiplier : exists Lambda, shaped 2 4 Lambda /\
  meq (msub (mmul_n 4 (gGG ex_g) (fst ex_TEc)) (gGF ex_g)) (mmul_n 4 (mtrans_n 3 ex_G) Lambda).
Proof.
  apply (spline2spline_multiplier ex_kold ex_knew [0; 1] _ _ ex_g ex_F ex_G ex_some ex_grams ex_F_ok ex_G_ok).
  cbn. lia.
Qed.

(* A on an example: 5 nodes, 4 basis functions *)
Definition ex_nodesA : list Q := [0; 1 # 4; 1 # 2; 3 # 4; 1].
Definition ex_M : mat := unwrap [] (fit_function ex_kold ex_nodesA None).
Definition ex_B : mat := unwrap [] (mapM (rbasis_row ex_kold None 2) ex_nodesA).
Example ex_fit : fit_function ex_kold ex_nodesA None = Ok ex_M.
Proof. vm_compute. reflexivity. Qed.
Example ex_B_ok : mapM (rbasis_row ex_kold None (kdeg ex_kold)) ex_nodesA = Ok ex_B.
Proof. vm_compute. reflexivity. Qed.
Example ex_fit_minimal z y : length z = 5%nat -> length y = 4%nat ->
  norm2 (vsub (mvec ex_B (mvec ex_M z)) z) <= norm2 (vsub (mvec ex_B y) z).
Proof. exact (fit_function_minimal ex_kold ex_nodesA None ex_M ex_B I ex_fit ex_B_ok z y). Qed.

(* the error matrix of the unconstrained branch as an action on vectors *)
Theorem spline2spline_error_action kold knew T E g x :
  spline2spline kold knew None = Ok (T, E) -> grams_of kold knew = Ok g ->
  (0 < knpts knew)%nat -> length x = knpts kold ->
  veq (mvec E x) (vsub (mvec (gFF g) x) (mvec (mtrans_n (knpts kold) (gGF g)) (mvec T x))).
Proof.
  intros HS Hg Hpos Hx.
  destruct (s2s_none_facts kold knew T E g HS Hg) as (GGinv & S1 & S2 & S3 & S4 & Hr & Hl & HT & HE).
  rewrite (HE Hpos), HT.
  apply (aE_act (knpts knew) (knpts kold) _ _ _ _ S1 S2 S3 S4 Hr Hl x Hx).
Qed.

Print Assumptions fit_function_orthogonal.
Print Assumptions fit_function_minimal.
Print Assumptions fit_function_reproduces.
Print Assumptions fit_function_interpolates.
Print Assumptions fit_function_refuses.
Print Assumptions grams_of_shaped.
Print Assumptions grams_of_GG_symmetric.
Print Assumptions grams_of_GG_symmetric_mat.
Print Assumptions grams_of_transfer.
Print Assumptions spline2spline_normal_equations.
Print Assumptions spline2spline_error_matrix.
Print Assumptions spline2spline_error_pythagoras.
Print Assumptions spline2spline_error_action.
Print Assumptions spline2spline_reproduces.
Print Assumptions spline2spline_refinement.
Print Assumptions spline2spline_left_inverse.
Print Assumptions spline2spline_interpolates.
Print Assumptions spline2spline_multiplier.
Print Assumptions spline2spline_constrained_orthogonal.
Print Assumptions spline2spline_constrained_error.
Print Assumptions spline2spline_refuses.
Print Assumptions ex_left_inverse.
Print Assumptions ex_interpolates.
Print Assumptions ex_multiplier.
