(* Linear independence of B-splines.
   L1  local linear independence on one non-empty span (sequence level, span-local recursion Nloc).
   L2  list level: two coefficient lists with the same function on the range of a WF knot vector are ==. *)
From Coq Require Import QArith Qabs List Lia Lqa Arith Bool Setoid.
From NurbsV Require Import Base.QList Spec.BSpline Spec.KnotSpec Proofs.Local Proofs.BasisTheory
  Proofs.KVProofs Proofs.EvalProofs Proofs.DerivProofs Proofs.UnionProofs.
Import ListNotations.
Open Scope Q_scope.

(* ------------------------------------------------------------------ *)
(* generic helpers                                                     *)
(* ------------------------------------------------------------------ *)
Lemma exists_min3 x y z : 0 < x -> 0 < y -> 0 < z ->
  exists h, 0 < h /\ h <= x /\ h <= y /\ h <= z.
Proof.
  intros X Y Z.
  destruct (Qlt_le_dec x y) as [A|A]; destruct (Qlt_le_dec x z) as [B|B];
    destruct (Qlt_le_dec y z) as [C|C].
  - exists x. repeat split; lra.
  - exists x. repeat split; lra.
  - exists z. repeat split; lra.
  - exists z. repeat split; lra.
  - exists y. repeat split; lra.
  - exists y. repeat split; lra.
  - exists y. repeat split; lra.
  - exists z. repeat split; lra.
Qed.

Lemma small_h a b M : 0 < a -> 0 < b -> 0 <= M ->
  exists h, 0 < h /\ h <= 1 /\ h < b /\ h * M < a.
Proof.
  intros A B HM.
  assert (H0 : 0 < a / (2 * (M + 1))) by (apply Qlt_shift_div_l; lra).
  assert (Hmul : a / (2 * (M + 1)) * (M + 1) == a / 2) by (field; lra).
  set (h0 := a / (2 * (M + 1))) in *.
  destruct (exists_min3 1 (b / 2) h0) as (h & P1 & P2 & P3 & P4); try lra.
  { apply Qlt_shift_div_l; lra. }
  exists h. repeat split; try lra.
  - assert (b / 2 < b). { apply Qlt_shift_div_r; lra. } lra.
  - assert (h * M <= h0 * M) by (apply Qmult_le_compat_r; assumption).
    assert (h0 * M <= h0 * (M + 1)) by nra.
    assert (a / 2 < a). { apply Qlt_shift_div_r; lra. } lra.
Qed.

Lemma qsum_single (f : nat -> Q) s n : (s < n)%nat ->
  (forall k, k <> s -> f k == 0) -> qsum (map f (seq 0 n)) == f s.
Proof.
  intros Hn Hz.
  assert (En : n = (s + (1 + (n - S s)))%nat) by lia. rewrite En.
  rewrite !seq_app, !map_app, !qsum_app. cbn [seq map qsum].
  rewrite (qsum_map_zero f (seq 0 s)) by (intros k Hk; apply in_seq in Hk; apply Hz; lia).
  rewrite (qsum_map_zero f (seq (0 + s + 1) (n - S s))) by (intros k Hk; apply in_seq in Hk; apply Hz; lia).
  cbn [Nat.add]. ring.
Qed.

(* ------------------------------------------------------------------ *)
(* L1                                                                  *)
(* ------------------------------------------------------------------ *)
Section Local.
Variable U : nat -> Q.
Hypothesis HU : mono U.
Variable s : nat.
Hypothesis Hs : U s < U (S s).

Definition Fsum (p : nat) (c : nat -> Q) (l : list nat) (u : Q) : Q :=
  qsum (map (fun i => Nloc U s p i u * c i) l).
Definition Dsum (p : nat) (c : nat -> Q) (l : list nat) (u : Q) : Q :=
  qsum (map (fun i => dNloc U s p i u * c i) l).
Definition Rsum (p : nat) (c : nat -> Q) (l : list nat) (u h : Q) : Q :=
  qsum (map (fun i => rem U s p i u h * c i) l).

Lemma Fsum_taylor p c l u h :
  Fsum p c l (u + h) == Fsum p c l u + h * Dsum p c l u + h * h * Rsum p c l u h.
Proof.
  unfold Fsum, Dsum, Rsum. induction l as [|x l IH]; cbn [map qsum].
  - ring.
  - rewrite IH. rewrite (Nloc_taylor U s u h p x). ring.
Qed.

Lemma Rsum_bounded p c l u :
  exists M, 0 <= M /\ forall h, Qabs h <= 1 -> Qabs (Rsum p c l u h) <= M.
Proof.
  unfold Rsum. induction l as [|x l IH]; cbn [map qsum].
  - exists 0. split; [lra|]. intros h _. cbn. lra.
  - destruct IH as (M1 & P1 & B1). destruct (rem_bounded U s u p x) as (M0 & P0 & B0).
    exists (Qabs (c x) * M0 + M1). split.
    + pose proof (Qabs_nonneg (c x)). assert (0 <= Qabs (c x) * M0) by (apply Qmult_le_0_compat; lra). lra.
    + intros h Hh. apply abs_add; [|apply B1; exact Hh].
      rewrite (Qmult_comm (rem U s p x u h) (c x)). apply abs_mul. apply B0. exact Hh.
Qed.

(* (a) the formal derivative of a span polynomial that vanishes on the span vanishes there *)
Lemma deriv_zero p c l :
  (forall u, U s <= u -> u < U (S s) -> Fsum p c l u == 0) ->
  forall u, U s <= u -> u < U (S s) -> Dsum p c l u == 0.
Proof.
  intros HF u A B.
  destruct (Rsum_bounded p c l u) as (M & PM & BM).
  assert (Key : forall h, 0 < h -> h <= 1 -> h < U (S s) - u ->
            Dsum p c l u == - (h * Rsum p c l u h) /\ - M <= Rsum p c l u h /\ Rsum p c l u h <= M).
  { intros h H0 H1 H2. split.
    - pose proof (Fsum_taylor p c l u h) as T.
      rewrite (HF u A B) in T. rewrite (HF (u + h)) in T by lra.
      assert (E : h * (Dsum p c l u + h * Rsum p c l u h) == 0) by (rewrite T; ring).
      apply Qmult_integral in E. destruct E as [E|E]; [lra|]. lra.
    - assert (Hh : Qabs h <= 1) by (rewrite Qabs_pos; lra).
      specialize (BM h Hh). apply Qabs_Qle_condition in BM. exact BM. }
  destruct (Q_dec (Dsum p c l u) 0) as [[L|L]|E]; [exfalso | exfalso | exact E].
  - destruct (small_h (- Dsum p c l u) (U (S s) - u) M) as (h & H0 & H1 & H2 & H3); try lra.
    destruct (Key h H0 H1 H2) as (E & R1 & R2).
    assert (0 <= h * (M - Rsum p c l u h)) by (apply Qmult_le_0_compat; lra).
    lra.
  - destruct (small_h (Dsum p c l u) (U (S s) - u) M) as (h & H0 & H1 & H2 & H3); try lra.
    destruct (Key h H0 H1 H2) as (E & R1 & R2).
    assert (0 <= h * (Rsum p c l u h + M)) by (apply Qmult_le_0_compat; lra).
    lra.
Qed.

(* shifting the derivative coefficients by one index *)
Definition shiftc (g : nat -> Q) (i : nat) : Q := match i with O => 0 | S k => g k end.

Lemma inject_nat_pos p : (1 <= p)%nat -> 0 < inject_Z (Z.of_nat p).
Proof.
  intro H. change 0 with (inject_Z 0). rewrite <- Zlt_Qlt. lia.
Qed.

Theorem local_lin_indep : forall p, (p <= s)%nat -> forall n c, (s < n)%nat ->
  (forall u, U s <= u -> u < U (S s) ->
     qsum (map (fun i => Nloc U s p i u * c i) (seq 0 n)) == 0) ->
  forall i, (s - p <= i)%nat -> (i <= s)%nat -> c i == 0.
Proof.
  induction p as [|p IH]; intros Hp n c Hn HF i Hi1 Hi2.
  - (* degree 0: the sum is c s *)
    assert (E : i = s) by lia. rewrite E.
    specialize (HF (U s) ltac:(lra) Hs).
    rewrite (qsum_single (fun i => Nloc U s 0 i (U s) * c i) s n Hn) in HF.
    2:{ intros k Hk. cbn [Nloc]. destruct (Nat.eqb_spec k s); [lia|ring]. }
    cbn [Nloc] in HF. rewrite Nat.eqb_refl in HF. lra.
  - (* step *)
    assert (HD : forall u, U s <= u -> u < U (S s) -> Dsum (S p) c (seq 0 n) u == 0).
    { apply deriv_zero. exact HF. }
    set (dc := dcoef U (S p) c).
    assert (HF' : forall u, U s <= u -> u < U (S s) ->
              qsum (map (fun i => Nloc U s p i u * shiftc dc i) (seq 0 n)) == 0).
    { intros u A B. rewrite <- (HD u A B). unfold Dsum.
      rewrite (deriv_curve_seq U s HU Hs u (S p) n c ltac:(lia) Hp Hn).
      destruct n as [|m]; [lia|]. replace (S m - 1)%nat with m by lia.
      replace (S p - 1)%nat with p by lia.
      cbn [seq map qsum]. rewrite <- seq_shift, map_map. cbn [shiftc]. fold dc. ring. }
    assert (Hdc : forall k, (s - S p <= k)%nat -> (k < s)%nat -> c (S k) == c k).
    { intros k K1 K2.
      pose proof (IH ltac:(lia) n (shiftc dc) Hn HF' (S k) ltac:(lia) ltac:(lia)) as Z.
      cbn [shiftc] in Z. unfold dc, dcoef in Z.
      pose proof (support_pos U s HU Hs p (S k) ltac:(lia) ltac:(lia)) as SP.
      replace (S k + p + 1)%nat with (k + S p + 1)%nat in SP by lia.
      replace (S k) with (k + 1)%nat in SP at 1 by lia.
      pose proof (inject_nat_pos (S p) ltac:(lia)) as PP.
      apply Qmult_integral in Z. destruct Z as [Z|Z].
      - exfalso. unfold Qdiv in Z. apply Qmult_integral in Z. destruct Z as [Z|Z]; [lra|].
        assert (0 < / (U (k + S p + 1)%nat - U (k + 1)%nat)) by (apply Qinv_lt_0_compat; lra).
        lra.
      - lra. }
    assert (Hwin : forall k, (k <= S p)%nat -> c (s - k)%nat == c s).
    { induction k as [|k IHk]; intro K.
      - rewrite Nat.sub_0_r. reflexivity.
      - rewrite <- (IHk ltac:(lia)). rewrite <- (Hdc (s - S k)%nat ltac:(lia) ltac:(lia)).
        replace (S (s - S k)) with (s - k)%nat by lia. reflexivity. }
    assert (Hcs : c s == 0).
    { specialize (HF (U s) ltac:(lra) Hs).
      rewrite (qsum_map_ext _ (fun i => c s * Nloc U s (S p) i (U s))) in HF.
      2:{ intros k _.
          destruct (le_lt_dec (s - S p) k) as [L1|L1]; [destruct (le_lt_dec k s) as [L2|L2]|].
          - rewrite <- (Hwin (s - k)%nat ltac:(lia)). replace (s - (s - k))%nat with k by lia. ring.
          - rewrite (Nloc_zero U s (S p) k (U s)) by lia. ring.
          - rewrite (Nloc_zero U s (S p) k (U s)) by lia. ring. }
      rewrite qsum_map_scale in HF.
      rewrite (Nloc_unity_full U s (U s) HU ltac:(lra) Hs n (S p) Hn Hp) in HF. lra. }
    rewrite <- Hcs. rewrite <- (Hwin (s - i)%nat ltac:(lia)).
    replace (s - (s - i))%nat with i by lia. reflexivity.
Qed.
End Local.

Print Assumptions local_lin_indep.

(* ------------------------------------------------------------------ *)
(* L2: list level                                                      *)
(* ------------------------------------------------------------------ *)
Lemma count_ge_block d x : forall l i m,
  (i + m <= length l)%nat ->
  (forall j, (i <= j < i + m)%nat -> nth j l d == x) -> (m <= count_q x l)%nat.
Proof.
  induction l as [|b t IH]; intros i m Hl H.
  - cbn [length] in Hl. lia.
  - destruct i as [|i].
    + apply (count_ge_prefix d); [|lia]. intros j Hj. apply H. lia.
    + rewrite count_q_cons.
      assert (m <= count_q x t)%nat.
      { apply (IH i m); [cbn [length] in Hl; lia|]. intros j Hj. apply (H (S j)). lia. }
      lia.
Qed.

Lemma wf_support_nonempty U p i : WF U p -> (i + p + 1 < length U)%nat ->
  nthq U i < nthq U (i + p + 1).
Proof.
  intros W Hi. destruct (wf_parts _ _ W) as (Hs & Hl & _ & _).
  destruct (Qlt_le_dec (nthq U i) (nthq U (i + p + 1))) as [L|G]; [exact L|exfalso].
  pose proof (wf_count_le U p W (nthq U i)) as C.
  assert (C' : (p + 2 <= count_q (nthq U i) U)%nat).
  { apply (count_ge_block (last U 0) (nthq U i) U i (p + 2)); [lia|].
    intros j Hj. fold (nthq U j).
    assert (nthq U i <= nthq U j) by (apply sorted_nthq; [exact Hs|lia]).
    assert (nthq U j <= nthq U (i + p + 1)) by (apply sorted_nthq; [exact Hs|lia]).
    lra. }
  lia.
Qed.

Lemma strict_step_exists (V : nat -> Q) i : forall m,
  V i < V (i + m)%nat -> exists s, (i <= s < i + m)%nat /\ V s < V (S s).
Proof.
  induction m as [|m IH]; intro H.
  - rewrite Nat.add_0_r in H. lra.
  - destruct (Qlt_le_dec (V (i + m)%nat) (V (S (i + m)))) as [L|G].
    + exists (i + m)%nat. split; [lia|exact L].
    + replace (i + S m)%nat with (S (i + m)) in H by lia.
      destruct IH as (s & Hs1 & Hs2); [lra|]. exists s. split; [lia|exact Hs2].
Qed.

(* every index lies in the window of a non-empty span *)
Lemma wf_window_span U p i : WF U p -> (i < npts_of U p)%nat ->
  exists s, (p <= s)%nat /\ (s < npts_of U p)%nat /\ (s - p <= i)%nat /\ (i <= s)%nat /\
            nthq U s < nthq U (S s).
Proof.
  intros W Hi. unfold npts_of in *.
  destruct (wf_parts _ _ W) as (Hs & Hl & _ & _).
  pose proof (wf_support_nonempty U p i W ltac:(lia)) as Hsup.
  replace (i + p + 1)%nat with (i + (p + 1))%nat in Hsup by lia.
  destruct (strict_step_exists (nthq U) i (p + 1) Hsup) as (s & S1 & S2).
  exists s.
  assert (p <= s)%nat.
  { destruct (le_lt_dec p s) as [L|L]; [exact L|exfalso].
    pose proof (wf_first_block U p W s ltac:(lia)). pose proof (wf_first_block U p W (S s) ltac:(lia)). lra. }
  assert (s < length U - p - 1)%nat.
  { destruct (le_lt_dec (length U - p - 1) s) as [L|L]; [exfalso|exact L].
    pose proof (wf_last_block U p W s ltac:(lia)). pose proof (wf_last_block U p W (S s) ltac:(lia)). lra. }
  repeat split; try lia; assumption.
Qed.

Lemma qsum_map_sub (f g : nat -> Q) l :
  qsum (map (fun i => f i - g i) l) == qsum (map f l) - qsum (map g l).
Proof. induction l as [|x l IH]; cbn [map qsum]; [ring|]. rewrite IH. ring. Qed.

(* the strong form: agreement strictly below umax is enough *)
Theorem lin_indep_nth U p (P P' : list Q) : WF U p ->
  (forall u, in_range U p u = true -> u < umax_of U p ->
     curve_spec1 U p P u == curve_spec1 U p P' u) ->
  forall i, (i < npts_of U p)%nat -> nth i P 0 == nth i P' 0.
Proof.
  intros W H i Hi.
  destruct (wf_window_span U p i W Hi) as (s & S1 & S2 & S3 & S4 & S5).
  pose proof (wf_mono U p W : mono (nthq U)) as HM.
  set (c := fun k => nth k P 0 - nth k P' 0).
  assert (Z : c i == 0).
  { apply (local_lin_indep (nthq U) HM s S5 p S1 (npts_of U p) c S2); [|exact S3|exact S4].
    intros u A B.
    assert (Hmax : u < nthq U (npts_of U p)).
    { pose proof (Local.mono_le (nthq U) HM (S s) (npts_of U p) ltac:(lia)). lra. }
    assert (Hr : in_range U p u = true).
    { unfold in_range, umin_of, umax_of. fold (npts_of U p). apply andb_true_iff. split; apply Qleb_le.
      - pose proof (Local.mono_le (nthq U) HM p s S1). lra.
      - lra. }
    specialize (H u Hr Hmax). unfold curve_spec1 in H.
    rewrite (qsum_map_ext _ (fun k => Nspec U p p k u * nth k P 0 - Nspec U p p k u * nth k P' 0)).
    2:{ intros k _. unfold c, Nspec.
        rewrite (N_local (nthq U) (npts_of U p) s u HM A B ltac:(lra) p k). ring. }
    rewrite qsum_map_sub. rewrite H. ring. }
  unfold c in Z. lra.
Qed.

Theorem lin_indep_list_strong U p (P P' : list Q) : WF U p ->
  length P = npts_of U p -> length P' = npts_of U p ->
  (forall u, in_range U p u = true -> u < umax_of U p ->
     curve_spec1 U p P u == curve_spec1 U p P' u) ->
  Forall2 Qeq P P'.
Proof.
  intros W LP LQ H. apply Forall2_Qeq_nth; [lia|].
  intros i Hi. apply (lin_indep_nth U p P P' W H). lia.
Qed.

(* L2 as stated *)
Theorem lin_indep_list U p (P P' : list Q) : WF U p ->
  length P = npts_of U p -> length P' = npts_of U p ->
  (forall u, in_range U p u = true -> curve_spec1 U p P u == curve_spec1 U p P' u) ->
  Forall2 Qeq P P'.
Proof.
  intros W LP LQ H. apply (lin_indep_list_strong U p P P' W LP LQ).
  intros u Hr _. apply H. exact Hr.
Qed.

(* the converse is immediate: == coefficient lists give the same function *)
Lemma Forall2_Qeq_nth_elim : forall (a b : list Q), Forall2 Qeq a b ->
  forall i, nth i a 0 == nth i b 0.
Proof.
  induction 1 as [|x y a b Hxy H IH]; intros [|i]; cbn [nth]; try reflexivity; auto.
Qed.

Lemma curve_spec1_proper_coef U p (P P' : list Q) u :
  Forall2 Qeq P P' -> curve_spec1 U p P u == curve_spec1 U p P' u.
Proof.
  intro H. unfold curve_spec1. apply qsum_map_ext. intros i _.
  rewrite (Forall2_Qeq_nth_elim P P' H i). reflexivity.
Qed.

(* ------------------------------------------------------------------ *)
(* vector-valued version                                               *)
(* ------------------------------------------------------------------ *)
Lemma Forall2_map_seq {B} (R : B -> B -> Prop) (f g : nat -> B) : forall d a,
  Forall2 R (map f (seq a d)) (map g (seq a d)) ->
  forall k, (a <= k < a + d)%nat -> R (f k) (g k).
Proof.
  induction d as [|d IH]; intros a H k Hk; [lia|].
  cbn [seq map] in H. inversion H; subst.
  destruct (Nat.eq_dec k a) as [E|E]; [rewrite E; assumption|].
  apply (IH (S a)); [assumption|lia].
Qed.

Lemma Forall2_nth_intro {B} (R : B -> B -> Prop) (da db : B) : forall (a b : list B),
  length a = length b ->
  (forall i, (i < length a)%nat -> R (nth i a da) (nth i b db)) -> Forall2 R a b.
Proof.
  induction a as [|x a IH]; intros [|y b] HL H; try discriminate; constructor.
  - apply (H 0%nat). cbn [length]. lia.
  - apply IH; [cbn [length] in HL; lia|].
    intros i Hi. apply (H (S i)). cbn [length]. lia.
Qed.

Theorem lin_indep_points_strong U p d (P P' : list (list Q)) : WF U p ->
  length P = npts_of U p -> length P' = npts_of U p ->
  Forall (fun x : list Q => length x = d) P -> Forall (fun x : list Q => length x = d) P' ->
  (forall u, in_range U p u = true -> u < umax_of U p ->
     Forall2 Qeq (curve_spec U p d P u) (curve_spec U p d P' u)) ->
  Forall2 (Forall2 Qeq) P P'.
Proof.
  intros W LP LQ DP DQ H.
  apply (Forall2_nth_intro (Forall2 Qeq) [] []); [lia|].
  intros i Hi.
  rewrite Forall_forall in DP, DQ.
  assert (L1 : length (nth i P []) = d) by (apply DP, nth_In; lia).
  assert (L2 : length (nth i P' []) = d) by (apply DQ, nth_In; lia).
  apply Forall2_Qeq_nth; [lia|]. intros k Hk. rewrite L1 in Hk.
  rewrite <- !coord_nth.
  apply (lin_indep_nth U p (coord k P) (coord k P') W); [|lia].
  intros u Hr Hu. specialize (H u Hr Hu). unfold curve_spec in H.
  apply (Forall2_map_seq Qeq _ _ d 0%nat H k). lia.
Qed.

Theorem lin_indep_points U p d (P P' : list (list Q)) : WF U p ->
  length P = npts_of U p -> length P' = npts_of U p ->
  Forall (fun x : list Q => length x = d) P -> Forall (fun x : list Q => length x = d) P' ->
  (forall u, in_range U p u = true ->
     Forall2 Qeq (curve_spec U p d P u) (curve_spec U p d P' u)) ->
  Forall2 (Forall2 Qeq) P P'.
Proof.
  intros W LP LQ DP DQ H. apply (lin_indep_points_strong U p d P P' W LP LQ DP DQ).
  intros u Hr _. apply H. exact Hr.
Qed.

Print Assumptions lin_indep_list.
Print Assumptions lin_indep_points.

(* ------------------------------------------------------------------ *)
(* Non-vacuity                                                         *)
(* ------------------------------------------------------------------ *)
Definition li_U : list Q := [0; 0; 0; 1#2; 1; 1; 1].

Example li_U_wf : WF li_U 2.
Proof. vm_compute. reflexivity. Qed.

Example li_example (P P' : list Q) : length P = 4%nat -> length P' = 4%nat ->
  (forall u, in_range li_U 2 u = true -> curve_spec1 li_U 2 P u == curve_spec1 li_U 2 P' u) ->
  Forall2 Qeq P P'.
Proof. intros LP LQ H. exact (lin_indep_list li_U 2 P P' li_U_wf LP LQ H). Qed.

(* the hypothesis is satisfiable non-trivially: [1;2;3;4] and [2#2;4#2;6#2;8#2] *)
Example li_example_inst : Forall2 Qeq [1; 2; 3; 4] [2#2; 4#2; 6#2; 8#2].
Proof.
  apply li_example; try reflexivity.
  intros u _. apply curve_spec1_proper_coef. repeat constructor.
Qed.
