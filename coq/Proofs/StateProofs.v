(* C15: every curve operation of the model preserves the consistency invariant
   "len(ctrlpoints) = npts = len(knotvector) - degree - 1, len(weights) = npts when present,
    well-formed knot vector", and every reachable state of a history of mutators satisfies it. *)
From Coq Require Import QArith List Lia Lqa Arith Bool.
From NurbsV Require Import Base.QList Base.Res Spec.KnotSpec Gen.Consts Model.KV Model.Basis
  Model.CurveM Model.Ops Model.CurveOps Model.Linalg Model.Quadrature Model.LeastSq Model.CurveLS Model.MathOps
  Proofs.KVProofs Proofs.EvalProofs Proofs.InsertBasic Proofs.InsertCurve Proofs.RemoveBasic
  Proofs.MatProofs Proofs.LSProofs Proofs.BezierProofs.
Import ListNotations.
Open Scope Q_scope.

(* ------------------------------------------------------------------ *)
(* 0. The invariant                                                     *)
(* ------------------------------------------------------------------ *)
Definition uniform (P : list pt) : Prop := Forall (fun q : pt => length q = pdim P) P.

Definition Inv (c : curve) : Prop :=
  WF (kvec (ckv c)) (kdeg (ckv c))
  /\ (forall P, cP c = Some P -> length P = cnpts c /\ Forall (fun q : pt => length q = pdim P) P)
  /\ (forall W, cW c = Some W -> length W = cnpts c).

(* weights are only carried by curves that have control points (needed by c_update, see I2) *)
Definition Wdep (c : curve) : Prop := cP c = None -> cW c = None.
Definition Inv2 (c : curve) : Prop := Inv c /\ Wdep c.

Lemma Inv_mk k oP oW :
  WF (kvec k) (kdeg k) ->
  (forall P, oP = Some P -> length P = knpts k /\ uniform P) ->
  (forall W, oW = Some W -> length W = knpts k) ->
  Inv (mkcurve k oP oW).
Proof. intros H1 H2 H3. split; [exact H1|]. split; [exact H2 | exact H3]. Qed.

Lemma Inv_wf c : Inv c -> WF (kvec (ckv c)) (kdeg (ckv c)).
Proof. intros (H & _ & _). exact H. Qed.
Lemma Inv_P c P : Inv c -> cP c = Some P -> length P = cnpts c /\ uniform P.
Proof. intros (_ & H & _) E. exact (H P E). Qed.
Lemma Inv_W c W : Inv c -> cW c = Some W -> length W = cnpts c.
Proof. intros (_ & _ & H) E. exact (H W E). Qed.

(* ------------------------------------------------------------------ *)
(* 1. Shapes of point lists                                             *)
(* ------------------------------------------------------------------ *)
Lemma uniform_of_Forall d (P : list pt) : Forall (fun q : pt => length q = d) P -> uniform P.
Proof.
  unfold uniform. destruct P as [|a P]; intro H; [constructor|].
  inversion H; subst. cbn [pdim]. exact H.
Qed.

Lemma mat_apply_uniform M (P : list pt) : uniform P -> uniform (mat_apply M P).
Proof.
  intro H. apply (uniform_of_Forall (pdim P)).
  apply mat_apply_dims; [exact H | reflexivity].
Qed.

Lemma wunscale_dims d : forall (Wl : list Q) (Pl : list pt),
  Forall (fun q : pt => length q = d) Pl -> Forall (fun q : pt => length q = d) (wunscale Wl Pl).
Proof.
  intros Wl Pl HP. revert Wl.
  induction HP as [|a Pl Ha HP IH]; intros [|w Wl]; cbn [wunscale map2]; try constructor.
  - unfold vscale. rewrite map_length. exact Ha.
  - apply IH.
Qed.

Lemma wunscale_length (Wl : list Q) (Pl : list pt) : length Wl = length Pl ->
  length (wunscale Wl Pl) = length Wl.
Proof. intro H. unfold wunscale. rewrite map2_length, H. apply Nat.min_id. Qed.

Lemma rational_points_shape M (W : list Q) (P : list pt) :
  uniform P ->
  length (wunscale (mvec M W) (mat_apply M (wscale W P))) = length M
  /\ uniform (wunscale (mvec M W) (mat_apply M (wscale W P))).
Proof.
  intro HP. split.
  - rewrite wunscale_length; rewrite mvec_length; [reflexivity|].
    rewrite mat_apply_length. reflexivity.
  - apply (uniform_of_Forall (pdim (wscale W P))). apply wunscale_dims.
    apply mat_apply_dims; [|reflexivity].
    apply (uniform_of_Forall (pdim P)). apply wscale_dims. exact HP.
Qed.

Lemma map_uniform (f : pt -> pt) (P : list pt) :
  (forall q, length (f q) = length q) -> uniform P -> uniform (map f P).
Proof.
  intros Hf HP. apply (uniform_of_Forall (pdim P)).
  apply Forall_forall. intros q Hq. apply in_map_iff in Hq. destruct Hq as (r & E & Hr).
  subst q. rewrite Hf. unfold uniform in HP. rewrite Forall_forall in HP. apply HP. exact Hr.
Qed.

(* ------------------------------------------------------------------ *)
(* 2. apply_matrix                                                      *)
(* ------------------------------------------------------------------ *)
Lemma apply_matrix_Inv c k' M c' :
  Inv c -> WF (kvec k') (kdeg k') -> apply_matrix c k' M = Ok c' -> Inv c'.
Proof.
  intros HI W H. unfold apply_matrix in H.
  destruct (cP c) as [P|] eqn:EP; destruct (cW c) as [Wt|] eqn:EW.
  - (* points and weights *)
    destruct (Nat.eqb_spec (length M) (knpts k')) as [L|L]; cbn [negb] in H; [|discriminate].
    destruct (existsb (fun w => Qeqb w 0) (mvec M Wt)); [discriminate|].
    inversion H; subst c'; clear H. cbn [option_map].
    destruct (Inv_P _ _ HI EP) as [_ HU].
    destruct (rational_points_shape M Wt P HU) as [A B].
    apply Inv_mk; [exact W| |].
    + intros P0 E. inversion E; subst P0. split; [rewrite A; exact L | exact B].
    + intros W0 E. inversion E; subst W0. rewrite mvec_length. exact L.
  - (* points only *)
    destruct (Nat.eqb_spec (length M) (knpts k')) as [L|L]; cbn [negb] in H; [|discriminate].
    inversion H; subst c'; clear H. cbn [option_map].
    destruct (Inv_P _ _ HI EP) as [_ HU].
    apply Inv_mk; [exact W| |].
    + intros P0 E. inversion E; subst P0. split.
      * rewrite mat_apply_length. exact L.
      * apply mat_apply_uniform. exact HU.
    + intros W0 E. discriminate.
  - (* weights only *)
    destruct (Nat.eqb_spec (length M) (knpts k')) as [L|L]; cbn [negb] in H; [|discriminate].
    destruct (existsb (fun w => Qeqb w 0) (mvec M Wt)); [discriminate|].
    inversion H; subst c'; clear H. cbn [option_map].
    apply Inv_mk; [exact W| |].
    + intros P0 E. discriminate.
    + intros W0 E. inversion E; subst W0. rewrite mvec_length. exact L.
  - inversion H; subst c'; clear H.
    apply Inv_mk; [exact W| |]; intros ? E; discriminate.
Qed.

Lemma apply_matrix_Wdep c k' M c' : Wdep c -> apply_matrix c k' M = Ok c' -> Wdep c'.
Proof.
  unfold Wdep. intros HD H. unfold apply_matrix in H.
  destruct (cP c) as [P|] eqn:EP.
  - assert (exists P', cP c' = Some P') as (P' & E').
    { destruct (cW c) as [Wt|];
        destruct (negb (length M =? knpts k')%nat); try discriminate.
      - destruct (existsb (fun w => Qeqb w 0) (mvec M Wt)); [discriminate|].
        inversion H; subst c'. eexists; reflexivity.
      - inversion H; subst c'. eexists; reflexivity. }
    intro E. rewrite E in E'. discriminate.
  - rewrite (HD eq_refl) in H. inversion H; subst c'. intros _. reflexivity.
Qed.

(* ------------------------------------------------------------------ *)
(* I1. knot insertion                                                   *)
(* ------------------------------------------------------------------ *)
Theorem I1_knot_insert c ns c' : Inv c -> c_knot_insert c ns = Ok c' -> Inv c'.
Proof.
  intros HI H. destruct (c_knot_insert_inv _ _ _ H) as (k' & M & EK & _ & EA).
  exact (apply_matrix_Inv _ _ _ _ HI (kinsert_wf _ _ _ EK) EA).
Qed.

Lemma knot_insert_Wdep c ns c' : Wdep c -> c_knot_insert c ns = Ok c' -> Wdep c'.
Proof.
  intros HD H. destruct (c_knot_insert_inv _ _ _ H) as (k' & M & _ & _ & EA).
  exact (apply_matrix_Wdep _ _ _ _ HD EA).
Qed.

(* ------------------------------------------------------------------ *)
(* 3. The projection matrix has one row per new control point           *)
(* ------------------------------------------------------------------ *)
Lemma madd_length A B : length (madd A B) = Nat.min (length A) (length B).
Proof. apply map2_length. Qed.
Lemma msub_length A B : length (msub A B) = Nat.min (length A) (length B).
Proof. apply map2_length. Qed.

Lemma GGinv_length kold knew g GGinv :
  grams_of kold knew = Ok g -> invert (gGG g) = Ok GGinv -> length GGinv = knpts knew.
Proof.
  intros Hg Hi. destruct (grams_of_shaped _ _ _ Hg) as (_ & _ & S3).
  destruct (invert_facts (knpts knew) _ _ Hi (shaped_len _ _ _ S3)) as (_ & S4 & _).
  exact (shaped_len _ _ _ S4).
Qed.

Lemma spline2spline_T_rows kold knew fit T E :
  spline2spline kold knew fit = Ok (T, E) -> length T = knpts knew.
Proof.
  destruct fit as [ns|]; intro H.
  - destruct (s2s_some_unfold _ _ _ _ _ H) as (_ & g & GGinv & F & G & LLinv & Hg & Hi & _ & _ & _ & HT & _).
    pose proof (GGinv_length _ _ _ _ Hg Hi) as L.
    rewrite HT. unfold model_cT. cbv zeta.
    rewrite madd_length, !BezierProofs.mmul_length, msub_length, BezierProofs.mmul_length, L.
    rewrite !Nat.min_id. reflexivity.
  - destruct (s2s_none_unfold _ _ _ _ H) as (g & GGinv & Hg & Hi & HT & _).
    rewrite HT, BezierProofs.mmul_length. exact (GGinv_length _ _ _ _ Hg Hi).
Qed.

Lemma c_fit_curve_shape knew c nodes P' err :
  Inv c -> c_fit_curve knew c nodes = Ok (P', err) ->
  length P' = knpts knew /\ uniform P'.
Proof.
  intros HI H. unfold c_fit_curve in H.
  destruct (cW c); [discriminate|].
  destruct (cP c) as [P|] eqn:EP; [|discriminate].
  destruct (spline2spline (ckv c) knew nodes) as [[T E]|] eqn:ES; cbn [bind] in H; [|discriminate].
  inversion H; subst P' err. split.
  - rewrite mat_apply_length. exact (spline2spline_T_rows _ _ _ _ _ ES).
  - apply mat_apply_uniform. exact (proj2 (Inv_P _ _ HI EP)).
Qed.

(* ------------------------------------------------------------------ *)
(* I2. update, knot removal, degree decrease                            *)
(* ------------------------------------------------------------------ *)
(* As written in the brief (without Wdep) the statement is FALSE: for a curve with weights but
   no control points, c_update rebinds the knot vector and keeps the old weights
   (see I2_counterexample below).  The corrected statement carries Wdep c. *)
Theorem I2_update c knew tol nodes c' :
  Inv c -> Wdep c -> c_update c knew tol nodes = Ok c' -> WF (kvec knew) (kdeg knew) -> Inv c'.
Proof.
  intros HI HD H W. unfold c_update in H.
  destruct (kv_eqb knew (ckv c)); [inversion H; subst c'; exact HI|].
  destruct (cP c) as [P|] eqn:EP.
  - destruct (negb (limits_eqb (ckv c) knew)); [discriminate|].
    destruct (c_fit_curve knew c nodes) as [[P' err]|] eqn:EF; cbn [bind] in H; [|discriminate].
    destruct (c_fit_curve_shape _ _ _ _ _ HI EF) as [A B].
    assert (G : Inv (mkcurve knew (Some P') None)).
    { apply Inv_mk; [exact W| |].
      - intros P0 E. inversion E; subst P0. split; assumption.
      - intros W0 E. discriminate. }
    destruct tol as [t|].
    + destruct (negb (Qeqb t 0) && Qltb t err); [discriminate|]. inversion H; subst c'. exact G.
    + inversion H; subst c'. exact G.
  - inversion H; subst c'. rewrite (HD EP).
    apply Inv_mk; [exact W| |]; intros ? E; discriminate.
Qed.

(* polynomial form asked in the brief *)
Corollary I2_update_poly c knew tol nodes c' :
  Inv c -> cW c = None -> c_update c knew tol nodes = Ok c' -> WF (kvec knew) (kdeg knew) -> Inv c'.
Proof. intros HI HW. apply I2_update; [exact HI|]. intros _. exact HW. Qed.

Lemma update_Wdep c knew tol nodes c' : Wdep c -> c_update c knew tol nodes = Ok c' -> Wdep c'.
Proof.
  unfold Wdep. intros HD H. unfold c_update in H.
  destruct (kv_eqb knew (ckv c)); [inversion H; subst c'; exact HD|].
  destruct (cP c) as [P|] eqn:EP.
  - destruct (negb (limits_eqb (ckv c) knew)); [discriminate|].
    destruct (c_fit_curve knew c nodes) as [[P' err]|]; cbn [bind] in H; [|discriminate].
    destruct tol as [t|].
    + destruct (negb (Qeqb t 0) && Qltb t err); [discriminate|]. inversion H; subst c'. reflexivity.
    + inversion H; subst c'. reflexivity.
  - inversion H; subst c'. cbn. intros _. exact (HD eq_refl).
Qed.

(* the counterexample to the unguarded statement *)
Definition cx_bad : curve := mkcurve (mkkv [0; 0; 1#2; 1; 1] 1) None (Some [1; 1; 1]).
Definition cx_knew : kv := mkkv [0; 0; 1; 1] 1.
Example I2_counterexample :
  Inv cx_bad /\ WF (kvec cx_knew) (kdeg cx_knew) /\
  exists c', c_update cx_bad cx_knew None None = Ok c' /\ ~ Inv c'.
Proof.
  split; [|split].
  - apply Inv_mk; [vm_compute; reflexivity| |].
    + intros ? E; discriminate.
    + intros W0 E. inversion E. reflexivity.
  - vm_compute. reflexivity.
  - eexists. split; [vm_compute; reflexivity|].
    intros (_ & _ & H). specialize (H _ eq_refl). vm_compute in H. discriminate.
Qed.

Theorem I2_knot_remove c ns tol c' : Inv c -> Wdep c -> c_knot_remove c ns tol = Ok c' -> Inv c'.
Proof.
  intros HI HD H. unfold c_knot_remove in H.
  destruct (kremove (ckv c) ns) as [knew|] eqn:K; cbn [bind] in H; [|discriminate].
  exact (I2_update _ _ _ _ _ HI HD H (kremove_wf _ _ _ K)).
Qed.

Lemma knot_remove_Wdep c ns tol c' : Wdep c -> c_knot_remove c ns tol = Ok c' -> Wdep c'.
Proof.
  intros HD H. unfold c_knot_remove in H.
  destruct (kremove (ckv c) ns) as [knew|] eqn:K; cbn [bind] in H; [|discriminate].
  exact (update_Wdep _ _ _ _ _ HD H).
Qed.

Theorem I2_degree_decrease c t tol c' : Inv c -> Wdep c -> c_degree_decrease c t tol = Ok c' -> Inv c'.
Proof.
  intros HI HD H. unfold c_degree_decrease in H.
  destruct (Nat.eqb t 0); [discriminate|].
  destruct (kdeg (ckv c) <? t)%nat; [discriminate|].
  destruct (kset_degree (ckv c) (kdeg (ckv c) - t)) as [knew|] eqn:K; cbn [bind] in H; [|discriminate].
  exact (I2_update _ _ _ _ _ HI HD H (kset_degree_wf _ _ _ (Inv_wf _ HI) K)).
Qed.

Lemma degree_decrease_Wdep c t tol c' : Wdep c -> c_degree_decrease c t tol = Ok c' -> Wdep c'.
Proof.
  intros HD H. unfold c_degree_decrease in H.
  destruct (Nat.eqb t 0); [discriminate|].
  destruct (kdeg (ckv c) <? t)%nat; [discriminate|].
  destruct (kset_degree (ckv c) (kdeg (ckv c) - t)) as [knew|] eqn:K; cbn [bind] in H; [|discriminate].
  exact (update_Wdep _ _ _ _ _ HD H).
Qed.

(* ------------------------------------------------------------------ *)
(* I3. degree increase, set_degree                                      *)
(* ------------------------------------------------------------------ *)
Theorem I3_degree_increase c t c' : Inv c -> c_degree_increase c t = Ok c' -> Inv c'.
Proof.
  intros HI H. unfold c_degree_increase in H.
  destruct (Nat.eqb t 0); [discriminate|].
  destruct (kinsert (ckv c) (repeat_list t (kknots (ckv c)))) as [knew|] eqn:K; cbn [bind] in H; [|discriminate].
  destruct (op_degree_increase (ckv c) t) as [M|]; cbn [bind] in H; [|discriminate].
  exact (apply_matrix_Inv _ _ _ _ HI (kinsert_wf _ _ _ K) H).
Qed.

Lemma degree_increase_Wdep c t c' : Wdep c -> c_degree_increase c t = Ok c' -> Wdep c'.
Proof.
  intros HD H. unfold c_degree_increase in H.
  destruct (Nat.eqb t 0); [discriminate|].
  destruct (kinsert (ckv c) (repeat_list t (kknots (ckv c)))) as [knew|]; cbn [bind] in H; [|discriminate].
  destruct (op_degree_increase (ckv c) t) as [M|]; cbn [bind] in H; [|discriminate].
  exact (apply_matrix_Wdep _ _ _ _ HD H).
Qed.

Theorem I3_set_degree c d c' : Inv c -> Wdep c -> c_set_degree c d = Ok c' -> Inv c'.
Proof.
  intros HI HD H. unfold c_set_degree in H. cbv zeta in H.
  destruct (Nat.eqb d (kdeg (ckv c))); [inversion H; subst c'; exact HI|].
  destruct (kdeg (ckv c) <? d)%nat.
  - exact (I3_degree_increase _ _ _ HI H).
  - exact (I2_degree_decrease _ _ _ _ HI HD H).
Qed.

Lemma set_degree_Wdep c d c' : Wdep c -> c_set_degree c d = Ok c' -> Wdep c'.
Proof.
  intros HD H. unfold c_set_degree in H. cbv zeta in H.
  destruct (Nat.eqb d (kdeg (ckv c))); [inversion H; subst c'; exact HD|].
  destruct (kdeg (ckv c) <? d)%nat.
  - exact (degree_increase_Wdep _ _ _ HD H).
  - exact (degree_decrease_Wdep _ _ _ _ HD H).
Qed.

(* ------------------------------------------------------------------ *)
(* I4. the cleaning loops                                               *)
(* ------------------------------------------------------------------ *)
Lemma Inv2_intro c : Inv c -> Wdep c -> Inv2 c.
Proof. intros A B. split; assumption. Qed.

Theorem I4_remove_while : forall fuel c x tol, Inv2 c -> Inv2 (remove_while fuel c x tol).
Proof.
  induction fuel as [|f IH]; intros c x tol HI; cbn [remove_while]; [exact HI|].
  destruct (c_knot_remove c [x] tol) as [c'|] eqn:E; [|exact HI].
  apply IH. destruct HI as [HI HD]. split.
  - exact (I2_knot_remove _ _ _ _ HI HD E).
  - exact (knot_remove_Wdep _ _ _ _ HD E).
Qed.

Theorem I4_decrease_while : forall fuel c tol, Inv2 c -> Inv2 (decrease_while fuel c tol).
Proof.
  induction fuel as [|f IH]; intros c tol HI; cbn [decrease_while]; [exact HI|].
  destruct (c_degree_decrease c 1 (Some tol)) as [c'|] eqn:E; [|exact HI].
  apply IH. destruct HI as [HI HD]. split.
  - exact (I2_degree_decrease _ _ _ _ HI HD E).
  - exact (degree_decrease_Wdep _ _ _ _ HD E).
Qed.

Lemma fold_remove_while_Inv2 tol : forall ns c, Inv2 c ->
  Inv2 (fold_left (fun cc x => remove_while (length (kvec (ckv cc))) cc x (Some tol)) ns c).
Proof.
  induction ns as [|x ns IH]; intros c HI; cbn [fold_left]; [exact HI|].
  apply IH. apply I4_remove_while. exact HI.
Qed.

Theorem I4_knot_clean c nodes tol c' : Inv2 c -> c_knot_clean c nodes tol = Ok c' -> Inv2 c'.
Proof.
  intros HI H. unfold c_knot_clean in H.
  destruct (Qltb tol 0); [discriminate|]. cbv zeta in H.
  inversion H; subst c'. apply fold_remove_while_Inv2. exact HI.
Qed.

Theorem I4_degree_clean c tol c' : Inv2 c -> c_degree_clean c tol = Ok c' -> Inv2 c'.
Proof.
  intros HI H. unfold c_degree_clean in H.
  destruct (Qltb tol 0); [discriminate|].
  assert (E : c' = decrease_while (S (kdeg (ckv c))) c tol) by congruence.
  rewrite E. apply I4_decrease_while. exact HI.
Qed.

Theorem I4_clean c tol c' : Inv2 c -> c_clean c tol = Ok c' -> Inv2 c'.
Proof.
  intros HI H. unfold c_clean in H.
  destruct (c_degree_clean c tol) as [c1|] eqn:E; cbn [bind] in H; [|discriminate].
  exact (I4_knot_clean _ _ _ _ (I4_degree_clean _ _ _ HI E) H).
Qed.

(* the Inv-only readings for polynomial curves *)
Lemma poly_Inv2 c : Inv c -> cW c = None -> Inv2 c.
Proof. intros HI HW. split; [exact HI|]. intros _. exact HW. Qed.

Corollary I4_remove_while_poly fuel c x tol : Inv c -> cW c = None -> Inv (remove_while fuel c x tol).
Proof. intros HI HW. exact (proj1 (I4_remove_while fuel c x tol (poly_Inv2 _ HI HW))). Qed.
Corollary I4_decrease_while_poly fuel c tol : Inv c -> cW c = None -> Inv (decrease_while fuel c tol).
Proof. intros HI HW. exact (proj1 (I4_decrease_while fuel c tol (poly_Inv2 _ HI HW))). Qed.
Corollary I4_knot_clean_poly c nodes tol c' :
  Inv c -> cW c = None -> c_knot_clean c nodes tol = Ok c' -> Inv c'.
Proof. intros HI HW H. exact (proj1 (I4_knot_clean _ _ _ _ (poly_Inv2 _ HI HW) H)). Qed.
Corollary I4_degree_clean_poly c tol c' :
  Inv c -> cW c = None -> c_degree_clean c tol = Ok c' -> Inv c'.
Proof. intros HI HW H. exact (proj1 (I4_degree_clean _ _ _ (poly_Inv2 _ HI HW) H)). Qed.
Corollary I4_clean_poly c tol c' : Inv c -> cW c = None -> c_clean c tol = Ok c' -> Inv c'.
Proof. intros HI HW H. exact (proj1 (I4_clean _ _ _ (poly_Inv2 _ HI HW) H)). Qed.

(* ------------------------------------------------------------------ *)
(* 4. pointwise maps (negation, scalar forms) keep the shape            *)
(* ------------------------------------------------------------------ *)
Lemma map_points_Inv2 f c c' : (forall q, length (f q) = length q) ->
  Inv2 c -> map_points f c = Ok c' -> Inv2 c'.
Proof.
  intros Hf [HI HD] H. unfold map_points in H.
  destruct (cP c) as [P|] eqn:EP; [|discriminate].
  inversion H; subst c'. destruct (Inv_P _ _ HI EP) as [A B]. split.
  - apply Inv_mk; [exact (Inv_wf _ HI)| |].
    + intros P0 E. inversion E; subst P0. split; [rewrite map_length; exact A|].
      apply map_uniform; assumption.
    + intros W0 E. exact (Inv_W _ _ HI E).
  - intro E. discriminate.
Qed.

Lemma vscale_length s q : length (vscale s q) = length q.
Proof. apply map_length. Qed.

Lemma neg_Inv2 c c' : Inv2 c -> c_neg c = Ok c' -> Inv2 c'.
Proof. apply map_points_Inv2. apply vscale_length. Qed.
Lemma mul_scalar_Inv2 c s c' : Inv2 c -> c_mul_scalar c s = Ok c' -> Inv2 c'.
Proof. apply map_points_Inv2. apply vscale_length. Qed.
Lemma div_scalar_Inv2 c s c' : Inv2 c -> c_div_scalar c s = Ok c' -> Inv2 c'.
Proof.
  unfold c_div_scalar. destruct (Qeqb s 0); [intros _ H; discriminate|].
  apply map_points_Inv2. apply vscale_length.
Qed.

(* ------------------------------------------------------------------ *)
(* I5. histories of mutators                                            *)
(* ------------------------------------------------------------------ *)
Inductive mop :=
| MKnotInsert (ns : list Q)
| MKnotRemove (ns : list Q) (tol : option Q)
| MUpdate (knew : kv) (tol : option Q) (nodes : option (list Q))   (* knew: an already built KnotVector *)
| MDegreeIncrease (t : nat)
| MDegreeDecrease (t : nat) (tol : option Q)
| MSetDegree (d : nat)
| MKnotClean (nodes : option (list Q)) (tol : Q)
| MDegreeClean (tol : Q)
| MClean (tol : Q)
| MNeg
| MMulScalar (s : Q)
| MDivScalar (s : Q).

Definition mrun (c : curve) (o : mop) : res curve :=
  match o with
  | MKnotInsert ns => c_knot_insert c ns
  | MKnotRemove ns tol => c_knot_remove c ns tol
  | MUpdate knew tol nodes =>
      (* the argument is a KnotVector object: a vector that is not well-formed cannot be built *)
      if wf_b (kvec knew) (kdeg knew) then c_update c knew tol nodes else Err ValueError
  | MDegreeIncrease t => c_degree_increase c t
  | MDegreeDecrease t tol => c_degree_decrease c t tol
  | MSetDegree d => c_set_degree c d
  | MKnotClean nodes tol => c_knot_clean c nodes tol
  | MDegreeClean tol => c_degree_clean c tol
  | MClean tol => c_clean c tol
  | MNeg => c_neg c
  | MMulScalar s => c_mul_scalar c s
  | MDivScalar s => c_div_scalar c s
  end.

Definition mstep (c : curve) (o : mop) : curve * res unit :=
  match mrun c o with Ok c' => (c', Ok tt) | Err e => (c, Err e) end.

Theorem mrun_Inv2 c o c' : Inv2 c -> mrun c o = Ok c' -> Inv2 c'.
Proof.
  intros HI H. pose proof HI as [HI1 HD]. destruct o; cbn [mrun] in H.
  - split; [exact (I1_knot_insert _ _ _ HI1 H) | exact (knot_insert_Wdep _ _ _ HD H)].
  - split; [exact (I2_knot_remove _ _ _ _ HI1 HD H) | exact (knot_remove_Wdep _ _ _ _ HD H)].
  - destruct (wf_b (kvec knew) (kdeg knew)) eqn:W; [|discriminate].
    split; [exact (I2_update _ _ _ _ _ HI1 HD H W) | exact (update_Wdep _ _ _ _ _ HD H)].
  - split; [exact (I3_degree_increase _ _ _ HI1 H) | exact (degree_increase_Wdep _ _ _ HD H)].
  - split; [exact (I2_degree_decrease _ _ _ _ HI1 HD H) | exact (degree_decrease_Wdep _ _ _ _ HD H)].
  - split; [exact (I3_set_degree _ _ _ HI1 HD H) | exact (set_degree_Wdep _ _ _ HD H)].
  - exact (I4_knot_clean _ _ _ _ HI H).
  - exact (I4_degree_clean _ _ _ HI H).
  - exact (I4_clean _ _ _ HI H).
  - exact (neg_Inv2 _ _ HI H).
  - exact (mul_scalar_Inv2 _ _ _ HI H).
  - exact (div_scalar_Inv2 _ _ _ HI H).
Qed.

Theorem I5_step c o : Inv2 c -> Inv2 (fst (mstep c o)).
Proof.
  intro HI. unfold mstep. destruct (mrun c o) as [c'|e] eqn:E; cbn [fst]; [|exact HI].
  exact (mrun_Inv2 _ _ _ HI E).
Qed.

Theorem I5_step_Inv c o : Inv2 c -> Inv (fst (mstep c o)).
Proof. intro HI. exact (proj1 (I5_step c o HI)). Qed.

Theorem I5_atomic c o e : snd (mstep c o) = Err e -> fst (mstep c o) = c.
Proof.
  unfold mstep. destruct (mrun c o) as [c'|e']; cbn [fst snd]; intro H; [discriminate|reflexivity].
Qed.

(* an error reports the operation's own exception *)
Theorem I5_error_is_op c o e : snd (mstep c o) = Err e -> mrun c o = Err e.
Proof.
  unfold mstep. destruct (mrun c o) as [c'|e']; cbn [snd]; intro H; [discriminate|].
  inversion H. reflexivity.
Qed.

Theorem I5_reachable : forall ops c0, Inv2 c0 -> Inv2 (fold_left (fun c o => fst (mstep c o)) ops c0).
Proof.
  induction ops as [|o ops IH]; intros c0 HI; cbn [fold_left]; [exact HI|].
  apply IH. apply I5_step. exact HI.
Qed.

Corollary I5_reachable_Inv ops c0 : Inv2 c0 -> Inv (fold_left (fun c o => fst (mstep c o)) ops c0).
Proof. intro HI. exact (proj1 (I5_reachable ops c0 HI)). Qed.

(* polynomial start state, the plain Inv conclusion *)
Corollary I5_reachable_poly ops c0 :
  Inv c0 -> cW c0 = None -> Inv (fold_left (fun c o => fst (mstep c o)) ops c0).
Proof. intros HI HW. exact (I5_reachable_Inv ops c0 (poly_Inv2 _ HI HW)). Qed.

(* ------------------------------------------------------------------ *)
(* I6. a state satisfying the invariant is evaluable                    *)
(* ------------------------------------------------------------------ *)
Theorem I6_evaluable c P : Inv c -> cP c = Some P -> cW c = None ->
  forall u, kvalid1 (ckv c) u = true -> exists v, curve_eval1 c u = Ok v.
Proof.
  intros HI EP EW u Hu. destruct (Inv_P _ _ HI EP) as [A B].
  destruct (C01_eval_spline c P (pdim P) EP (Inv_wf _ HI) A B eq_refl u EW Hu) as (v & Hv & _).
  exists v. exact Hv.
Qed.

(* and the value has the dimension of the control points *)
Theorem I6_evaluable_spec c P : Inv c -> cP c = Some P -> cW c = None ->
  forall u, kvalid1 (ckv c) u = true ->
  exists v, curve_eval1 c u = Ok v /\
            Forall2 Qeq v (BSpline.curve_spec (kvec (ckv c)) (cdeg c) (pdim P) P u).
Proof.
  intros HI EP EW u Hu. destruct (Inv_P _ _ HI EP) as [A B].
  exact (C01_eval_spline c P (pdim P) EP (Inv_wf _ HI) A B eq_refl u EW Hu).
Qed.

(* every reachable polynomial state with control points is evaluable on its whole domain *)
Corollary I6_reachable_evaluable ops c0 P :
  Inv2 c0 ->
  let c := fold_left (fun c o => fst (mstep c o)) ops c0 in
  cP c = Some P -> cW c = None ->
  forall u, kvalid1 (ckv c) u = true -> exists v, curve_eval1 c u = Ok v.
Proof. intros HI c. apply I6_evaluable. exact (I5_reachable_Inv ops c0 HI). Qed.

(* ------------------------------------------------------------------ *)
(* 5. A boolean reading of the invariant, and a concrete history        *)
(* ------------------------------------------------------------------ *)
Definition inv_b (c : curve) : bool :=
  wf_b (kvec (ckv c)) (kdeg (ckv c))
  && match cP c with
     | None => true
     | Some P => (length P =? cnpts c)%nat && forallb (fun q : pt => (length q =? pdim P)%nat) P
     end
  && match cW c with None => true | Some W => (length W =? cnpts c)%nat end
  && match cP c, cW c with None, Some _ => false | _, _ => true end.

Lemma inv_b_sound c : inv_b c = true -> Inv2 c.
Proof.
  unfold inv_b. intro H.
  apply andb_true_iff in H. destruct H as [H H4].
  apply andb_true_iff in H. destruct H as [H H3].
  apply andb_true_iff in H. destruct H as [H1 H2].
  split; [split; [exact H1|split]|].
  - intros P E. rewrite E in H2. apply andb_true_iff in H2. destruct H2 as [A B].
    split; [apply Nat.eqb_eq; exact A|].
    apply Forall_forall. intros q Hq. rewrite forallb_forall in B. apply Nat.eqb_eq. apply B. exact Hq.
  - intros W E. rewrite E in H3. apply Nat.eqb_eq. exact H3.
  - intro E. rewrite E in H4. destruct (cW c); [discriminate|reflexivity].
Qed.

Definition ex_c0 : curve :=
  mkcurve (mkkv [0; 0; 0; 1#2; 1; 1; 1] 2) (Some [[0; 0]; [1; 2]; [3; 2]; [4; 0]]) None.
Definition ex_ops : list mop :=
  [MKnotInsert [1#4]; MDegreeIncrease 1; MKnotRemove [1#4] None].
Definition ex_run (ops : list mop) (c : curve) : curve := fold_left (fun c o => fst (mstep c o)) ops c.

Example ex_c0_Inv : Inv ex_c0.
Proof.
  apply Inv_mk.
  - vm_compute. reflexivity.
  - intros P E. inversion E; subst P. split; [reflexivity|]. repeat constructor.
  - intros W E. discriminate.
Qed.

(* every operation of the history succeeds (the example is not vacuous) ... *)
Example ex_history_ok :
  map (fun n => snd (mstep (ex_run (firstn n ex_ops) ex_c0) (nth n ex_ops MNeg))) [0; 1; 2]%nat
  = [Ok tt; Ok tt; Ok tt].
Proof. vm_compute. reflexivity. Qed.

(* ... the sizes move as expected: (degree, npts, len knots, len points) after 0..3 operations ... *)
Definition sizes (c : curve) : nat * nat * nat * nat :=
  (cdeg c, cnpts c, length (kvec (ckv c)), match cP c with Some P => length P | None => O end).
Example ex_history_sizes :
  map (fun n => sizes (ex_run (firstn n ex_ops) ex_c0)) [0; 1; 2; 3]%nat
  = [(2, 4, 7, 4); (2, 5, 8, 5); (3, 8, 12, 8); (3, 7, 11, 7)]%nat.
Proof. vm_compute. reflexivity. Qed.

(* ... and the invariant holds of every state, by computation and by the theorem *)
Example ex_history_inv_b :
  forallb (fun n => inv_b (ex_run (firstn n ex_ops) ex_c0)) [0; 1; 2; 3]%nat = true.
Proof. vm_compute. reflexivity. Qed.

Example ex_history_Inv : Inv (ex_run ex_ops ex_c0).
Proof. apply I5_reachable_poly; [exact ex_c0_Inv | reflexivity]. Qed.

Example ex_history_Inv_computed : Inv (ex_run ex_ops ex_c0).
Proof. apply inv_b_sound. vm_compute. reflexivity. Qed.

(* a refused operation leaves the state alone *)
Example ex_refused :
  mstep ex_c0 (MKnotInsert [2]) = (ex_c0, Err ValueError)
  /\ mstep ex_c0 (MDegreeDecrease 3 None) = (ex_c0, Err ValueError)
  /\ mstep ex_c0 (MUpdate (mkkv [0; 1; 0] 0) None None) = (ex_c0, Err ValueError).
Proof. repeat split; vm_compute; reflexivity. Qed.

Print Assumptions I1_knot_insert.
Print Assumptions I2_update.
Print Assumptions I2_counterexample.
Print Assumptions I2_knot_remove.
Print Assumptions I2_degree_decrease.
Print Assumptions I3_degree_increase.
Print Assumptions I3_set_degree.
Print Assumptions I4_remove_while.
Print Assumptions I4_decrease_while.
Print Assumptions I4_knot_clean.
Print Assumptions I4_degree_clean.
Print Assumptions I4_clean.
Print Assumptions I5_step.
Print Assumptions I5_atomic.
Print Assumptions I5_reachable.
Print Assumptions I5_reachable_poly.
Print Assumptions I6_evaluable.
Print Assumptions I6_reachable_evaluable.
Print Assumptions ex_history_Inv_computed.
