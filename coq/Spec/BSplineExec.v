(* Executable twins of the specification functions: the same recursion with Qred after
   every step (so vm_compute stays fast), each proved == to the clean specification. *)
From Coq Require Import QArith List Bool Arith Setoid.
From NurbsV Require Import Base.QList Spec.BSpline.
Import ListNotations.
Open Scope Q_scope.

Fixpoint Nx (U : nat -> Q) (n j i : nat) (u : Q) : Q :=
  match j with
  | O => ind0 U n i u
  | S j' =>
      Qred ((u - U i) / (U (i + j)%nat - U i) * Nx U n j' i u
      + (U (i + j + 1)%nat - u) / (U (i + j + 1)%nat - U (i + 1)%nat) * Nx U n j' (S i) u)
  end.

Lemma Nx_correct U n j : forall i u, Nx U n j i u == N U n j i u.
Proof.
  induction j as [|j IH]; intros i u; cbn [Nx N]; [reflexivity|].
  rewrite Qred_correct, !IH. reflexivity.
Qed.

Definition Nxspec (U : list Q) (p j i : nat) (u : Q) : Q := Nx (nthq U) (npts_of U p) j i u.
Lemma Nxspec_correct U p j i u : Nxspec U p j i u == Nspec U p j i u.
Proof. apply Nx_correct. Qed.

Fixpoint qsumx (l : list Q) : Q := match l with [] => 0 | x :: l' => Qred (x + qsumx l') end.
Lemma qsumx_correct l : qsumx l == qsum l.
Proof. induction l as [|x l IH]; cbn [qsumx qsum]; [reflexivity|]. rewrite Qred_correct, IH. reflexivity. Qed.

(* all basis values at u, computed once *)
Definition Nrow (U : list Q) (p j : nat) (u : Q) : list Q :=
  map (fun i => Nxspec U p j i u) (seq 0 (npts_of U p)).

Definition curve_x1 (U : list Q) (p : nat) (P : list Q) (u : Q) : Q :=
  qsumx (map (fun i => Nxspec U p p i u * nth i P 0) (seq 0 (npts_of U p))).

Lemma qsum_map_ext_seq (f g : nat -> Q) l :
  (forall i, f i == g i) -> qsum (map f l) == qsum (map g l).
Proof. intros H. induction l as [|x l IH]; cbn; [reflexivity|]. rewrite H, IH. reflexivity. Qed.

Lemma curve_x1_correct U p P u : curve_x1 U p P u == curve_spec1 U p P u.
Proof.
  unfold curve_x1, curve_spec1. rewrite qsumx_correct.
  apply qsum_map_ext_seq. intro i. rewrite Nxspec_correct. reflexivity.
Qed.

Definition rational_x1 (U : list Q) (p : nat) (W P : list Q) (u : Q) : Q :=
  Qred (curve_x1 U p (map2 (fun w x => w * x) W P) u / curve_x1 U p W u).
Lemma rational_x1_correct U p W P u : rational_x1 U p W P u == rational_spec1 U p W P u.
Proof.
  unfold rational_x1, rational_spec1, weight_spec. rewrite Qred_correct, !curve_x1_correct. reflexivity.
Qed.

Definition curve_x (U : list Q) (p d : nat) (P : list (list Q)) (u : Q) : list Q :=
  map (fun k => curve_x1 U p (coord k P) u) (seq 0 d).
Definition rational_x (U : list Q) (p d : nat) (W : list Q) (P : list (list Q)) (u : Q) : list Q :=
  map (fun k => rational_x1 U p W (coord k P) u) (seq 0 d).

Lemma Forall2_map_seq (f g : nat -> Q) l : (forall k, f k == g k) -> Forall2 Qeq (map f l) (map g l).
Proof. intro H. induction l; cbn; constructor; auto. Qed.

Lemma curve_x_correct U p d P u : Forall2 Qeq (curve_x U p d P u) (curve_spec U p d P u).
Proof. apply Forall2_map_seq. intro k. apply curve_x1_correct. Qed.
Lemma rational_x_correct U p d W P u : Forall2 Qeq (rational_x U p d W P u) (rational_spec U p d W P u).
Proof. apply Forall2_map_seq. intro k. apply rational_x1_correct. Qed.

Definition Rx (U : list Q) (p : nat) (W : list Q) (j i : nat) (u : Q) : Q :=
  Qred (nth i W 0 * Nxspec U p j i u
        / qsumx (map (fun k => nth k W 0 * Nxspec U p j k u) (seq 0 (npts_of U p)))).
Lemma Rx_correct U p W j i u : Rx U p W j i u == Rspec U p W j i u.
Proof.
  unfold Rx, Rspec. rewrite Qred_correct, qsumx_correct, Nxspec_correct.
  assert (E : qsum (map (fun k => nth k W 0 * Nxspec U p j k u) (seq 0 (npts_of U p)))
           == qsum (map (fun k => nth k W 0 * Nspec U p j k u) (seq 0 (npts_of U p)))).
  { apply qsum_map_ext_seq. intro k. rewrite Nxspec_correct. reflexivity. }
  rewrite E. reflexivity.
Qed.
