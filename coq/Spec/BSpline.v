(* SPECIFICATION: Cox-de Boor B-splines and the curve they define.
   Short on purpose (read it in minutes).  Shares nothing with the library's
   evaluation path (tables + Horner): it is the textbook recursion.
   Division by zero is 0 in Q, which is exactly the 0/0 := 0 convention. *)
From Coq Require Import QArith List Bool Arith.
From NurbsV Require Import Base.QList.
Import ListNotations.
Open Scope Q_scope.

Section Seq.
  Variable U : nat -> Q.      (* knot sequence *)
  Variable n : nat.           (* number of control points; U n = umax *)

  (* degree 0: indicator of [U i, U (i+1)), right-continuous; the last non-empty
     span is closed at umax, so the value at umax is the left limit. *)
  Definition ind0 (i : nat) (u : Q) : Q :=
    if Qleb (U i) u && Qltb u (U (S i)) then 1
    else if Qeqb u (U n) && Qltb (U i) u && Qeqb (U (S i)) (U n) then 1
    else 0.

  Fixpoint N (j i : nat) (u : Q) : Q :=
    match j with
    | O => ind0 i u
    | S j' =>
        (u - U i) / (U (i + j)%nat - U i) * N j' i u
      + (U (i + j + 1)%nat - u) / (U (i + j + 1)%nat - U (i + 1)%nat) * N j' (S i) u
    end.
End Seq.

(* knot vectors as lists (padded with their last element, see Base/QList.v) *)
Definition npts_of (U : list Q) (p : nat) : nat := (length U - p - 1)%nat.
Definition Nspec (U : list Q) (p j i : nat) (u : Q) : Q := N (nthq U) (npts_of U p) j i u.

(* scalar-valued curve: sum_i N_{i,p}(u) * P_i *)
Definition curve_spec1 (U : list Q) (p : nat) (P : list Q) (u : Q) : Q :=
  qsum (map (fun i => Nspec U p p i u * nth i P 0) (seq 0 (npts_of U p))).

(* weight function and rational curve *)
Definition weight_spec (U : list Q) (p : nat) (W : list Q) (u : Q) : Q := curve_spec1 U p W u.
Definition rational_spec1 (U : list Q) (p : nat) (W P : list Q) (u : Q) : Q :=
  curve_spec1 U p (map2 (fun w x => w * x) W P) u / weight_spec U p W u.

(* vector-valued: coordinate by coordinate; points are lists of equal length d *)
Definition coord (k : nat) (P : list (list Q)) : list Q := map (fun pt => nth k pt 0) P.
Definition curve_spec (U : list Q) (p d : nat) (P : list (list Q)) (u : Q) : list Q :=
  map (fun k => curve_spec1 U p (coord k P) u) (seq 0 d).
Definition rational_spec (U : list Q) (p d : nat) (W : list Q) (P : list (list Q)) (u : Q) : list Q :=
  map (fun k => rational_spec1 U p W (coord k P) u) (seq 0 d).

(* rational basis function R_{i,j} = w_i N_{i,j} / sum_k w_k N_{k,j} *)
Definition Rspec (U : list Q) (p : nat) (W : list Q) (j i : nat) (u : Q) : Q :=
  nth i W 0 * Nspec U p j i u
  / qsum (map (fun k => nth k W 0 * Nspec U p j k u) (seq 0 (npts_of U p))).
