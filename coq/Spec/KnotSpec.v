(* SPECIFICATION: well-formed clamped knot vectors and what the queries mean. *)
From Coq Require Import QArith List Bool Arith Lia.
From NurbsV Require Import Base.QList.
Import ListNotations.
Open Scope Q_scope.

Definition count_q (x : Q) (v : list Q) : nat := length (filter (Qeqb x) v).

Fixpoint sorted_b (v : list Q) : bool :=
  match v with
  | a :: ((b :: _) as t) => Qleb a b && sorted_b t
  | _ => true
  end.

Definition first_q (v : list Q) : Q := nth O v 0.
Definition last_q (v : list Q) : Q := last v 0.
Definition nthz (i : nat) (v : list Q) : Q := nth i v 0.

(* The set the property C03 talks about: non-decreasing, first and last value repeated
   exactly p+1 times, every multiplicity <= p+1, npts = length - p - 1 > p. *)
Definition wf_b (v : list Q) (p : nat) : bool :=
  sorted_b v
  && (2 * p + 2 <=? length v)%nat
  && (count_q (first_q v) v =? p + 1)%nat
  && (count_q (last_q v) v =? p + 1)%nat
  && forallb (fun x => (count_q x v <=? p + 1)%nat) v.

Definition WF (v : list Q) (p : nat) : Prop := wf_b v p = true.

Definition umin_of (v : list Q) (p : nat) : Q := nthq v p.
Definition umax_of (v : list Q) (p : nat) : Q := nthq v (length v - p - 1).

Definition in_range (v : list Q) (p : nat) (u : Q) : bool :=
  Qleb (umin_of v p) u && Qleb u (umax_of v p).

(* span(u) = k  means  U[k] <= u < U[k+1], or k = npts-1 at umax *)
Definition span_ok (v : list Q) (p : nat) (u : Q) (k : nat) : bool :=
  if Qeqb u (umax_of v p) then (k =? length v - p - 2)%nat
  else Qleb (nthq v k) u && Qltb u (nthq v (S k)).

(* distinct values of the interior range, increasing *)
Fixpoint dedup_sorted (v : list Q) : list Q :=
  match v with
  | a :: ((b :: _) as t) => if Qeqb a b then dedup_sorted t else a :: dedup_sorted t
  | _ => v
  end.
Definition knots_spec (v : list Q) (p : nat) : list Q :=
  dedup_sorted (firstn (length v - 2 * p) (skipn p v)).
