(* Rational helpers: boolean comparisons with specs, lists of rationals, vectors. *)
From Coq Require Import QArith Qabs List Bool Arith Lia Lqa Setoid Morphisms.
Import ListNotations.
Open Scope Q_scope.
Global Arguments Qred : simpl never.
Global Arguments Qplus : simpl never.
Global Arguments Qmult : simpl never.
Global Arguments Qminus : simpl never.
Global Arguments Qdiv : simpl never.
Global Arguments Qopp : simpl never.
Global Arguments Qinv : simpl never.

Definition Qltb (x y : Q) : bool := negb (Qle_bool y x).
Definition Qleb (x y : Q) : bool := Qle_bool x y.
Definition Qeqb (x y : Q) : bool := Qeq_bool x y.

Lemma Qltb_lt x y : Qltb x y = true <-> x < y.
Proof.
  unfold Qltb. rewrite negb_true_iff. split; intro H.
  - apply Qnot_le_lt. intro C. apply Qle_bool_iff in C. congruence.
  - destruct (Qle_bool y x) eqn:E; [|reflexivity]. apply Qle_bool_iff in E. lra.
Qed.
Lemma Qltb_ge x y : Qltb x y = false <-> y <= x.
Proof.
  unfold Qltb. rewrite negb_false_iff. apply Qle_bool_iff.
Qed.
Lemma Qleb_le x y : Qleb x y = true <-> x <= y.
Proof. apply Qle_bool_iff. Qed.
Lemma Qleb_gt x y : Qleb x y = false <-> y < x.
Proof.
  unfold Qleb. split; intro H.
  - apply Qnot_le_lt. intro C. apply Qle_bool_iff in C. congruence.
  - destruct (Qle_bool x y) eqn:E; [|reflexivity]. apply Qle_bool_iff in E. lra.
Qed.
Lemma Qeqb_eq x y : Qeqb x y = true <-> x == y.
Proof. apply Qeq_bool_iff. Qed.
Lemma Qeqb_neq x y : Qeqb x y = false <-> ~ x == y.
Proof.
  unfold Qeqb. split; intro H.
  - intro C. apply Qeq_bool_iff in C. congruence.
  - destruct (Qeq_bool x y) eqn:E; [|reflexivity]. apply Qeq_bool_iff in E. contradiction.
Qed.

Lemma Qltb_spec x y : reflect (x < y) (Qltb x y).
Proof. destruct (Qltb x y) eqn:E; constructor; [apply Qltb_lt; exact E|]. apply Qltb_ge in E. lra. Qed.
Lemma Qleb_spec x y : reflect (x <= y) (Qleb x y).
Proof. destruct (Qleb x y) eqn:E; constructor; [apply Qleb_le; exact E|]. apply Qleb_gt in E. lra. Qed.
Lemma Qeqb_spec x y : reflect (x == y) (Qeqb x y).
Proof. destruct (Qeqb x y) eqn:E; constructor; [apply Qeqb_eq; exact E|]. apply Qeqb_neq; exact E. Qed.

Global Instance Qltb_proper : Proper (Qeq ==> Qeq ==> eq) Qltb.
Proof.
  intros a b H c d K. destruct (Qltb_spec a c), (Qltb_spec b d); try reflexivity; exfalso; lra.
Qed.
Global Instance Qleb_proper : Proper (Qeq ==> Qeq ==> eq) Qleb.
Proof.
  intros a b H c d K. destruct (Qleb_spec a c), (Qleb_spec b d); try reflexivity; exfalso; lra.
Qed.
Global Instance Qeqb_proper : Proper (Qeq ==> Qeq ==> eq) Qeqb.
Proof.
  intros a b H c d K. destruct (Qeqb_spec a c), (Qeqb_spec b d); try reflexivity; exfalso.
  - apply n. rewrite <- H, <- K. exact q.
  - apply n. rewrite H, K. exact q.
Qed.

(* Reading a list as a total sequence: pad with the LAST element (DESIGN section 6:
   with a 0 default, monotonicity would be unsatisfiable for ordinary knot vectors). *)
Definition nthq (U : list Q) (i : nat) : Q := nth i U (last U 0).

Lemma nthq_in_range U i d : (i < length U)%nat -> nthq U i = nth i U d.
Proof. intro H. unfold nthq. apply nth_indep. exact H. Qed.

Lemma nthq_overflow U i : (length U <= i)%nat -> nthq U i = last U 0.
Proof. intro H. unfold nthq. apply nth_overflow. exact H. Qed.

(* generic list equality by a boolean element test *)
Fixpoint list_eqb {A} (eqb : A -> A -> bool) (a b : list A) : bool :=
  match a, b with
  | [], [] => true
  | x :: a', y :: b' => eqb x y && list_eqb eqb a' b'
  | _, _ => false
  end.
Definition ql_eqb := list_eqb Qeqb.
Definition qll_eqb := list_eqb ql_eqb.
Definition qlll_eqb := list_eqb qll_eqb.
Definition natl_eqb := list_eqb Nat.eqb.

Lemma list_eqb_Forall2 {A} (eqb : A -> A -> bool) (R : A -> A -> Prop) :
  (forall x y, eqb x y = true <-> R x y) ->
  forall a b, list_eqb eqb a b = true <-> Forall2 R a b.
Proof.
  intros HR. induction a as [|x a IH]; intros [|y b]; cbn; split; intro H;
    try constructor; try discriminate; try (inversion H; fail).
  - apply andb_true_iff in H. apply HR. tauto.
  - apply andb_true_iff in H. apply IH. tauto.
  - inversion H; subst. apply andb_true_iff. split; [apply HR | apply IH]; assumption.
Qed.

Lemma ql_eqb_Forall2 a b : ql_eqb a b = true <-> Forall2 Qeq a b.
Proof. apply list_eqb_Forall2. apply Qeqb_eq. Qed.

Lemma natl_eqb_eq a b : natl_eqb a b = true <-> a = b.
Proof.
  unfold natl_eqb. rewrite (list_eqb_Forall2 Nat.eqb eq Nat.eqb_eq).
  split; intro H; [induction H; subst; reflexivity | subst; induction b; constructor; auto].
Qed.

(* sums *)
Fixpoint qsum (l : list Q) : Q := match l with [] => 0 | x :: l' => x + qsum l' end.
Fixpoint qsum_red (l : list Q) : Q := match l with [] => 0 | x :: l' => Qred (x + qsum_red l') end.
Lemma qsum_red_correct l : qsum_red l == qsum l.
Proof. induction l as [|x l IH]; cbn [qsum qsum_red]; [reflexivity|]. rewrite Qred_correct, IH. reflexivity. Qed.

Fixpoint map2 {A B C} (f : A -> B -> C) (a : list A) (b : list B) : list C :=
  match a, b with x :: a', y :: b' => f x y :: map2 f a' b' | _, _ => [] end.
Lemma map2_length {A B C} (f : A -> B -> C) a b : length (map2 f a b) = Nat.min (length a) (length b).
Proof. revert b; induction a as [|x a IH]; intros [|y b]; cbn; auto. Qed.

Definition dot (a b : list Q) : Q := qsum_red (map2 (fun x y => x * y) a b).
Lemma dot_correct a b : dot a b == qsum (map2 (fun x y => x * y) a b).
Proof. apply qsum_red_correct. Qed.

Lemma qsum_app a b : qsum (a ++ b) == qsum a + qsum b.
Proof. induction a as [|x a IH]; cbn; [ring|]. rewrite IH. ring. Qed.

Lemma qsum_map_scale c (f : nat -> Q) l : qsum (map (fun i => c * f i) l) == c * qsum (map f l).
Proof. induction l as [|x l IH]; cbn; [ring|]. rewrite IH. ring. Qed.

Lemma qsum_map_add (f g : nat -> Q) l :
  qsum (map (fun i => f i + g i) l) == qsum (map f l) + qsum (map g l).
Proof. induction l as [|x l IH]; cbn; [ring|]. rewrite IH. ring. Qed.

Lemma qsum_map_ext (f g : nat -> Q) l :
  (forall i, In i l -> f i == g i) -> qsum (map f l) == qsum (map g l).
Proof.
  induction l as [|x l IH]; cbn; intro H; [reflexivity|].
  rewrite (H x) by auto. rewrite IH by auto. reflexivity.
Qed.

Lemma qsum_map_zero (f : nat -> Q) l : (forall i, In i l -> f i == 0) -> qsum (map f l) == 0.
Proof.
  induction l as [|x l IH]; cbn; intro H; [reflexivity|].
  rewrite (H x) by auto. rewrite IH by auto. ring.
Qed.

(* vectors = points *)
Definition pt := list Q.
Definition vadd (a b : pt) : pt := map2 (fun x y => Qred (x + y)) a b.
Definition vscale (c : Q) (a : pt) : pt := map (fun x => Qred (c * x)) a.
Definition vzero (d : nat) : pt := repeat 0 d.
Definition pt_eqb := ql_eqb.
Definition ptl_eqb := qll_eqb.

Definition Qmax (a b : Q) := if Qleb a b then b else a.
Definition Qmin (a b : Q) := if Qleb a b then a else b.
