(* Result type mirroring Python's "value or raised exception class". *)
From Coq Require Import List Bool.
Import ListNotations.

Inductive exn :=
| ValueError | AssertionError | TypeError | IndexError | ZeroDivisionError
| NotImplementedError | OtherError
| Uncertified.   (* model only: a certificate check inside the model failed (DESIGN 2); never an implementation outcome *)

Definition exn_eqb (a b : exn) : bool :=
  match a, b with
  | ValueError, ValueError | AssertionError, AssertionError | TypeError, TypeError
  | IndexError, IndexError | ZeroDivisionError, ZeroDivisionError
  | NotImplementedError, NotImplementedError | OtherError, OtherError | Uncertified, Uncertified => true
  | _, _ => false
  end.

Lemma exn_eqb_eq a b : exn_eqb a b = true <-> a = b.
Proof. destruct a, b; cbn; split; intro H; try reflexivity; try discriminate. Qed.

Inductive res (A : Type) := Ok (a : A) | Err (e : exn).
Arguments Ok {A} a.
Arguments Err {A} e.

Definition bind {A B} (r : res A) (f : A -> res B) : res B :=
  match r with Ok a => f a | Err e => Err e end.

Notation "'do' x <- r ; k" := (bind r (fun x => k))
  (at level 200, x pattern, r at level 100, k at level 200, right associativity).

Definition is_ok {A} (r : res A) : bool := match r with Ok _ => true | Err _ => false end.

Definition res_eqb {A} (eqb : A -> A -> bool) (x y : res A) : bool :=
  match x, y with
  | Ok a, Ok b => eqb a b
  | Err e, Err f => exn_eqb e f
  | _, _ => false
  end.

Fixpoint mapM {A B} (f : A -> res B) (l : list A) : res (list B) :=
  match l with
  | [] => Ok []
  | a :: l' => do b <- f a; do bs <- mapM f l'; Ok (b :: bs)
  end.

Lemma mapM_length {A B} (f : A -> res B) l bs : mapM f l = Ok bs -> length bs = length l.
Proof.
  revert bs; induction l as [|a l IH]; cbn; intros bs H.
  - inversion H; reflexivity.
  - destruct (f a); cbn in H; [|discriminate].
    destruct (mapM f l); cbn in H; [|discriminate].
    inversion H; subst; cbn; f_equal; apply IH; reflexivity.
Qed.
