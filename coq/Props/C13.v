(* PROPERTY C13: A == B is True exactly when A and B are curves on the same interval that agree as functions of u
   (to the built-in 1e-9 tolerance on control points after refinement to a common knot vector), regardless of
   representation; reflexive, symmetric; A != B is the negation; non-curves compare False; operands unchanged.
   Statements only; proofs in Proofs/EqBasic.v, Proofs/UnionProofs.v, Proofs/LSProofs.v. *)
From Coq Require Import QArith List Bool Arith.
From NurbsV Require Import Base.Res Base.QList Spec.KnotSpec Gen.Consts Model.KV Model.Basis Model.CurveM Model.Ops
  Model.CurveOps Model.Linalg Model.Quadrature Model.LeastSq Model.CurveLS.
From NurbsV Require Import Proofs.MatProofs Proofs.LSProofs Proofs.UnionProofs Proofs.EqBasic Proofs.EqInvariance.
Import ListNotations.
Open Scope Q_scope.
Theorem C13_different_start_is_false :
  forall a b : curve, ~ first_q (kvec (ckv a)) == first_q (kvec (ckv b)) -> c_eq a b = Ok false.
Proof. exact c_eq_different_start. Qed.
Print Assumptions C13_different_start_is_false.

Theorem C13_different_end_is_false :
  forall a b : curve, ~ last_q (kvec (ckv a)) == last_q (kvec (ckv b)) -> c_eq a b = Ok false.
Proof. exact c_eq_different_end. Qed.
Print Assumptions C13_different_end_is_false.

Theorem C13_true_certificate :
  forall a b : curve,
       c_eq a b = Ok true ->
       exists (kn : kv) (a' b' : curve) (Pa Pb : list pt),
         kor (ckv a) (ckv b) = Ok kn /\
         c_update a kn (Some tol_update) None = Ok a' /\
         c_update b kn (Some tol_update) None = Ok b' /\
         cP a' = Some Pa /\
         cP b' = Some Pb /\
         (forall pq : pt * pt, In pq (combine Pa Pb) -> pt_dist2 (fst pq) (snd pq) <= tol_eq * tol_eq).
Proof. exact c_eq_true_certificate. Qed.
Print Assumptions C13_true_certificate.

Theorem C13_false_witness :
  forall (a b : curve) (kn : kv) (a' b' : curve) (Pa Pb : list pt),
       Qeqb (first_q (kvec (ckv a))) (first_q (kvec (ckv b))) = true ->
       Qeqb (last_q (kvec (ckv a))) (last_q (kvec (ckv b))) = true ->
       cP a <> None ->
       cP b <> None ->
       kor (ckv a) (ckv b) = Ok kn ->
       c_update a kn (Some tol_update) None = Ok a' ->
       c_update b kn (Some tol_update) None = Ok b' ->
       cP a' = Some Pa ->
       cP b' = Some Pb ->
       c_eq a b = Ok false ->
       exists pq : pt * pt, In pq (combine Pa Pb) /\ tol_eq * tol_eq < pt_dist2 (fst pq) (snd pq).
Proof. exact c_eq_false_witness. Qed.
Print Assumptions C13_false_witness.

Theorem C13_common_vector_refines_left :
  forall a b k : kv,
       separated (kvec a ++ kvec b) ->
       kor a b = Ok k ->
       forall x : Q,
       (lift (Nat.max (kdeg a) (kdeg b)) (kdeg a) x (kvec a) <= count_q x (kvec k))%nat /\
       (count_q x (kvec a) <= count_q x (kvec k))%nat.
Proof. exact kor_refines_left. Qed.
Print Assumptions C13_common_vector_refines_left.

Theorem C13_common_vector_refines_right :
  forall a b k : kv,
       separated (kvec a ++ kvec b) ->
       kor a b = Ok k ->
       forall x : Q,
       (lift (Nat.max (kdeg a) (kdeg b)) (kdeg b) x (kvec b) <= count_q x (kvec k))%nat /\
       (count_q x (kvec b) <= count_q x (kvec k))%nat.
Proof. exact kor_refines_right. Qed.
Print Assumptions C13_common_vector_refines_right.

Theorem C13_refinement_projection_exact :
  forall (kold knew : kv) (T E : mat) (g : grams),
       spline2spline kold knew None = Ok (T, E) ->
       grams_of kold knew = Ok g ->
       forall S : mat,
       shaped (knpts knew) (knpts kold) S ->
       (forall (u : Q) (f gk : list Q),
        In u (quad_nodes kold knew) ->
        basis_row kold (kdeg kold) u = Ok f -> basis_row knew (kdeg knew) u = Ok gk -> veq gk (mvec S f)) ->
       meq (mmul_n (knpts knew) T (mtrans_n (knpts kold) S)) (ident (knpts knew)).
Proof. exact spline2spline_left_inverse. Qed.
Print Assumptions C13_refinement_projection_exact.

(* ---- reflexivity, and invariance of the answer under knot insertion into either operand, both operand orders
   (Proofs/EqInvariance.v; `separated` = knots at least 1e-6 apart, cf. C17). ---- *)
Theorem C13_reflexive :
  forall (a : curve) (r : bool), c_eq a a = Ok r -> r = true.
Proof. exact c_eq_refl. Qed.
Print Assumptions C13_reflexive.

Theorem C13_insertion_invariant_right :
  forall (a b : curve) (P : list pt) (d : nat) (nodes : list Q),
       cW a = None ->
       cP a = Some P ->
       WF (kvec (ckv a)) (cdeg a) ->
       length P = cnpts a ->
       Forall (fun q : pt => length q = d) P ->
       c_knot_insert a nodes = Ok b ->
       kdeg (ckv b) = cdeg a -> separated (kvec (ckv b)) -> forall r : bool, c_eq a b = Ok r -> r = true.
Proof. exact c_eq_insert_r. Qed.
Print Assumptions C13_insertion_invariant_right.

Theorem C13_insertion_invariant_left :
  forall (a b : curve) (P : list pt) (d : nat) (nodes : list Q),
       cW a = None ->
       cP a = Some P ->
       WF (kvec (ckv a)) (cdeg a) ->
       length P = cnpts a ->
       Forall (fun q : pt => length q = d) P ->
       c_knot_insert a nodes = Ok b ->
       kdeg (ckv b) = cdeg a -> separated (kvec (ckv b)) -> forall r : bool, c_eq b a = Ok r -> r = true.
Proof. exact c_eq_insert_l. Qed.
Print Assumptions C13_insertion_invariant_left.

Theorem C13_insertion_gives_true_right :
  forall (a b : curve) (P : list pt) (d : nat) (nodes : list Q),
       cW a = None ->
       cP a = Some P ->
       WF (kvec (ckv a)) (cdeg a) ->
       length P = cnpts a ->
       Forall (fun q : pt => length q = d) P ->
       c_knot_insert a nodes = Ok b ->
       kdeg (ckv b) = cdeg a ->
       separated (kvec (ckv b)) ->
       (forall kn : kv,
        kor (ckv a) (ckv b) = Ok kn -> exists T E : mat, spline2spline (ckv a) kn None = Ok (T, E)) ->
       c_eq a b = Ok true.
Proof. exact c_eq_insert_r_true. Qed.
Print Assumptions C13_insertion_gives_true_right.

Theorem C13_insertion_gives_true_left :
  forall (a b : curve) (P : list pt) (d : nat) (nodes : list Q),
       cW a = None ->
       cP a = Some P ->
       WF (kvec (ckv a)) (cdeg a) ->
       length P = cnpts a ->
       Forall (fun q : pt => length q = d) P ->
       c_knot_insert a nodes = Ok b ->
       kdeg (ckv b) = cdeg a ->
       separated (kvec (ckv b)) ->
       (forall kn : kv,
        kor (ckv b) (ckv a) = Ok kn -> exists T E : mat, spline2spline (ckv a) kn None = Ok (T, E)) ->
       c_eq b a = Ok true.
Proof. exact c_eq_insert_l_true. Qed.
Print Assumptions C13_insertion_gives_true_left.

Theorem C13_update_to_refinement_is_insertion :
  forall (c : curve) (P : list pt) (d : nat) (nodes : list Q) (c1 : curve) (tol : option Q) (c2 : curve),
       cW c = None ->
       cP c = Some P ->
       WF (kvec (ckv c)) (cdeg c) ->
       length P = cnpts c ->
       Forall (fun q : pt => length q = d) P ->
       c_knot_insert c nodes = Ok c1 ->
       kdeg (ckv c1) = cdeg c ->
       c_update c (ckv c1) tol None = Ok c2 ->
       exists P1 P2 : list pt,
         cP c1 = Some P1 /\
         cP c2 = Some P2 /\ Forall2 (Forall2 Qeq) P2 P1 /\ cW c2 = None /\ kv_eqb (ckv c2) (ckv c1) = true.
Proof. exact c_update_to_refinement. Qed.
Print Assumptions C13_update_to_refinement_is_insertion.


(* non-vacuity: a Bezier parabola equals its refinement by the knot 1/2, in both operand orders; a moved point differs *)
Example C13_nonvacuous :
  let a := mkcurve (mkkv [0; 0; 0; 1; 1; 1] 2) (Some [[1]; [2]; [-3]]) None in
  let b := mkcurve (mkkv [0; 0; 0; 1#2; 1; 1; 1] 2) (Some [[1]; [3#2]; [-1#2]; [-3]]) None in
  let c := mkcurve (mkkv [0; 0; 0; 1#2; 1; 1; 1] 2) (Some [[1]; [3#2]; [-1#3]; [-3]]) None in
  c_eq a b = Ok true /\ c_eq b a = Ok true /\ c_eq a c = Ok false /\ c_eq c a = Ok false.
Proof. vm_compute. repeat split. Qed.

From NurbsV Require Import Spec.BSpline Proofs.Local Proofs.LinIndep Proofs.LinIndepCurves.
From NurbsV Require Proofs.UnionProofs.
(* ---- completeness at equal degree (Proofs/LinIndepCurves.v): two polynomial curves of the same degree that are the same
   function compare equal - both refined copies are knot insertions into the union vector (C04), they represent the same
   function over the same vector, so by linear independence their control points coincide. ---- *)
Theorem C13_complete_equal_degree :
  forall (a b : curve) (Pa0 Pb0 : list pt) (d : nat) (r : bool),
       cW a = None ->
       cP a = Some Pa0 ->
       WF (kvec (ckv a)) (cdeg a) ->
       length Pa0 = cnpts a ->
       Forall (fun q : pt => length q = d) Pa0 ->
       cW b = None ->
       cP b = Some Pb0 ->
       WF (kvec (ckv b)) (cdeg b) ->
       length Pb0 = cnpts b ->
       Forall (fun q : pt => length q = d) Pb0 ->
       cdeg b = cdeg a ->
       UnionProofs.separated (kvec (ckv a) ++ kvec (ckv b)) ->
       first_q (kvec (ckv a)) == first_q (kvec (ckv b)) ->
       last_q (kvec (ckv a)) == last_q (kvec (ckv b)) ->
       (forall u : Q,
        in_range (kvec (ckv a)) (cdeg a) u = true ->
        Forall2 Qeq (curve_spec (kvec (ckv a)) (cdeg a) d Pa0 u) (curve_spec (kvec (ckv b)) (cdeg b) d Pb0 u)) ->
       c_eq a b = Ok r -> r = true.
Proof. exact c_eq_complete. Qed.
Print Assumptions C13_complete_equal_degree.

Theorem C13_complete_equal_degree_true :
  forall (a b : curve) (Pa0 Pb0 : list pt) (d : nat),
       cW a = None ->
       cP a = Some Pa0 ->
       WF (kvec (ckv a)) (cdeg a) ->
       length Pa0 = cnpts a ->
       Forall (fun q : pt => length q = d) Pa0 ->
       cW b = None ->
       cP b = Some Pb0 ->
       WF (kvec (ckv b)) (cdeg b) ->
       length Pb0 = cnpts b ->
       Forall (fun q : pt => length q = d) Pb0 ->
       cdeg b = cdeg a ->
       UnionProofs.separated (kvec (ckv a) ++ kvec (ckv b)) ->
       first_q (kvec (ckv a)) == first_q (kvec (ckv b)) ->
       last_q (kvec (ckv a)) == last_q (kvec (ckv b)) ->
       (forall u : Q,
        in_range (kvec (ckv a)) (cdeg a) u = true ->
        Forall2 Qeq (curve_spec (kvec (ckv a)) (cdeg a) d Pa0 u) (curve_spec (kvec (ckv b)) (cdeg b) d Pb0 u)) ->
       (forall kn : kv,
        kor (ckv a) (ckv b) = Ok kn ->
        (exists T E : mat, spline2spline (ckv a) kn None = Ok (T, E)) /\
        (exists T E : mat, spline2spline (ckv b) kn None = Ok (T, E))) -> c_eq a b = Ok true.
Proof. exact c_eq_complete_true. Qed.
Print Assumptions C13_complete_equal_degree_true.
