(* placeholder until the proofs are re-homed *)
From Coq Require Import QArith.
Example C01_placeholder : (1 + 1 == 2)%Q.
Proof. reflexivity. Qed.
