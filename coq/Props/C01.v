(* PROPERTY C01: for every valid knot vector, control-point list and (optional) positive weight
   list, and every parameter u in [umin, umax], curve(u) equals sum_i R_i(u) * P_i with
   R_i = w_i N_i,p / sum_k w_k N_k,p and N the Cox-de Boor B-spline (Spec/BSpline.v:
   right-continuous at interior knots, left limit at umax), exactly; a sequence of parameters
   yields one point per node in order, and a parameter outside the interval gives ValueError.
   Statements only; the proofs live in Proofs/EvalProofs.v (on top of Proofs/Table.v,
   Proofs/BasisTheory.v, Proofs/KVProofs.v). *)
From Coq Require Import QArith List Bool Arith.
From NurbsV Require Import Base.Res Base.QList Spec.KnotSpec Spec.BSpline Model.KV Model.Basis Model.CurveM.
From NurbsV Require Import Proofs.EvalProofs.
Import ListNotations.
Open Scope Q_scope.

Theorem C01_eval_spline : forall (c : curve) (P : list (list Q)) (d : nat),
  cP c = Some P -> WF (kvec (ckv c)) (cdeg c) -> length P = cnpts c ->
  Forall (fun pt : list Q => length pt = d) P -> pdim P = d ->
  forall u, cW c = None -> kvalid1 (ckv c) u = true ->
  exists v, curve_eval1 c u = Ok v /\
            Forall2 Qeq v (curve_spec (kvec (ckv c)) (cdeg c) d P u).
Proof. exact EvalProofs.C01_eval_spline. Qed.
Print Assumptions C01_eval_spline.

Theorem C01_eval_rational : forall (c : curve) (P : list (list Q)) (d : nat),
  cP c = Some P -> WF (kvec (ckv c)) (cdeg c) -> length P = cnpts c ->
  Forall (fun pt : list Q => length pt = d) P -> pdim P = d ->
  forall Wt u, cW c = Some Wt -> length Wt = cnpts c -> Forall (fun w => 0 < w) Wt ->
  kvalid1 (ckv c) u = true ->
  exists v, curve_eval1 c u = Ok v /\
            Forall2 Qeq v (rational_spec (kvec (ckv c)) (cdeg c) d Wt P u).
Proof. exact EvalProofs.C01_eval_rational. Qed.
Print Assumptions C01_eval_rational.

(* the weight function of positive weights has no zero on the interval *)
Theorem C01_weight_function_positive : forall U p Wt u,
  WF U p -> in_range U p u = true -> length Wt = npts_of U p -> Forall (fun w => 0 < w) Wt ->
  0 < weight_spec U p Wt u.
Proof. exact EvalProofs.weight_spec_pos. Qed.
Print Assumptions C01_weight_function_positive.

Theorem C01_eval_outside : forall (c : curve) (P : list (list Q)),
  cP c = Some P -> forall u, kvalid1 (ckv c) u = false -> curve_eval1 c u = Err ValueError.
Proof. exact EvalProofs.C01_eval_outside. Qed.
Print Assumptions C01_eval_outside.

Theorem C01_eval_seq : forall (c : curve) (P : list (list Q)),
  cP c = Some P -> forall us, curve_eval c us = mapM (curve_eval1 c) us.
Proof. exact EvalProofs.C01_eval_seq. Qed.
Print Assumptions C01_eval_seq.

(* the parameter test of the model is the interval test of the specification *)
Theorem C01_valid_is_in_range : forall k u, kvalid1 k u = in_range (kvec k) (kdeg k) u.
Proof. exact KVProofs.kvalid1_in_range. Qed.
Print Assumptions C01_valid_is_in_range.

(* non-vacuity: a rational degree-2 curve in dimension 2 with a repeated end, evaluated at umax *)
Example C01_nonvacuous :
  exists v, curve_eval1 ex_curve 1 = Ok v /\
  Forall2 Qeq v (rational_spec (kvec ex_kv) 2 2 ex_W ex_P 1).
Proof. exact ex_rational_umax. Qed.
