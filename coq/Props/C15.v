(* PROPERTY C15: after any sequence of public Curve operations len(ctrlpoints) = npts = len(knotvector) - degree - 1 (and
   len(weights) = npts) and the curve evaluates on its whole interval; an operation that raises leaves knot vector,
   control points and weights exactly as they were; non-mutating operations never modify their operands, copies are
   independent, curves built from the same KnotVector object do not affect each other.
   Statements only; proofs in Proofs/InsertCurve.v, Proofs/RemoveBasic.v, Proofs/EvalProofs.v (and Proofs/StateProofs.v).
   In the functional model "operands are not modified" holds by construction; the content of that clause is on the
   Python side and is decided by the snapshots of the check. *)
From Coq Require Import QArith List Bool Arith Permutation.
From NurbsV Require Import Base.Res Base.QList Spec.KnotSpec Spec.BSpline Gen.Consts Model.KV Model.Basis Model.CurveM Model.Ops
  Model.CurveOps Model.Linalg Model.Quadrature Model.LeastSq Model.CurveLS Model.MathOps.
From NurbsV Require Import Proofs.InsertBasic Proofs.InsertCurve Proofs.RemoveBasic Proofs.EvalProofs Proofs.StateProofs.
Import ListNotations.
Open Scope Q_scope.
Theorem C15_insert_keeps_lengths :
  forall (c : curve) (nodes : list Q) (c' : curve) (P : list (list Q)) (d : nat) (u : Q),
       c_knot_insert c nodes = Ok c' ->
       WF (kvec (ckv c)) (cdeg c) ->
       kdeg (ckv c') = cdeg c ->
       cP c = Some P ->
       cW c = None ->
       length P = cnpts c ->
       Forall (fun pt : list Q => length pt = d) P ->
       in_range (kvec (ckv c)) (cdeg c) u = true ->
       exists P' : list pt,
         cP c' = Some P' /\
         cW c' = None /\
         length P' = cnpts c' /\
         Forall2 Qeq (curve_spec (kvec (ckv c')) (cdeg c) d P' u) (curve_spec (kvec (ckv c)) (cdeg c) d P u).
Proof. exact c_knot_insert_spline. Qed.
Print Assumptions C15_insert_keeps_lengths.

Theorem C15_insert_keeps_lengths_rational :
  forall (c : curve) (nodes : list Q) (c' : curve) (P : list (list Q)) (Wt : list Q) (d : nat) (u : Q),
       c_knot_insert c nodes = Ok c' ->
       WF (kvec (ckv c)) (cdeg c) ->
       kdeg (ckv c') = cdeg c ->
       cP c = Some P ->
       cW c = Some Wt ->
       length P = cnpts c ->
       length Wt = cnpts c ->
       Forall (fun pt : list Q => length pt = d) P ->
       in_range (kvec (ckv c)) (cdeg c) u = true ->
       exists (P' : list pt) (W' : list Q),
         cP c' = Some P' /\
         cW c' = Some W' /\
         length P' = cnpts c' /\
         length W' = cnpts c' /\
         Forall2 Qeq (rational_spec (kvec (ckv c')) (cdeg c) d W' P' u)
           (rational_spec (kvec (ckv c)) (cdeg c) d Wt P u).
Proof. exact c_knot_insert_rational. Qed.
Print Assumptions C15_insert_keeps_lengths_rational.

Theorem C15_insert_new_vector_wf :
  forall (c : curve) (ns : list Q) (c' : curve),
       c_knot_insert c ns = Ok c' ->
       kvec (ckv c') = sortq (kvec (ckv c) ++ ns) /\
       sorted_b (kvec (ckv c')) = true /\
       Permutation (kvec (ckv c')) (kvec (ckv c) ++ ns) /\ WF (kvec (ckv c')) (kdeg (ckv c')).
Proof. exact c_knot_insert_knots. Qed.
Print Assumptions C15_insert_new_vector_wf.

Theorem C15_remove_new_vector_wf :
  forall (c : curve) (ns : list Q) (tol : option Q) (c' : curve),
       c_knot_remove c ns tol = Ok c' ->
       exists knew : kv,
         kremove (ckv c) ns = Ok knew /\
         kv_eqb (ckv c') knew = true /\
         WF (kvec knew) (kdeg knew) /\
         (forall z : Q, count_q z (kvec (ckv c)) = (count_q z (kvec knew) + count_q z ns)%nat) /\
         length (kvec (ckv c)) = (length (kvec knew) + length ns)%nat.
Proof. exact c_knot_remove_knots. Qed.
Print Assumptions C15_remove_new_vector_wf.

Theorem C15_update_rebinds_to_requested_vector :
  forall (c : curve) (knew : kv) (tol : option Q) (nodes : option (list Q)) (c' : curve),
       c_update c knew tol nodes = Ok c' -> kv_eqb (ckv c') knew = true.
Proof. exact c_update_kv. Qed.
Print Assumptions C15_update_rebinds_to_requested_vector.

Theorem C15_evaluable :
  forall (c : curve) (P : list (list Q)) (d : nat),
       cP c = Some P ->
       WF (kvec (ckv c)) (cdeg c) ->
       length P = cnpts c ->
       Forall (fun pt : list Q => length pt = d) P ->
       pdim P = d ->
       forall u : Q,
       cW c = None ->
       kvalid1 (ckv c) u = true ->
       exists v : pt, curve_eval1 c u = Ok v /\ Forall2 Qeq v (curve_spec (kvec (ckv c)) (cdeg c) d P u).
Proof. exact C01_eval_spline. Qed.
Print Assumptions C15_evaluable.

(* ---- the invariant over ALL operation histories (Proofs/StateProofs.v): Inv2 = well-formed vector, len(points) = npts,
   equal point dimensions, len(weights) = npts, weights only with points.  mstep applies one of 12 mutators and leaves the
   curve unchanged when it fails. ---- *)
Theorem C15_step_preserves_invariant :
  forall (c : curve) (o : mop), Inv2 c -> Inv2 (fst (mstep c o)).
Proof. exact I5_step. Qed.
Print Assumptions C15_step_preserves_invariant.

Theorem C15_atomic :
  forall (c : curve) (o : mop) (e : exn), snd (mstep c o) = Err e -> fst (mstep c o) = c.
Proof. exact I5_atomic. Qed.
Print Assumptions C15_atomic.

Theorem C15_every_reachable_state :
  forall (ops : list mop) (c0 : curve),
       Inv2 c0 -> Inv2 (fold_left (fun (c : curve) (o : mop) => fst (mstep c o)) ops c0).
Proof. exact I5_reachable. Qed.
Print Assumptions C15_every_reachable_state.

Theorem C15_every_reachable_state_polynomial :
  forall (ops : list mop) (c0 : curve),
       Inv c0 -> cW c0 = None -> Inv (fold_left (fun (c : curve) (o : mop) => fst (mstep c o)) ops c0).
Proof. exact I5_reachable_poly. Qed.
Print Assumptions C15_every_reachable_state_polynomial.

Theorem C15_reachable_states_evaluate :
  forall (ops : list mop) (c0 : curve) (P : list pt),
       Inv2 c0 ->
       let c := fold_left (fun (c : curve) (o : mop) => fst (mstep c o)) ops c0 in
       cP c = Some P ->
       cW c = None -> forall u : Q, kvalid1 (ckv c) u = true -> exists v : pt, curve_eval1 c u = Ok v.
Proof. exact I6_reachable_evaluable. Qed.
Print Assumptions C15_reachable_states_evaluate.

Theorem C15_knot_insert_preserves :
  forall (c : curve) (ns : list Q) (c' : curve), Inv c -> c_knot_insert c ns = Ok c' -> Inv c'.
Proof. exact I1_knot_insert. Qed.
Print Assumptions C15_knot_insert_preserves.

Theorem C15_update_preserves :
  forall (c : curve) (knew : kv) (tol : option Q) (nodes : option (list Q)) (c' : curve),
       Inv c -> Wdep c -> c_update c knew tol nodes = Ok c' -> WF (kvec knew) (kdeg knew) -> Inv c'.
Proof. exact I2_update. Qed.
Print Assumptions C15_update_preserves.

Theorem C15_update_needs_points_with_weights :
  Inv cx_bad /\
       WF (kvec cx_knew) (kdeg cx_knew) /\
       (exists c' : curve, c_update cx_bad cx_knew None None = Ok c' /\ ~ Inv c').
Proof. exact I2_counterexample. Qed.
Print Assumptions C15_update_needs_points_with_weights.

Theorem C15_clean_preserves :
  forall (c : curve) (tol : Q) (c' : curve), Inv2 c -> c_clean c tol = Ok c' -> Inv2 c'.
Proof. exact I4_clean. Qed.
Print Assumptions C15_clean_preserves.


Example C15_nonvacuous_atomic :
  c_knot_insert (mkcurve (mkkv [0; 1#2; 1] 0) (Some [[0]; [-2]]) None) [0; 1] = Err ValueError.
Proof. vm_compute. reflexivity. Qed.
