(* PROPERTY C14: knot_clean, degree_clean and clean leave the curve unchanged as a function (exactly when every accepted
   removal is exact, never by more than the tolerance allows), are idempotent, and remove every knot and degree that
   is exactly removable: two representations of the same curve clean to identical knot vectors and control points.
   Statements only; proofs in Proofs/RemoveBasic.v, Proofs/LSProofs.v.  PART: minimality/idempotence are decided
   per case by the check (they need uniqueness of the minimal B-spline representation), see MANIFEST. *)
From Coq Require Import QArith List Bool Arith.
From NurbsV Require Import Base.Res Base.QList Spec.KnotSpec Gen.Consts Model.KV Model.Basis Model.CurveM Model.Ops
  Model.CurveOps Model.Linalg Model.Quadrature Model.LeastSq Model.CurveLS.
From NurbsV Require Import Proofs.MatProofs Proofs.LSProofs Proofs.RemoveBasic.
Import ListNotations.
Open Scope Q_scope.
Theorem C14_each_accepted_step_within_tolerance :
  forall (c : curve) (knew : kv) (t : Q) (nodes : option (list Q)) (c' : curve),
       c_update c knew (Some t) nodes = Ok c' ->
       kv_eqb knew (ckv c) = false ->
       ~ t == 0 ->
       forall P : list pt,
       cP c = Some P ->
       exists (P' : list pt) (err : Q),
         c_fit_curve knew c nodes = Ok (P', err) /\ err <= t /\ cP c' = Some P'.
Proof. exact c_update_within_tolerance. Qed.
Print Assumptions C14_each_accepted_step_within_tolerance.

Theorem C14_each_step_removes_exactly_the_knot :
  forall (c : curve) (ns : list Q) (tol : option Q) (c' : curve),
       c_knot_remove c ns tol = Ok c' ->
       exists knew : kv,
         kremove (ckv c) ns = Ok knew /\
         kv_eqb (ckv c') knew = true /\
         WF (kvec knew) (kdeg knew) /\
         (forall z : Q, count_q z (kvec (ckv c)) = (count_q z (kvec knew) + count_q z ns)%nat) /\
         length (kvec (ckv c)) = (length (kvec knew) + length ns)%nat.
Proof. exact c_knot_remove_knots. Qed.
Print Assumptions C14_each_step_removes_exactly_the_knot.

Theorem C14_projection_exact_on_refinements :
  forall (kold knew : kv) (T E : mat) (g : grams),
       spline2spline kold knew None = Ok (T, E) ->
       grams_of kold knew = Ok g ->
       forall S : mat,
       shaped (knpts knew) (knpts kold) S ->
       (forall (u : Q) (f gk : list Q),
        In u (quad_nodes kold knew) ->
        basis_row kold (kdeg kold) u = Ok f -> basis_row knew (kdeg knew) u = Ok gk -> veq gk (mvec S f)) ->
       meq (mmul_n (knpts knew) T (mtrans_n (knpts kold) S)) (ident (knpts knew)).
Proof. exact spline2spline_left_inverse. Qed.
Print Assumptions C14_projection_exact_on_refinements.

(* every loop of clean has a bound that the model never exhausts on these inputs: each accepted removal shortens
   the knot vector by one (C14_each_step_removes_exactly_the_knot), so at most length U removals are accepted. *)
Example C14_nonvacuous :
  let c0 := mkcurve (mkkv [0; 0; 0; 1#2; 1; 1; 1] 2) (Some [[1]; [3]; [-2]; [5]]) None in
  match c_knot_insert c0 [1#4; 1#2], c_degree_increase c0 1 with
  | Ok c1, Ok c2 =>
      match c_clean c1 tol_clean, c_clean c2 tol_clean with
      | Ok d1, Ok d2 => curve_eqb d1 c0 && curve_eqb d2 c0
      | _, _ => false
      end
  | _, _ => false
  end = true.
Proof. vm_compute. reflexivity. Qed.

From NurbsV Require Import Spec.BSpline Proofs.Local Proofs.CleanProofs.
(* ---- the clean loop (Proofs/CleanProofs.v): it ends because a further removal is REFUSED, never because its fuel ran out (the fuel the
   library's loop has is always enough); counts of other knots are untouched and the vector stays well-formed; a copy that is exactly
   removable (some coarser coefficient list gives the same function) is removed, exactly; consequently knot_clean UNDOES k insertions of
   a knot: it passes through a state that is the original curve (vector and control points up to ==) and every inserted copy is gone.
   `certs` is the chain of linear solves the loop performs (a certificate of the model's Gauss-Jordan, checkable by vm_compute). ---- *)
Theorem C14_loop_stops_only_at_refusal :
  forall (c : curve) (x : Q) (tol : option Q),
       exists e : exn, c_knot_remove (remove_while (length (kvec (ckv c))) c x tol) [x] tol = Err e.
Proof. exact remove_while_length_refused. Qed.
Print Assumptions C14_loop_stops_only_at_refusal.

Theorem C14_loop_counts :
  forall (fuel : nat) (c : curve) (x : Q) (tol : option Q),
       exists j : nat,
         (j <= fuel)%nat /\
         length (kvec (ckv c)) = (length (kvec (ckv (remove_while fuel c x tol))) + j)%nat /\
         (forall z : Q,
          count_q z (kvec (ckv c)) =
          (count_q z (kvec (ckv (remove_while fuel c x tol))) + (if Qeqb z x then j else 0))%nat).
Proof. exact remove_while_counts. Qed.
Print Assumptions C14_loop_counts.

Theorem C14_loop_keeps_wellformed :
  forall (fuel : nat) (c : curve) (x : Q) (tol : option Q),
       WF (kvec (ckv c)) (kdeg (ckv c)) ->
       WF (kvec (ckv (remove_while fuel c x tol))) (kdeg (ckv (remove_while fuel c x tol))).
Proof. exact remove_while_wf. Qed.
Print Assumptions C14_loop_keeps_wellformed.

Theorem C14_knot_clean_result_admits_no_removal :
  forall (c : curve) (x tol : Q) (r : curve),
       c_knot_clean c (Some [x]) tol = Ok r ->
       r = c /\ (x == kumin (ckv c) \/ x == kumax (ckv c)) \/
       r = remove_while (length (kvec (ckv c))) c x (Some tol) /\
       (exists e : exn, c_knot_remove r [x] (Some tol) = Err e).
Proof. exact knot_clean_single_refused. Qed.
Print Assumptions C14_knot_clean_result_admits_no_removal.

Theorem C14_removable_copy_is_removed_exactly :
  forall (c1 : curve) (P1 : list pt) (d : nat) (x : Q) (knew : kv) (Q0 : list pt),
       cW c1 = None ->
       cP c1 = Some P1 ->
       WF (kvec (ckv c1)) (cdeg c1) ->
       length P1 = cnpts c1 ->
       Forall (fun q : pt => length q = d) P1 ->
       kremove (ckv c1) [x] = Ok knew ->
       kdeg knew = cdeg c1 ->
       limits_eqb (ckv c1) knew = true ->
       length Q0 = knpts knew ->
       Forall (fun q : pt => length q = d) Q0 ->
       (forall u : Q,
        in_range (kvec (ckv c1)) (cdeg c1) u = true ->
        Forall2 Qeq (curve_spec (kvec knew) (kdeg knew) d Q0 u) (curve_spec (kvec (ckv c1)) (cdeg c1) d P1 u)) ->
       forall (t : Q) (T E : mat),
       0 <= t ->
       spline2spline (ckv c1) knew (knots_opt knew) = Ok (T, E) ->
       exists (c2 : curve) (P2 : list pt),
         c_knot_remove c1 [x] (Some t) = Ok c2 /\
         (forall f : nat, remove_while (S f) c1 x (Some t) = remove_while f c2 x (Some t)) /\
         ckv c2 = knew /\ cP c2 = Some P2 /\ Forall2 (Forall2 Qeq) P2 Q0 /\ cW c2 = None.
Proof. exact remove_while_exact_step. Qed.
Print Assumptions C14_removable_copy_is_removed_exactly.

Theorem C14_knot_clean_undoes_insertion :
  forall (q : curve) (Pq : list pt) (d : nat) (x : Q) (k : nat) (c1 : curve) (t : Q) (r : curve),
       cW q = None ->
       cP q = Some Pq ->
       WF (kvec (ckv q)) (cdeg q) ->
       length Pq = cnpts q ->
       Forall (fun p : pt => length p = d) Pq ->
       first_q (kvec (ckv q)) < x < last_q (kvec (ckv q)) ->
       c_knot_insert q (repeat x k) = Ok c1 ->
       kdeg (ckv c1) = cdeg q ->
       certs x k (ckv c1) ->
       c_knot_clean c1 (Some [x]) t = Ok r ->
       (exists (c2 : curve) (P2 : list pt),
          r = remove_while (length (kvec (ckv c1)) - k) c2 x (Some t) /\
          cW c2 = None /\
          cP c2 = Some P2 /\
          Forall2 Qeq (kvec (ckv c2)) (kvec (ckv q)) /\ kdeg (ckv c2) = cdeg q /\ Forall2 (Forall2 Qeq) P2 Pq) /\
       (count_q x (kvec (ckv r)) <= count_q x (kvec (ckv q)))%nat /\
       (forall y : Q, ~ y == x -> count_q y (kvec (ckv r)) = count_q y (kvec (ckv q))) /\
       (exists e : exn, c_knot_remove r [x] (Some t) = Err e).
Proof. exact knot_clean_undoes_insert. Qed.
Print Assumptions C14_knot_clean_undoes_insertion.

From NurbsV Require Import Proofs.SmallClosures.
From NurbsV Require Proofs.UnionProofs Proofs.BezierProofs.
(* ---- degree_clean (Proofs/SmallClosures.v): the loop ends because a further reduction is REFUSED (a degree-0 curve is refused; each accepted
   step lowers the degree by one); for a Bezier curve elevated t times it passes through the original curve (degree, knots and control
   points up to ==), for every t, given the chain of solve certificates `dcerts` (checkable by vm_compute). ---- *)
Theorem C14_degree_loop_stops_only_at_refusal :
  forall (c : curve) (tol : Q) (r : curve),
       WF (kvec (ckv c)) (kdeg (ckv c)) ->
       c_degree_clean c tol = Ok r ->
       0 <= tol /\
       WF (kvec (ckv r)) (kdeg (ckv r)) /\
       (kdeg (ckv r) <= kdeg (ckv c))%nat /\ (exists e : exn, c_degree_decrease r 1 (Some tol) = Err e).
Proof. exact degree_clean_ends_refused. Qed.
Print Assumptions C14_degree_loop_stops_only_at_refusal.

Theorem C14_degree_clean_undoes_bezier_elevation :
  forall (q : curve) (Pq : list pt) (d p : nat) (a b : Q) (tt : nat) (c1 : curve) (t : Q) (r : curve),
       cW q = None ->
       cP q = Some Pq ->
       Forall2 Qeq (kvec (ckv q)) (BezierProofs.bez p a b) ->
       cdeg q = p ->
       a < b ->
       length Pq = cnpts q ->
       Forall (fun x : pt => length x = d) Pq ->
       c_degree_increase q tt = Ok c1 ->
       dcerts tt (ckv c1) ->
       c_degree_clean c1 t = Ok r ->
       (exists (c2 : curve) (P2 : list pt),
          r = decrease_while (S (kdeg (ckv c1)) - tt) c2 t /\
          cW c2 = None /\
          cP c2 = Some P2 /\
          WF (kvec (ckv c2)) (kdeg (ckv c2)) /\
          Forall2 Qeq (kvec (ckv c2)) (kvec (ckv q)) /\ kdeg (ckv c2) = cdeg q /\ Forall2 (Forall2 Qeq) P2 Pq) /\
       (kdeg (ckv r) <= cdeg q)%nat /\ (exists e : exn, c_degree_decrease r 1 (Some t) = Err e).
Proof. exact degree_clean_undoes_elevation. Qed.
Print Assumptions C14_degree_clean_undoes_bezier_elevation.
