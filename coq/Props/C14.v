(* PROPERTY C14: knot_clean, degree_clean and clean leave the curve unchanged as a function (exactly when every accepted
   removal is exact, never by more than the tolerance allows), are idempotent, and remove every knot and degree that
   is exactly removable: two representations of the same curve clean to identical knot vectors and control points.
   Statements only; proofs in Proofs/RemoveBasic.v, Proofs/LSProofs.v.  PART: minimality/idempotence are decided
   per case by the check (they need uniqueness of the minimal B-spline representation), see MANIFEST. *)
From Coq Require Import QArith List Bool Arith.
From NurbsV Require Import Base.Res Base.QList Spec.KnotSpec Gen.Consts Model.KV Model.Basis Model.CurveM Model.Ops
  Model.CurveOps Model.Linalg Model.Quadrature Model.LeastSq Model.CurveLS.
From NurbsV Require Import Proofs.MatProofs Proofs.LSProofs Proofs.RemoveBasic.
Import ListNotations.
Open Scope Q_scope.
Theorem C14_each_accepted_step_within_tolerance :
  forall (c : curve) (knew : kv) (t : Q) (nodes : option (list Q)) (c' : curve),
       c_update c knew (Some t) nodes = Ok c' ->
       kv_eqb knew (ckv c) = false ->
       ~ t == 0 ->
       forall P : list pt,
       cP c = Some P ->
       exists (P' : list pt) (err : Q),
         c_fit_curve knew c nodes = Ok (P', err) /\ err <= t /\ cP c' = Some P'.
Proof. exact c_update_within_tolerance. Qed.
Print Assumptions C14_each_accepted_step_within_tolerance.

Theorem C14_each_step_removes_exactly_the_knot :
  forall (c : curve) (ns : list Q) (tol : option Q) (c' : curve),
       c_knot_remove c ns tol = Ok c' ->
       exists knew : kv,
         kremove (ckv c) ns = Ok knew /\
         kv_eqb (ckv c') knew = true /\
         WF (kvec knew) (kdeg knew) /\
         (forall z : Q, count_q z (kvec (ckv c)) = (count_q z (kvec knew) + count_q z ns)%nat) /\
         length (kvec (ckv c)) = (length (kvec knew) + length ns)%nat.
Proof. exact c_knot_remove_knots. Qed.
Print Assumptions C14_each_step_removes_exactly_the_knot.

Theorem C14_projection_exact_on_refinements :
  forall (kold knew : kv) (T E : mat) (g : grams),
       spline2spline kold knew None = Ok (T, E) ->
       grams_of kold knew = Ok g ->
       forall S : mat,
       shaped (knpts knew) (knpts kold) S ->
       (forall (u : Q) (f gk : list Q),
        In u (quad_nodes kold knew) ->
        basis_row kold (kdeg kold) u = Ok f -> basis_row knew (kdeg knew) u = Ok gk -> veq gk (mvec S f)) ->
       meq (mmul_n (knpts knew) T (mtrans_n (knpts kold) S)) (ident (knpts knew)).
Proof. exact spline2spline_left_inverse. Qed.
Print Assumptions C14_projection_exact_on_refinements.

(* every loop of clean has a bound that the model never exhausts on these inputs: each accepted removal shortens
   the knot vector by one (C14_each_step_removes_exactly_the_knot), so at most length U removals are accepted. *)
Example C14_nonvacuous :
  let c0 := mkcurve (mkkv [0; 0; 0; 1#2; 1; 1; 1] 2) (Some [[1]; [3]; [-2]; [5]]) None in
  match c_knot_insert c0 [1#4; 1#2], c_degree_increase c0 1 with
  | Ok c1, Ok c2 =>
      match c_clean c1 tol_clean, c_clean c2 tol_clean with
      | Ok d1, Ok d2 => curve_eqb d1 c0 && curve_eqb d2 c0
      | _, _ => false
      end
  | _, _ => false
  end = true.
Proof. vm_compute. reflexivity. Qed.
