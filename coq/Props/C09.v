(* PROPERTY C09: D = Derivate(C) is a curve on the same interval with D(u) = dC/du at every u interior to a span; a
   degree-0 curve gives the zero curve; C is not modified; for rational curves the quotient rule holds pointwise.
   Statements only; proofs in Proofs/QuadProofs.v (and Proofs/DerivProofs.v).  The integral identity used by the
   check's oracle is exact because the open Newton-Cotes rule is exact on the polynomial pieces (C10). *)
From Coq Require Import QArith List Bool Arith.
From NurbsV Require Import Base.Res Base.QList Gen.Consts Model.KV Model.CurveM Model.Ops Model.Linalg Model.Quadrature Model.Calculus.
From NurbsV Require Import Proofs.MatProofs Proofs.QuadProofs.
Import ListNotations.
Open Scope Q_scope.
Theorem C09_oracle_rule_exact :
  forall (n : nat) (w : list Q),
       compute_open n = Ok w -> exists x : list Q, open_linspace n = Ok x /\ exact_rule n x w.
Proof. exact compute_open_exact. Qed.
Print Assumptions C09_oracle_rule_exact.

Theorem C09_oracle_nodes_interior :
  forall (n : nat) (x : list Q),
       open_linspace n = Ok x ->
       (0 < n)%nat /\
       length x = n /\
       (forall i j : nat, (i < j)%nat -> (j < n)%nat -> nth i x 0 < nth j x 0) /\
       (forall k : nat, (k < n)%nat -> 0 < nth k x 0 < 1).
Proof. exact open_linspace_nodes. Qed.
Print Assumptions C09_oracle_nodes_interior.

(* non-vacuity: derivative of a two-span quadratic with a jump (interior knot of full multiplicity), by the model *)
Example C09_nonvacuous :
  match c_derivate (mkcurve (mkkv [0; 0; 0; 1#2; 1#2; 1#2; 1; 1; 1] 2) (Some [[1]; [2]; [0]; [5]; [3]; [4]]) None) with
  | Ok d => ql_eqb (kvec (ckv d)) [0; 0; 1#2; 1#2; 1; 1] && opt_eqb ptl_eqb (cP d) (Some [[4]; [-8]; [-8]; [4]])
  | Err _ => false
  end = true.
Proof. vm_compute. reflexivity. Qed.
Example C09_nonvacuous_degree0 :
  match c_derivate (mkcurve (mkkv [0; 1#2; 1] 0) (Some [[3]; [7]]) None) with
  | Ok d => ql_eqb (kvec (ckv d)) [0; 1] && opt_eqb ptl_eqb (cP d) (Some [[0]])
  | Err _ => false
  end = true.
Proof. vm_compute. reflexivity. Qed.
