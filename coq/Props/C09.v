(* PROPERTY C09: D = Derivate(C) is a curve on the same interval with D(u) = dC/du at every u interior to a span; a
   degree-0 curve gives the zero curve; C is not modified; for rational curves the quotient rule holds pointwise.
   Statements only; proofs in Proofs/QuadProofs.v (and Proofs/DerivProofs.v).  The integral identity used by the
   check's oracle is exact because the open Newton-Cotes rule is exact on the polynomial pieces (C10). *)
From Coq Require Import QArith Qabs List Bool Arith.
From NurbsV Require Import Base.Res Base.QList Spec.BSpline Gen.Consts Model.KV Model.CurveM Model.Ops Model.Linalg Model.Quadrature Model.Calculus.
From NurbsV Require Import Proofs.Local Proofs.MatProofs Proofs.QuadProofs Proofs.DerivProofs.
Import ListNotations.
Open Scope Q_scope.
Theorem C09_oracle_rule_exact :
  forall (n : nat) (w : list Q),
       compute_open n = Ok w -> exists x : list Q, open_linspace n = Ok x /\ exact_rule n x w.
Proof. exact compute_open_exact. Qed.
Print Assumptions C09_oracle_rule_exact.

Theorem C09_oracle_nodes_interior :
  forall (n : nat) (x : list Q),
       open_linspace n = Ok x ->
       (0 < n)%nat /\
       length x = n /\
       (forall i j : nat, (i < j)%nat -> (j < n)%nat -> nth i x 0 < nth j x 0) /\
       (forall k : nat, (k < n)%nat -> 0 < nth k x 0 < 1).
Proof. exact open_linspace_nodes. Qed.
Print Assumptions C09_oracle_nodes_interior.

(* ---- the B-spline derivative formula, every degree and index (Proofs/DerivProofs.v): dNloc is the derivative of the
   span-local polynomial Nloc (Taylor form with explicit remainder, and an epsilon-delta statement over Q); it equals
   j (N_{i,j-1}/(u_{i+j}-u_i) - N_{i+1,j-1}/(u_{i+j+1}-u_{i+1})); summation by parts gives the derivative curve with exactly
   the coefficients the model's difference_points computes. ---- *)
Theorem C09_taylor :
  forall (U : nat -> Q) (s : nat) (u h : Q) (j i : nat),
       Nloc U s j i (u + h) == Nloc U s j i u + h * dNloc U s j i u + h * h * rem U s j i u h.
Proof. exact Nloc_taylor. Qed.
Print Assumptions C09_taylor.

Theorem C09_is_the_derivative :
  forall (U : nat -> Q) (s : nat) (u : Q) (j i : nat) (eps : Q),
       0 < eps ->
       exists delta : Q,
         0 < delta /\
         (forall h : Q,
          ~ h == 0 ->
          Qabs h < delta -> Qabs ((Nloc U s j i (u + h) - Nloc U s j i u) / h - dNloc U s j i u) < eps).
Proof. exact Nloc_derivative. Qed.
Print Assumptions C09_is_the_derivative.

Theorem C09_derivative_formula :
  forall (U : nat -> Q) (s : nat),
       mono U ->
       U s < U (S s) ->
       forall (u : Q) (j i : nat),
       (1 <= j)%nat ->
       dNloc U s j i u ==
       inject_Z (Z.of_nat j) *
       (Nloc U s (j - 1) i u / (U (i + j)%nat - U i) -
        Nloc U s (j - 1) (S i) u / (U (i + j + 1)%nat - U (i + 1)%nat)).
Proof. exact dNloc_formula. Qed.
Print Assumptions C09_derivative_formula.

Theorem C09_curve_derivative :
  forall (U : nat -> Q) (s : nat),
       mono U ->
       U s < U (S s) ->
       forall (u : Q) (p n : nat) (P : nat -> Q),
       (1 <= p)%nat ->
       (p <= s)%nat ->
       (s < n)%nat ->
       qsum (map (fun i : nat => dNloc U s p i u * P i) (seq 0 n)) ==
       qsum (map (fun i : nat => Nloc U s (p - 1) (S i) u * dcoef U p P i) (seq 0 (n - 1))).
Proof. exact deriv_curve_seq. Qed.
Print Assumptions C09_curve_derivative.

Theorem C09_curve_derivative_shifted :
  forall (U : nat -> Q) (s : nat),
       mono U ->
       U s < U (S s) ->
       forall (u : Q) (p n : nat) (P : nat -> Q),
       (1 <= p)%nat ->
       (p <= s)%nat ->
       (s < n)%nat ->
       qsum (map (fun i : nat => dNloc U s p i u * P i) (seq 0 n)) ==
       qsum
         (map
            (fun i : nat =>
             Nloc (fun m : nat => U (S m)) (s - 1) (p - 1) i u *
             (inject_Z (Z.of_nat p) / (U (S (i + p)) - U (S i)) * (P (S i) - P i))) 
            (seq 0 (n - 1))).
Proof. exact deriv_curve_shift. Qed.
Print Assumptions C09_curve_derivative_shifted.

Theorem C09_model_coefficients :
  forall (U : list Q) (p : nat) (P : list pt) (i k : nat),
       (i < length P - 1)%nat ->
       (k < length (nth (S i) P []))%nat ->
       (k < length (nth i P []))%nat ->
       nth k (nth i (difference_points U p P) []) 0 ==
       dcoef (nthq U) p (fun m : nat => nth k (nth m P []) 0) i.
Proof. exact difference_points_coef. Qed.
Print Assumptions C09_model_coefficients.

Theorem C09_model_curve_derivative :
  forall (U : list Q) (p s d k : nat) (P : list pt) (u : Q),
       mono (nthq U) ->
       nthq U s < nthq U (S s) ->
       (1 <= p)%nat ->
       (p <= s)%nat ->
       (s < length P)%nat ->
       (forall i : nat, (i < length P)%nat -> length (nth i P []) = d) ->
       (k < d)%nat ->
       qsum (map (fun i : nat => dNloc (nthq U) s p i u * nth k (nth i P []) 0) (seq 0 (length P))) ==
       qsum
         (map (fun i : nat => Nloc (nthq U) s (p - 1) (S i) u * nth k (nth i (difference_points U p P) []) 0)
            (seq 0 (length (difference_points U p P)))).
Proof. exact deriv_curve_model. Qed.
Print Assumptions C09_model_curve_derivative.

Theorem C09_partition_derivative_zero :
  forall (U : nat -> Q) (s : nat) (u : Q) (p n : nat),
       mono U ->
       U s < U (S s) ->
       (1 <= p)%nat ->
       (p <= s)%nat -> (s < n)%nat -> qsum (map (fun i : nat => dNloc U s p i u) (seq 0 n)) == 0.
Proof. exact dNloc_sum_zero. Qed.
Print Assumptions C09_partition_derivative_zero.


(* non-vacuity: derivative of a two-span quadratic with a jump (interior knot of full multiplicity), by the model *)
Example C09_nonvacuous :
  match c_derivate (mkcurve (mkkv [0; 0; 0; 1#2; 1#2; 1#2; 1; 1; 1] 2) (Some [[1]; [2]; [0]; [5]; [3]; [4]]) None) with
  | Ok d => ql_eqb (kvec (ckv d)) [0; 0; 1#2; 1#2; 1; 1] && opt_eqb ptl_eqb (cP d) (Some [[4]; [-8]; [-8]; [4]])
  | Err _ => false
  end = true.
Proof. vm_compute. reflexivity. Qed.
Example C09_nonvacuous_degree0 :
  match c_derivate (mkcurve (mkkv [0; 1#2; 1] 0) (Some [[3]; [7]]) None) with
  | Ok d => ql_eqb (kvec (ckv d)) [0; 1] && opt_eqb ptl_eqb (cP d) (Some [[0]])
  | Err _ => false
  end = true.
Proof. vm_compute. reflexivity. Qed.

From NurbsV Require Import Spec.BSpline Proofs.Local Proofs.DerivProofs Proofs.QuotientRule.
(* ---- the quotient rule (Proofs/QuotientRule.v): with num = sum w_i P_i N_i, den = sum w_i N_i and their formal derivatives (the same
   sums over dNloc), the NURBS value R = num / den has the derivative dR = (num' den - num den') / den^2 wherever den <> 0 - in
   epsilon-delta form over Q, from the Taylor expansions with bounded remainders of numerator and denominator and the continuity of
   the denominator; transferred to rational_spec1 / rational_spec on every open span of a list knot vector (drational1 is that dR). ---- *)
Theorem C09_quotient_rule_span :
  forall (U : nat -> Q) (s p n : nat) (w P : nat -> Q) (u : Q),
       ~ den U s p n w u == 0 ->
       forall eps : Q,
       0 < eps ->
       exists delta : Q,
         0 < delta /\
         (forall h : Q,
          ~ h == 0 ->
          Qabs h < delta -> Qabs ((R U s p n w P (u + h) - R U s p n w P u) / h - dR U s p n w P u) < eps).
Proof. exact quotient_rule. Qed.
Print Assumptions C09_quotient_rule_span.

Theorem C09_quotient_rule_rational_curve :
  forall (U : list Q) (p : nat) (W P : list Q) (s : nat) (u : Q),
       mono (nthq U) ->
       nthq U s < u ->
       u < nthq U (S s) ->
       ~ weight_spec U p W u == 0 ->
       forall eps : Q,
       0 < eps ->
       exists delta : Q,
         0 < delta /\
         (forall h : Q,
          ~ h == 0 ->
          Qabs h < delta ->
          Qabs ((rational_spec1 U p W P (u + h) - rational_spec1 U p W P u) / h - drational1 U p W P s u) <
          eps).
Proof. exact rational_spec1_derivative. Qed.
Print Assumptions C09_quotient_rule_rational_curve.

Theorem C09_quotient_rule_rational_curve_points :
  forall (U : list Q) (p d : nat) (W : list Q) (P : list (list Q)) (s : nat) (u : Q) (k : nat),
       (k < d)%nat ->
       mono (nthq U) ->
       nthq U s < u ->
       u < nthq U (S s) ->
       ~ weight_spec U p W u == 0 ->
       forall eps : Q,
       0 < eps ->
       exists delta : Q,
         0 < delta /\
         (forall h : Q,
          ~ h == 0 ->
          Qabs h < delta ->
          Qabs
            ((nth k (rational_spec U p d W P (u + h)) 0 - nth k (rational_spec U p d W P u) 0) / h -
             drational1 U p W (coord k P) s u) < eps).
Proof. exact rational_spec_derivative. Qed.
Print Assumptions C09_quotient_rule_rational_curve_points.

Theorem C09_weight_function_continuous :
  forall (U : list Q) (p : nat) (W : list Q) (s : nat) (u : Q),
       mono (nthq U) ->
       nthq U s < u ->
       u < nthq U (S s) ->
       ~ weight_spec U p W u == 0 ->
       exists delta : Q,
         0 < delta /\
         (forall h : Q,
          Qabs h < delta ->
          Qabs (weight_spec U p W u) / 2 <= Qabs (weight_spec U p W (u + h)) /\
          ~ weight_spec U p W (u + h) == 0).
Proof. exact weight_spec_continuity. Qed.
Print Assumptions C09_weight_function_continuous.

