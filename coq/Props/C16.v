(* PROPERTY C16: with Fraction knots and parameters and int/Fraction control points and weights the operations return exact
   rational numbers equal to the mathematically exact result; the same data as floats give the same values up to
   rounding; control points supporting only point+point and scalar*point suffice for evaluation, insertion, elevation
   and splitting.
   Statements only.  In the model every number is an exact rational, so "no float is introduced" is true by construction
   and exactness IS the value theorems of C01, C02, C04-C08, C10-C12; what remains to state here is that results do not
   depend on how a rational is WRITTEN (setoid invariance: unreduced fractions, equal knots given by different
   representatives).  The type and float clauses are decided by the check. *)
From Coq Require Import QArith List Bool Arith.
From NurbsV Require Import Base.Res Base.QList Spec.KnotSpec Spec.BSpline Model.KV Model.Basis Model.CurveM Model.Ops.
From NurbsV Require Import Proofs.EvalProofs Proofs.InsertCompose Proofs.InsertList Proofs.GenProofs.
Import ListNotations.
Open Scope Q_scope.
Theorem C16_basis_invariant_in_parameter :
  forall (U : list Q) (p j i : nat) (u u' : Q), u == u' -> Nspec U p j i u == Nspec U p j i u'.
Proof. exact Nspec_proper. Qed.
Print Assumptions C16_basis_invariant_in_parameter.

Theorem C16_basis_invariant_in_knots :
  forall (U V : nat -> Q) (n : nat) (u v : Q),
       (forall i : nat, U i == V i) -> u == v -> forall j i : nat, N U n j i u == N V n j i v.
Proof. exact N_ext. Qed.
Print Assumptions C16_basis_invariant_in_knots.

Theorem C16_curve_invariant_in_knots :
  forall (U1 U2 : list Q) (p : nat) (P : list Q) (u : Q),
       Forall2 Qeq U1 U2 -> curve_spec1 U1 p P u == curve_spec1 U2 p P u.
Proof. exact curve_spec1_knots_proper. Qed.
Print Assumptions C16_curve_invariant_in_knots.

Theorem C16_model_value_is_exact_spline :
  forall (c : curve) (P : list (list Q)) (d : nat),
       cP c = Some P ->
       WF (kvec (ckv c)) (cdeg c) ->
       length P = cnpts c ->
       Forall (fun pt : list Q => length pt = d) P ->
       pdim P = d ->
       forall u : Q,
       cW c = None ->
       kvalid1 (ckv c) u = true ->
       exists v : pt, curve_eval1 c u = Ok v /\ Forall2 Qeq v (curve_spec (kvec (ckv c)) (cdeg c) d P u).
Proof. exact C01_eval_spline. Qed.
Print Assumptions C16_model_value_is_exact_spline.

Theorem C16_model_value_is_exact_rational :
  forall (c : curve) (P : list (list Q)) (d : nat),
       cP c = Some P ->
       WF (kvec (ckv c)) (cdeg c) ->
       length P = cnpts c ->
       Forall (fun pt : list Q => length pt = d) P ->
       pdim P = d ->
       forall (Wt : list Q) (u : Q),
       cW c = Some Wt ->
       length Wt = cnpts c ->
       Forall (fun w : Q => 0 < w) Wt ->
       kvalid1 (ckv c) u = true ->
       exists v : pt,
         curve_eval1 c u = Ok v /\ Forall2 Qeq v (rational_spec (kvec (ckv c)) (cdeg c) d Wt P u).
Proof. exact C01_eval_rational. Qed.
Print Assumptions C16_model_value_is_exact_rational.

Theorem C16_reduced_horner :
  forall (p : list Q) (t : Q), horner_red p t == horner p t.
Proof. exact horner_red_correct. Qed.
Print Assumptions C16_reduced_horner.

Example C16_nonvacuous : Nspec [0; 0; 2#4; 1; 1] 1 1 1 (3#12) == Nspec [0; 0; 1#2; 1; 1] 1 1 1 (1#4).
Proof. vm_compute. reflexivity. Qed.
