(* PROPERTY C20: Intersection.curve_and_curve(A, B) returns pairs (t, u) inside both parameter intervals with A(t) = B(u),
   without duplicates; for curves that do not meet it returns the empty tuple, and for transversal crossings of straight
   segments and polylines it returns every crossing; the curves are not modified.
   Statements only; proofs in Proofs/AdvancedProofs.v (exact model of the piecewise-linear class). *)
From Coq Require Import QArith List Bool Arith.
From NurbsV Require Import Base.Res Base.QList Model.KV Model.Advanced.
Import ListNotations.
Open Scope Q_scope.

Example C20_nonvacuous_cross :
  intersect_polylines [0; 1] [[0; 0]; [2; 2]] [0; 2] [[0; 2]; [2; 0]] = [(1#2, 1)].
Proof. vm_compute. reflexivity. Qed.
Example C20_nonvacuous_disjoint :
  intersect_polylines [0; 1] [[0; 0]; [1; 0]] [0; 1] [[0; 1]; [1; 1]] = [].
Proof. vm_compute. reflexivity. Qed.
