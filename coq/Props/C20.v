(* PROPERTY C20: Intersection.curve_and_curve(A, B) returns pairs (t, u) inside both parameter intervals with A(t) = B(u),
   without duplicates; for curves that do not meet it returns the empty tuple, and for transversal crossings of straight
   segments and polylines it returns every crossing; the curves are not modified.
   Statements only; proofs in Proofs/AdvancedProofs.v (exact model of the piecewise-linear class). *)
From Coq Require Import QArith List Bool Arith.
From NurbsV Require Import Base.Res Base.QList Spec.KnotSpec Model.KV Model.Advanced.
From NurbsV Require Import Proofs.MatProofs Proofs.AdvancedProofs.
Import ListNotations.
Open Scope Q_scope.

Theorem C20_sound :
  forall (a b : Q) (p q : list Q) (c d : Q) (v w : list Q) (t u : Q),
       a < b ->
       c < d ->
       length p = 2%nat ->
       length q = 2%nat ->
       length v = 2%nat ->
       length w = 2%nat ->
       seg_intersect (a, b, p, q) (c, d, v, w) = Some (t, u) ->
       a <= t <= b /\ c <= u <= d /\ veq (seg_point (a, b, p, q) t) (seg_point (c, d, v, w) u).
Proof. exact seg_intersect_sound. Qed.
Print Assumptions C20_sound.

Theorem C20_complete_transversal :
  forall (a b : Q) (p q : list Q) (c d : Q) (v w : list Q) (t u : Q),
       a < b ->
       c < d ->
       length p = 2%nat ->
       length q = 2%nat ->
       length v = 2%nat ->
       length w = 2%nat ->
       ~
       (nth 0 q 0 - nth 0 p 0) * (nth 1 w 0 - nth 1 v 0) - (nth 1 q 0 - nth 1 p 0) * (nth 0 w 0 - nth 0 v 0) ==
       0 ->
       a <= t <= b ->
       c <= u <= d ->
       veq (seg_point (a, b, p, q) t) (seg_point (c, d, v, w) u) ->
       exists t' u' : Q, seg_intersect (a, b, p, q) (c, d, v, w) = Some (t', u') /\ t' == t /\ u' == u.
Proof. exact seg_intersect_complete. Qed.
Print Assumptions C20_complete_transversal.

Theorem C20_polylines_sound :
  forall (ka : list Q) (Pa : list pt) (kb : list Q) (Pb : list pt) (t u : Q),
       sincr ka ->
       sincr kb ->
       planar Pa ->
       planar Pb ->
       In (t, u) (intersect_polylines ka Pa kb Pb) ->
       first_q ka <= t <= last_q ka /\
       first_q kb <= u <= last_q kb /\
       (exists (a b : Q) (p q : pt) (c d : Q) (v w : pt),
          In (a, b, p, q) (segments ka Pa) /\
          In (c, d, v, w) (segments kb Pb) /\
          seg_intersect (a, b, p, q) (c, d, v, w) = Some (t, u) /\
          a <= t <= b /\ c <= u <= d /\ veq (seg_point (a, b, p, q) t) (seg_point (c, d, v, w) u)).
Proof. exact intersect_polylines_sound. Qed.
Print Assumptions C20_polylines_sound.

Theorem C20_polylines_no_duplicates :
  forall (ka : list Q) (Pa : list pt) (kb : list Q) (Pb : list pt),
       ForallOrdPairs pair_distinct (intersect_polylines ka Pa kb Pb).
Proof. exact intersect_polylines_nodup. Qed.
Print Assumptions C20_polylines_no_duplicates.

Theorem C20_polylines_disjoint_empty :
  forall (ka : list Q) (Pa : list pt) (kb : list Q) (Pb : list pt),
       sincr ka ->
       sincr kb ->
       planar Pa ->
       planar Pb ->
       (forall (a b : Q) (p q : pt) (c d : Q) (v w : pt),
        In (a, b, p, q) (segments ka Pa) ->
        In (c, d, v, w) (segments kb Pb) ->
        forall t u : Q,
        a <= t <= b -> c <= u <= d -> ~ veq (seg_point (a, b, p, q) t) (seg_point (c, d, v, w) u)) ->
       intersect_polylines ka Pa kb Pb = [].
Proof. exact intersect_polylines_empty. Qed.
Print Assumptions C20_polylines_disjoint_empty.

Theorem C20_polylines_complete :
  forall (ka : list Q) (Pa : list pt) (kb : list Q) (Pb : list pt) (a b : Q) 
         (p q : pt) (c d : Q) (v w : pt) (t u : Q),
       sincr ka ->
       sincr kb ->
       planar Pa ->
       planar Pb ->
       In (a, b, p, q) (segments ka Pa) ->
       In (c, d, v, w) (segments kb Pb) ->
       ~
       (nth 0 q 0 - nth 0 p 0) * (nth 1 w 0 - nth 1 v 0) - (nth 1 q 0 - nth 1 p 0) * (nth 0 w 0 - nth 0 v 0) ==
       0 ->
       a <= t <= b ->
       c <= u <= d ->
       veq (seg_point (a, b, p, q) t) (seg_point (c, d, v, w) u) ->
       exists y : Q * Q, In y (intersect_polylines ka Pa kb Pb) /\ fst y == t /\ snd y == u.
Proof. exact intersect_polylines_complete. Qed.
Print Assumptions C20_polylines_complete.


Example C20_nonvacuous_cross :
  intersect_polylines [0; 1] [[0; 0]; [2; 2]] [0; 2] [[0; 2]; [2; 0]] = [(1#2, 1)].
Proof. vm_compute. reflexivity. Qed.
Example C20_nonvacuous_disjoint :
  intersect_polylines [0; 1] [[0; 0]; [1; 0]] [0; 1] [[0; 1]; [1; 1]] = [].
Proof. vm_compute. reflexivity. Qed.
