(* PROPERTY C04: after curve.knot_insert(nodes) the knot vector is the sorted multiset union of the
   old vector and nodes and the curve is the same function of u; a request outside the interval
   (or pushing a multiplicity above degree+1) raises ValueError and leaves the curve unchanged.
   Statements only; proofs in Proofs/InsertBasic.v (knot vector, refusals) and, for the
   invariance of the function, Proofs/InsertSeq.v / Proofs/InsertList.v (Boehm). *)
From Coq Require Import QArith List Bool Arith Permutation.
From NurbsV Require Import Base.Res Base.QList Spec.KnotSpec Spec.BSpline Model.KV Model.Basis Model.CurveM Model.Ops Model.CurveOps.
From NurbsV Require Proofs.EvalProofs.
From NurbsV Require Import Proofs.Local Proofs.Boehm Proofs.InsertBasic Proofs.InsertSeq Proofs.InsertList Proofs.InsertCompose Proofs.InsertCurve.
Import ListNotations.
Open Scope Q_scope.

(* the new knot vector: sorted, a permutation of old ++ nodes, well-formed *)
Theorem C04_knots : forall c ns c',
  c_knot_insert c ns = Ok c' ->
  kvec (ckv c') = sortq (kvec (ckv c) ++ ns)
  /\ sorted_b (kvec (ckv c')) = true
  /\ Permutation (kvec (ckv c')) (kvec (ckv c) ++ ns)
  /\ WF (kvec (ckv c')) (kdeg (ckv c')).
Proof. exact c_knot_insert_knots. Qed.
Print Assumptions C04_knots.

Theorem C04_multiset : forall c ns c',
  c_knot_insert c ns = Ok c' ->
  forall x, count_q x (kvec (ckv c')) = (count_q x (kvec (ckv c)) + count_q x ns)%nat.
Proof. exact c_knot_insert_counts. Qed.
Print Assumptions C04_multiset.

Theorem C04_mult_bound : forall c ns c',
  c_knot_insert c ns = Ok c' ->
  forall x, In x (kvec (ckv c')) -> (count_q x (kvec (ckv c')) <= kdeg (ckv c') + 1)%nat.
Proof. exact c_knot_insert_mult_bound. Qed.
Print Assumptions C04_mult_bound.

Theorem C04_reject_outside : forall c ns,
  kvalid (ckv c) ns = false -> c_knot_insert c ns = Err ValueError.
Proof. exact c_knot_insert_outside. Qed.
Print Assumptions C04_reject_outside.

(* Boehm's identity, every degree j and index i: the old basis function is the stated combination
   of two new ones (the coefficients are exactly the entries of the model's insertion matrix). *)
Theorem C04_boehm : forall (U : nat -> Q) (k : nat) (x : Q),
  mono U -> U k <= x -> x < U (S k) ->
  forall (s : nat) (u : Q), U s <= u -> u < U (S s) ->
  forall j i,
  Nloc U s j i u ==
    alpha U k x j i * Nloc (ins U k x) (newspan U k x u s) j i u
    + (1 - alpha U k x j (S i)) * Nloc (ins U k x) (newspan U k x u s) j (S i) u.
Proof. exact boehm. Qed.
Print Assumptions C04_boehm.

(* ---- the curve is the same function of u, for every u of the interval (Proofs/InsertList, InsertCompose,
   InsertCurve): one Boehm step, the composed matrix of knot_insert, polynomial and rational curves.
   The hypothesis kdeg (ckv c') = cdeg c excludes only requests containing an end knot of the vector
   (the library re-infers the degree of the new vector; such a request fails in apply, see C04_nonvacuous_refused). ---- *)
Theorem C04_function_spline :
  forall (c : curve) (nodes : list Q) (c' : curve) (P : list (list Q)) (d : nat) (u : Q),
       c_knot_insert c nodes = Ok c' ->
       WF (kvec (ckv c)) (cdeg c) ->
       kdeg (ckv c') = cdeg c ->
       cP c = Some P ->
       cW c = None ->
       length P = cnpts c ->
       Forall (fun pt : list Q => length pt = d) P ->
       in_range (kvec (ckv c)) (cdeg c) u = true ->
       exists P' : list pt,
         cP c' = Some P' /\
         cW c' = None /\
         length P' = cnpts c' /\
         Forall2 Qeq (curve_spec (kvec (ckv c')) (cdeg c) d P' u) (curve_spec (kvec (ckv c)) (cdeg c) d P u).
Proof. exact c_knot_insert_spline. Qed.
Print Assumptions C04_function_spline.

Theorem C04_function_rational :
  forall (c : curve) (nodes : list Q) (c' : curve) (P : list (list Q)) (Wt : list Q) (d : nat) (u : Q),
       c_knot_insert c nodes = Ok c' ->
       WF (kvec (ckv c)) (cdeg c) ->
       kdeg (ckv c') = cdeg c ->
       cP c = Some P ->
       cW c = Some Wt ->
       length P = cnpts c ->
       length Wt = cnpts c ->
       Forall (fun pt : list Q => length pt = d) P ->
       in_range (kvec (ckv c)) (cdeg c) u = true ->
       exists (P' : list pt) (W' : list Q),
         cP c' = Some P' /\
         cW c' = Some W' /\
         length P' = cnpts c' /\
         length W' = cnpts c' /\
         Forall2 Qeq (rational_spec (kvec (ckv c')) (cdeg c) d W' P' u)
           (rational_spec (kvec (ckv c)) (cdeg c) d Wt P u).
Proof. exact c_knot_insert_rational. Qed.
Print Assumptions C04_function_rational.

Theorem C04_weights_stay_positive :
  forall (c : curve) (nodes : list Q) (c' : curve) (Wt : list Q),
       c_knot_insert c nodes = Ok c' ->
       WF (kvec (ckv c)) (cdeg c) ->
       cW c = Some Wt ->
       length Wt = cnpts c ->
       Forall (fun w : Q => 0 < w) Wt ->
       exists W' : list Q, cW c' = Some W' /\ Forall (fun w : Q => 0 < w) W'.
Proof. exact c_knot_insert_weights_pos. Qed.
Print Assumptions C04_weights_stay_positive.

Theorem C04_matrix_preserves_curve :
  forall (k : kv) (nodes : list Q) (M : mat) (k' : kv),
       WF (kvec k) (kdeg k) ->
       knot_insert k nodes = Ok M ->
       kinsert k nodes = Ok k' ->
       kdeg k' = kdeg k ->
       length M = knpts k' /\
       (forall (P : list Q) (u : Q),
        length P = knpts k ->
        in_range (kvec k) (kdeg k) u = true ->
        curve_spec1 (kvec k') (kdeg k) (mvec M P) u == curve_spec1 (kvec k) (kdeg k) P u).
Proof. exact knot_insert_curve. Qed.
Print Assumptions C04_matrix_preserves_curve.

Theorem C04_one_insertion :
  forall (U : list Q) (p : nat),
       WF U p ->
       forall (x : Q) (s : nat),
       in_range U p x = true ->
       ~ x == umax_of U p ->
       span_ok U p x s = true ->
       forall P : list Q,
       length P = npts_of U p ->
       forall u : Q,
       in_range U p u = true ->
       curve_spec1 (ins_kv U x) p (mvec (ins_matrix U p (npts_of U p) s x) P) u == curve_spec1 U p P u.
Proof. exact insert_once_curve. Qed.
Print Assumptions C04_one_insertion.

Theorem C04_one_insertion_wf :
  forall (U : list Q) (p : nat),
       WF U p ->
       forall (x : Q) (s : nat),
       in_range U p x = true ->
       ~ x == umax_of U p -> span_ok U p x s = true -> (count_q x U < p + 1)%nat -> WF (ins_kv U x) p.
Proof. exact ins_kv_wf. Qed.
Print Assumptions C04_one_insertion_wf.


(* non-vacuity: inserting [1/3; 1/3; 0] into a degree-2 curve on [-1,-1,-1,0,1/3,1,1,1] succeeds *)
Example C04_nonvacuous :
  exists c', c_knot_insert
     (mkcurve (mkkv [-1; -1; -1; 0; 1#3; 1; 1; 1] 2) (Some [[0]; [1]; [3]; [2]; [1#2]]) None)
     [1#3; 1#3; 0] = Ok c'
  /\ kvec (ckv c') = [-1; -1; -1; 0; 0; 1#3; 1#3; 1#3; 1; 1; 1].
Proof. eexists. split; vm_compute; reflexivity. Qed.

(* a request that pushes an end multiplicity above degree+1 is refused by the model (ValueError), as by the library *)
Example C04_nonvacuous_refused :
  c_knot_insert (mkcurve (mkkv [0; 1#2; 1] 0) (Some [[0]; [-2]]) None) [0; 1] = Err ValueError.
Proof. vm_compute. reflexivity. Qed.
Example C04_nonvacuous_function :
  match c_knot_insert EvalProofs.ex_curve InsertCurve.ex_nodes with
  | Ok c' => Nat.eqb (kdeg (ckv c')) (cdeg EvalProofs.ex_curve)
  | Err _ => false
  end = true.
Proof. vm_compute. reflexivity. Qed.

From NurbsV Require Import Spec.BSpline Proofs.Local Proofs.LinIndep Proofs.LinIndepCurves.
From NurbsV Require Proofs.UnionProofs.
(* ---- the insertion matrix exists whenever the knot-vector insertion is valid (Proofs/LinIndepCurves.v) ---- *)
Theorem C04_insertion_always_defined :
  forall (k : kv) (nodes : list Q) (kf : kv),
       WF (kvec k) (kdeg k) ->
       kinsert k nodes = Ok kf -> kdeg kf = kdeg k -> exists M : mat, knot_insert k nodes = Ok M.
Proof. exact knot_insert_succeeds. Qed.
Print Assumptions C04_insertion_always_defined.

From NurbsV Require Import Spec.BSpline Model.Linalg Model.Quadrature Model.LeastSq Model.CurveLS Proofs.ForcedProofs.
From NurbsV Require Proofs.UnionProofs.
(* ---- requests that name an end knot (Proofs/ForcedProofs.v): kinsert raises the inferred degree by the number of copies of the end knots
   (both ends must be named equally often, otherwise ValueError), and knot_insert on a curve with control points or weights refuses every
   such request with ValueError - this closes the case the for-all-u theorems exclude by their hypothesis 'degree unchanged'. ---- *)
Theorem C04_insert_degree_law :
  forall (k : kv) (ns : list Q) (k' : kv),
       WF (kvec k) (kdeg k) ->
       kinsert k ns = Ok k' ->
       kvec k' = sortq (kvec k ++ ns) /\
       kdeg k' = (kdeg k + count_q (first_q (kvec k)) ns)%nat /\
       kdeg k' = (kdeg k + count_q (last_q (kvec k)) ns)%nat.
Proof. exact kinsert_degree. Qed.
Print Assumptions C04_insert_degree_law.

Theorem C04_end_knot_request :
  forall (k : kv) (ns : list Q),
       WF (kvec k) (kdeg k) ->
       (exists z : Q, In z ns /\ (z == kumin k \/ z == kumax k)) ->
       kinsert k ns = Err ValueError \/
       (exists k' : kv,
          kinsert k ns = Ok k' /\
          (kdeg k < kdeg k')%nat /\
          kdeg k' = (kdeg k + count_q (first_q (kvec k)) ns)%nat /\
          kdeg k' = (kdeg k + count_q (last_q (kvec k)) ns)%nat).
Proof. exact kinsert_end_knot. Qed.
Print Assumptions C04_end_knot_request.

Theorem C04_end_knot_request_refused :
  forall (c : curve) (ns : list Q),
       WF (kvec (ckv c)) (kdeg (ckv c)) ->
       cP c <> None \/ cW c <> None ->
       kvalid (ckv c) ns = true ->
       (exists z : Q, In z ns /\ (z == kumin (ckv c) \/ z == kumax (ckv c))) ->
       c_knot_insert c ns = Err ValueError.
Proof. exact c_knot_insert_end_knot_refused. Qed.
Print Assumptions C04_end_knot_request_refused.
