(* PROPERTY C04: after curve.knot_insert(nodes) the knot vector is the sorted multiset union of the
   old vector and nodes and the curve is the same function of u; a request outside the interval
   (or pushing a multiplicity above degree+1) raises ValueError and leaves the curve unchanged.
   Statements only; proofs in Proofs/InsertBasic.v (knot vector, refusals) and, for the
   invariance of the function, Proofs/InsertSeq.v / Proofs/InsertList.v (Boehm). *)
From Coq Require Import QArith List Bool Arith Permutation.
From NurbsV Require Import Base.Res Base.QList Spec.KnotSpec Spec.BSpline Model.KV Model.Basis Model.CurveM Model.Ops Model.CurveOps.
From NurbsV Require Import Proofs.Local Proofs.Boehm Proofs.InsertBasic.
Import ListNotations.
Open Scope Q_scope.

(* the new knot vector: sorted, a permutation of old ++ nodes, well-formed *)
Theorem C04_knots : forall c ns c',
  c_knot_insert c ns = Ok c' ->
  kvec (ckv c') = sortq (kvec (ckv c) ++ ns)
  /\ sorted_b (kvec (ckv c')) = true
  /\ Permutation (kvec (ckv c')) (kvec (ckv c) ++ ns)
  /\ WF (kvec (ckv c')) (kdeg (ckv c')).
Proof. exact c_knot_insert_knots. Qed.
Print Assumptions C04_knots.

Theorem C04_multiset : forall c ns c',
  c_knot_insert c ns = Ok c' ->
  forall x, count_q x (kvec (ckv c')) = (count_q x (kvec (ckv c)) + count_q x ns)%nat.
Proof. exact c_knot_insert_counts. Qed.
Print Assumptions C04_multiset.

Theorem C04_mult_bound : forall c ns c',
  c_knot_insert c ns = Ok c' ->
  forall x, In x (kvec (ckv c')) -> (count_q x (kvec (ckv c')) <= kdeg (ckv c') + 1)%nat.
Proof. exact c_knot_insert_mult_bound. Qed.
Print Assumptions C04_mult_bound.

Theorem C04_reject_outside : forall c ns,
  kvalid (ckv c) ns = false -> c_knot_insert c ns = Err ValueError.
Proof. exact c_knot_insert_outside. Qed.
Print Assumptions C04_reject_outside.

(* Boehm's identity, every degree j and index i: the old basis function is the stated combination
   of two new ones (the coefficients are exactly the entries of the model's insertion matrix). *)
Theorem C04_boehm : forall (U : nat -> Q) (k : nat) (x : Q),
  mono U -> U k <= x -> x < U (S k) ->
  forall (s : nat) (u : Q), U s <= u -> u < U (S s) ->
  forall j i,
  Nloc U s j i u ==
    alpha U k x j i * Nloc (ins U k x) (newspan U k x u s) j i u
    + (1 - alpha U k x j (S i)) * Nloc (ins U k x) (newspan U k x u s) j (S i) u.
Proof. exact boehm. Qed.
Print Assumptions C04_boehm.

(* non-vacuity: inserting [1/3; 1/3; 0] into a degree-2 curve on [-1,-1,-1,0,1/3,1,1,1] succeeds *)
Example C04_nonvacuous :
  exists c', c_knot_insert
     (mkcurve (mkkv [-1; -1; -1; 0; 1#3; 1; 1; 1] 2) (Some [[0]; [1]; [3]; [2]; [1#2]]) None)
     [1#3; 1#3; 0] = Ok c'
  /\ kvec (ckv c') = [-1; -1; -1; 0; 0; 1#3; 1#3; 1#3; 1; 1; 1].
Proof. eexists. split; vm_compute; reflexivity. Qed.
