From Coq Require Import QArith.
Example C04_placeholder : (1 + 1 == 2)%Q.
Proof. reflexivity. Qed.
