(* PROPERTY C12: curve.fit_points(points, nodes) returns control points Q minimising sum_k |D(z_k) - Z_k|^2: the residual
   vector is orthogonal to every column of the collocation matrix B[k][i] = R_i(z_k); with len(points) = npts and
   unisolvent nodes the curve interpolates every point; samples of a curve of the same space reproduce it exactly;
   fewer points than control points is rejected.
   Statements only; proofs in Proofs/LSProofs.v (section DiscreteFit) on top of Proofs/MatProofs.v. *)
From Coq Require Import QArith List Bool Arith.
From NurbsV Require Import Base.Res Base.QList Spec.KnotSpec Gen.Consts Model.KV Model.Basis Model.CurveM Model.Ops
  Model.CurveOps Model.Linalg Model.Quadrature Model.LeastSq Model.CurveLS.
From NurbsV Require Import Proofs.MatProofs Proofs.LSProofs Proofs.RemoveBasic.
Import ListNotations.
Open Scope Q_scope.
Theorem C12_residual_orthogonal :
  forall (k : kv) (nodes : list Q) (W : option (list Q)) (M B : mat),
       wlen_ok k W ->
       fit_function k nodes W = Ok M ->
       mapM (rbasis_row k W (kdeg k)) nodes = Ok B ->
       forall z : list Q,
       length z = length nodes ->
       veq (mvec (mtrans_n (knpts k) B) (vsub (mvec B (mvec M z)) z)) (repeat 0 (knpts k)).
Proof. exact fit_function_orthogonal. Qed.
Print Assumptions C12_residual_orthogonal.

Theorem C12_minimal :
  forall (k : kv) (nodes : list Q) (W : option (list Q)) (M B : mat),
       wlen_ok k W ->
       fit_function k nodes W = Ok M ->
       mapM (rbasis_row k W (kdeg k)) nodes = Ok B ->
       forall z y : list Q,
       length z = length nodes ->
       length y = knpts k -> norm2 (vsub (mvec B (mvec M z)) z) <= norm2 (vsub (mvec B y) z).
Proof. exact fit_function_minimal. Qed.
Print Assumptions C12_minimal.

Theorem C12_reproduces :
  forall (k : kv) (nodes : list Q) (W : option (list Q)) (M B : mat),
       wlen_ok k W ->
       fit_function k nodes W = Ok M ->
       mapM (rbasis_row k W (kdeg k)) nodes = Ok B ->
       forall z q : list Q, length q = knpts k -> veq z (mvec B q) -> veq (mvec M z) q.
Proof. exact fit_function_reproduces. Qed.
Print Assumptions C12_reproduces.

Theorem C12_interpolates :
  forall (k : kv) (nodes : list Q) (W : option (list Q)) (M B : mat),
       wlen_ok k W ->
       fit_function k nodes W = Ok M ->
       mapM (rbasis_row k W (kdeg k)) nodes = Ok B ->
       forall z : list Q, length nodes = knpts k -> length z = length nodes -> veq (mvec B (mvec M z)) z.
Proof. exact fit_function_interpolates. Qed.
Print Assumptions C12_interpolates.

Theorem C12_fewer_points_refused :
  forall (k : kv) (nodes : list Q) (W : option (list Q)),
       (length nodes < knpts k)%nat -> fit_function k nodes W = Err AssertionError.
Proof. exact fit_function_refuses. Qed.
Print Assumptions C12_fewer_points_refused.

Theorem C12_rows_have_npts_entries :
  forall (k : kv) (W : option (list Q)) (j : nat) (u : Q) (r : list Q),
       wlen_ok k W -> rbasis_row k W j u = Ok r -> length r = knpts k.
Proof. exact rbasis_row_length. Qed.
Print Assumptions C12_rows_have_npts_entries.

Example C12_nonvacuous :
  match c_fit_points (mkcurve (mkkv [0; 0; 0; 1#2; 1; 1; 1] 2) None None) [[1]; [2]; [0]; [3]; [1]] None with
  | Ok Q => Nat.eqb (length Q) 4
  | Err _ => false
  end = true.
Proof. vm_compute. reflexivity. Qed.
