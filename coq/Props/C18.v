(* PROPERTY C18: GeneratorKnotVector.bezier/integer/uniform/random/weight return clamped vectors with
   exactly the requested degree and npts, simple interior knots, the advertised spacing, interval
   exactly [0,1] for bezier/uniform/random; shift/scale/normalize keep degree, npts and all
   multiplicities and map every knot affinely, and basis functions (hence curves) are invariant
   under such a reparametrisation: N_i over s*U+a at s*u+a equals N_i over U at u.
   Statements only; proofs in Proofs/KVProofs.v, Proofs/BasisTheory.v (and Proofs/GenProofs.v). *)
From Coq Require Import QArith List Bool Arith.
From NurbsV Require Import Base.Res Base.QList Spec.KnotSpec Spec.BSpline Model.KV.
From NurbsV Require Import Proofs.KVProofs Proofs.KVMachine Proofs.BasisTheory Proofs.GenProofs.
Import ListNotations.
Open Scope Q_scope.

(* every generated vector is a well-formed clamped vector ("random" = for every drawn weight list) *)
Theorem C18_bezier_wf : forall p k, gen_bezier p = Ok k -> WF (kvec k) (kdeg k).
Proof. exact gen_bezier_wf. Qed.
Print Assumptions C18_bezier_wf.
Theorem C18_integer_wf : forall p n k, gen_integer p n = Ok k -> WF (kvec k) (kdeg k).
Proof. exact gen_integer_wf. Qed.
Print Assumptions C18_integer_wf.
Theorem C18_uniform_wf : forall p n k, gen_uniform p n = Ok k -> WF (kvec k) (kdeg k).
Proof. exact gen_uniform_wf. Qed.
Print Assumptions C18_uniform_wf.
Theorem C18_weight_wf : forall p ws k, gen_weight p ws = Ok k -> WF (kvec k) (kdeg k).
Proof. exact gen_weight_wf. Qed.
Print Assumptions C18_weight_wf.
Theorem C18_random_wf : forall p ws k, gen_random_from p ws = Ok k -> WF (kvec k) (kdeg k).
Proof. exact gen_random_from_wf. Qed.
Print Assumptions C18_random_wf.

(* the affine maps stay inside the set, and a non-positive scale is refused *)
Theorem C18_shift_wf : forall k a k', kshift k a = Ok k' -> WF (kvec k') (kdeg k').
Proof. exact kshift_wf. Qed.
Print Assumptions C18_shift_wf.
Theorem C18_scale_wf : forall k s k', kscale k s = Ok k' -> WF (kvec k') (kdeg k').
Proof. exact kscale_wf. Qed.
Print Assumptions C18_scale_wf.
Theorem C18_normalize_wf : forall k k', knormalize k = Ok k' -> WF (kvec k') (kdeg k').
Proof. exact knormalize_wf. Qed.
Print Assumptions C18_normalize_wf.
Theorem C18_scale_nonpositive : forall k s, s <= 0 -> kscale k s = Err AssertionError.
Proof. exact scale_nonpositive. Qed.
Print Assumptions C18_scale_nonpositive.

(* Cox-de Boor functions are invariant under an increasing affine reparametrisation, every degree and index *)
Theorem C18_basis_affine_invariant : forall (U : nat -> Q) (a c : Q), 0 < c ->
  forall n u j i, N (fun i => c * U i + a) n j i (c * u + a) == N U n j i u.
Proof. exact N_affine. Qed.
Print Assumptions C18_basis_affine_invariant.

(* ---- exact degree, npts, spacing, limits; totality; affine structure and basis invariance (Proofs/GenProofs.v) ---- *)
Theorem C18_bezier :
  forall (p : nat) (k : kv),
       gen_bezier p = Ok k ->
       kdeg k = p /\
       knpts k = (p + 1)%nat /\
       kvec k = repeat 0 (p + 1) ++ repeat 1 (p + 1) /\ umin_of (kvec k) p == 0 /\ umax_of (kvec k) p == 1.
Proof. exact gen_bezier_struct. Qed.
Print Assumptions C18_bezier.

Theorem C18_bezier_total :
  forall p : nat, gen_bezier p = Ok {| kvec := repeat 0 (p + 1) ++ repeat 1 (p + 1); kdeg := p |}.
Proof. exact gen_bezier_total. Qed.
Print Assumptions C18_bezier_total.

Theorem C18_integer :
  forall (p n : nat) (k : kv),
       gen_integer p n = Ok k ->
       kdeg k = p /\
       knpts k = n /\ (forall i : nat, (i <= n - p)%nat -> nthq (kvec k) (p + i) == inject_Z (Z.of_nat i)).
Proof. exact gen_integer_struct. Qed.
Print Assumptions C18_integer.

Theorem C18_integer_total :
  forall p n : nat, (p < n)%nat -> gen_integer p n = Ok {| kvec := integer_vec p n; kdeg := p |}.
Proof. exact gen_integer_total. Qed.
Print Assumptions C18_integer_total.

Theorem C18_integer_refuses :
  forall p n : nat, (n <= p)%nat -> gen_integer p n = Err AssertionError.
Proof. exact gen_integer_refuses. Qed.
Print Assumptions C18_integer_refuses.

Theorem C18_uniform :
  forall (p n : nat) (k : kv),
       gen_uniform p n = Ok k ->
       kdeg k = p /\
       knpts k = n /\
       umin_of (kvec k) (kdeg k) == 0 /\
       umax_of (kvec k) (kdeg k) == 1 /\
       (forall i : nat,
        (i <= n - p)%nat -> nthq (kvec k) (p + i) == inject_Z (Z.of_nat i) / inject_Z (Z.of_nat (n - p))).
Proof. exact gen_uniform_struct. Qed.
Print Assumptions C18_uniform.

Theorem C18_uniform_total :
  forall p n : nat, (p < n)%nat -> exists k : kv, gen_uniform p n = Ok k.
Proof. exact gen_uniform_total. Qed.
Print Assumptions C18_uniform_total.

Theorem C18_weight :
  forall (p : nat) (ws : list Q) (k : kv),
       gen_weight p ws = Ok k ->
       Forall (fun w : Q => 0 < w) ws ->
       kdeg k = p /\
       knpts k = (p + length ws)%nat /\
       (forall i : nat,
        (i < length ws)%nat -> nthq (kvec k) (p + i + 1) - nthq (kvec k) (p + i) == nth i ws 0).
Proof. exact gen_weight_full. Qed.
Print Assumptions C18_weight.

Theorem C18_weight_total :
  forall (p : nat) (ws : list Q),
       ws <> [] ->
       Forall (fun w : Q => 0 < w) ws -> gen_weight p ws = Ok {| kvec := weight_vec p ws; kdeg := p |}.
Proof. exact gen_weight_total. Qed.
Print Assumptions C18_weight_total.

Theorem C18_random :
  forall (p : nat) (ws : list Q) (k : kv),
       gen_random_from p ws = Ok k ->
       Forall (fun w : Q => 0 < w) ws ->
       kdeg k = p /\
       knpts k = (p + length ws)%nat /\ umin_of (kvec k) (kdeg k) == 0 /\ umax_of (kvec k) (kdeg k) == 1.
Proof. exact gen_random_from_struct. Qed.
Print Assumptions C18_random.

Theorem C18_random_limits :
  forall (p : nat) (ws : list Q) (k : kv),
       gen_random_from p ws = Ok k -> umin_of (kvec k) (kdeg k) == 0 /\ umax_of (kvec k) (kdeg k) == 1.
Proof. exact gen_random_from_limits. Qed.
Print Assumptions C18_random_limits.

Theorem C18_random_total :
  forall (p : nat) (ws : list Q),
       ws <> [] -> Forall (fun w : Q => 0 < w) ws -> exists k : kv, gen_random_from p ws = Ok k.
Proof. exact gen_random_from_total. Qed.
Print Assumptions C18_random_total.

Theorem C18_shift :
  forall (k : kv) (a : Q) (k' : kv),
       kshift k a = Ok k' ->
       kvec k' = map (fun x : Q => Qred (x + a)) (kvec k) /\
       (WF (kvec k) (kdeg k) ->
        kdeg k' = kdeg k /\
        knpts k' = knpts k /\ (forall x : Q, count_q (Qred (x + a)) (kvec k') = count_q x (kvec k))).
Proof. exact kshift_full. Qed.
Print Assumptions C18_shift.

Theorem C18_shift_total :
  forall (k : kv) (a : Q),
       WF (kvec k) (kdeg k) ->
       kshift k a = Ok {| kvec := map (fun x : Q => Qred (x + a)) (kvec k); kdeg := kdeg k |}.
Proof. exact kshift_total. Qed.
Print Assumptions C18_shift_total.

Theorem C18_scale :
  forall (k : kv) (s : Q) (k' : kv),
       kscale k s = Ok k' ->
       0 < s /\
       kvec k' = map (fun x : Q => Qred (x * s)) (kvec k) /\
       (WF (kvec k) (kdeg k) ->
        kdeg k' = kdeg k /\
        knpts k' = knpts k /\ (forall x : Q, count_q (Qred (x * s)) (kvec k') = count_q x (kvec k))).
Proof. exact kscale_full. Qed.
Print Assumptions C18_scale.

Theorem C18_scale_total :
  forall (k : kv) (s : Q),
       WF (kvec k) (kdeg k) ->
       0 < s -> kscale k s = Ok {| kvec := map (fun x : Q => Qred (x * s)) (kvec k); kdeg := kdeg k |}.
Proof. exact kscale_total. Qed.
Print Assumptions C18_scale_total.

Theorem C18_normalize_vec :
  forall k k' : kv,
       knormalize k = Ok k' ->
       Forall2 Qeq (kvec k')
         (map (fun x : Q => (x - first_q (kvec k)) / (last_q (kvec k) - first_q (kvec k))) (kvec k)).
Proof. exact knormalize_vec. Qed.
Print Assumptions C18_normalize_vec.

Theorem C18_normalize_limits :
  forall k k' : kv,
       knormalize k = Ok k' -> umin_of (kvec k') (kdeg k') == 0 /\ umax_of (kvec k') (kdeg k') == 1.
Proof. exact knormalize_limits. Qed.
Print Assumptions C18_normalize_limits.

Theorem C18_normalize_struct :
  forall k k' : kv,
       knormalize k = Ok k' ->
       WF (kvec k) (kdeg k) ->
       kdeg k' = kdeg k /\
       knpts k' = knpts k /\
       (forall x : Q,
        count_q ((x - first_q (kvec k)) / (last_q (kvec k) - first_q (kvec k))) (kvec k') =
        count_q x (kvec k)) /\ umin_of (kvec k') (kdeg k') == 0 /\ umax_of (kvec k') (kdeg k') == 1.
Proof. exact knormalize_struct. Qed.
Print Assumptions C18_normalize_struct.

Theorem C18_normalize_total :
  forall k : kv, WF (kvec k) (kdeg k) -> exists k' : kv, knormalize k = Ok k'.
Proof. exact knormalize_total. Qed.
Print Assumptions C18_normalize_total.

Theorem C18_shift_basis :
  forall (k : kv) (a : Q) (k' : kv) (p j i : nat) (u : Q),
       kshift k a = Ok k' -> Nspec (kvec k') p j i (u + a) == Nspec (kvec k) p j i u.
Proof. exact kshift_basis. Qed.
Print Assumptions C18_shift_basis.

Theorem C18_scale_basis :
  forall (k : kv) (s : Q) (k' : kv) (p j i : nat) (u : Q),
       kscale k s = Ok k' -> Nspec (kvec k') p j i (u * s) == Nspec (kvec k) p j i u.
Proof. exact kscale_basis. Qed.
Print Assumptions C18_scale_basis.

Theorem C18_normalize_basis :
  forall (k k' : kv) (p j i : nat) (u : Q),
       knormalize k = Ok k' ->
       Nspec (kvec k') p j i ((u - first_q (kvec k)) / (last_q (kvec k) - first_q (kvec k))) ==
       Nspec (kvec k) p j i u.
Proof. exact knormalize_basis. Qed.
Print Assumptions C18_normalize_basis.

Theorem C18_curve_affine :
  forall (c a : Q) (U : list Q) (p : nat) (P : list Q) (u : Q),
       0 < c ->
       U <> [] -> curve_spec1 (map (fun x : Q => Qred (c * x + a)) U) p P (c * u + a) == curve_spec1 U p P u.
Proof. exact curve_spec1_affine. Qed.
Print Assumptions C18_curve_affine.

Theorem C18_make_iff_wf :
  forall (v : list Q) (k : kv), make v None = Ok k <-> WF v (kdeg k) /\ kvec k = v.
Proof. exact make_iff_wf. Qed.
Print Assumptions C18_make_iff_wf.


Example C18_nonvacuous : gen_uniform 2 5 = Ok (mkkv [0; 0; 0; 1#3; 2#3; 1; 1; 1] 2).
Proof. vm_compute. reflexivity. Qed.
