(* PROPERTY C18: GeneratorKnotVector.bezier/integer/uniform/random/weight return clamped vectors with
   exactly the requested degree and npts, simple interior knots, the advertised spacing, interval
   exactly [0,1] for bezier/uniform/random; shift/scale/normalize keep degree, npts and all
   multiplicities and map every knot affinely, and basis functions (hence curves) are invariant
   under such a reparametrisation: N_i over s*U+a at s*u+a equals N_i over U at u.
   Statements only; proofs in Proofs/KVProofs.v, Proofs/BasisTheory.v (and Proofs/GenProofs.v). *)
From Coq Require Import QArith List Bool Arith.
From NurbsV Require Import Base.Res Base.QList Spec.KnotSpec Spec.BSpline Model.KV.
From NurbsV Require Import Proofs.KVProofs Proofs.KVMachine Proofs.BasisTheory.
Import ListNotations.
Open Scope Q_scope.

(* every generated vector is a well-formed clamped vector ("random" = for every drawn weight list) *)
Theorem C18_bezier_wf : forall p k, gen_bezier p = Ok k -> WF (kvec k) (kdeg k).
Proof. exact gen_bezier_wf. Qed.
Print Assumptions C18_bezier_wf.
Theorem C18_integer_wf : forall p n k, gen_integer p n = Ok k -> WF (kvec k) (kdeg k).
Proof. exact gen_integer_wf. Qed.
Print Assumptions C18_integer_wf.
Theorem C18_uniform_wf : forall p n k, gen_uniform p n = Ok k -> WF (kvec k) (kdeg k).
Proof. exact gen_uniform_wf. Qed.
Print Assumptions C18_uniform_wf.
Theorem C18_weight_wf : forall p ws k, gen_weight p ws = Ok k -> WF (kvec k) (kdeg k).
Proof. exact gen_weight_wf. Qed.
Print Assumptions C18_weight_wf.
Theorem C18_random_wf : forall p ws k, gen_random_from p ws = Ok k -> WF (kvec k) (kdeg k).
Proof. exact gen_random_from_wf. Qed.
Print Assumptions C18_random_wf.

(* the affine maps stay inside the set, and a non-positive scale is refused *)
Theorem C18_shift_wf : forall k a k', kshift k a = Ok k' -> WF (kvec k') (kdeg k').
Proof. exact kshift_wf. Qed.
Print Assumptions C18_shift_wf.
Theorem C18_scale_wf : forall k s k', kscale k s = Ok k' -> WF (kvec k') (kdeg k').
Proof. exact kscale_wf. Qed.
Print Assumptions C18_scale_wf.
Theorem C18_normalize_wf : forall k k', knormalize k = Ok k' -> WF (kvec k') (kdeg k').
Proof. exact knormalize_wf. Qed.
Print Assumptions C18_normalize_wf.
Theorem C18_scale_nonpositive : forall k s, s <= 0 -> kscale k s = Err AssertionError.
Proof. exact scale_nonpositive. Qed.
Print Assumptions C18_scale_nonpositive.

(* Cox-de Boor functions are invariant under an increasing affine reparametrisation, every degree and index *)
Theorem C18_basis_affine_invariant : forall (U : nat -> Q) (a c : Q), 0 < c ->
  forall n u j i, N (fun i => c * U i + a) n j i (c * u + a) == N U n j i u.
Proof. exact N_affine. Qed.
Print Assumptions C18_basis_affine_invariant.

Example C18_nonvacuous : gen_uniform 2 5 = Ok (mkkv [0; 0; 0; 1#3; 2#3; 1; 1; 1] 2).
Proof. vm_compute. reflexivity. Qed.
