(* PROPERTY C19: Projection.point_on_curve(P, C) returns a non-empty, sorted tuple of parameters inside [umin, umax], all at
   the same distance from P, and that distance is the minimum of |C(u) - P| over the interval - exactly for polylines; a
   point lying on the curve is projected onto itself; the curve is not modified.
   Statements only; proofs in Proofs/AdvancedProofs.v (exact model of the piecewise-linear class). *)
From Coq Require Import QArith List Bool Arith.
From NurbsV Require Import Base.Res Base.QList Model.KV Model.Advanced.
Import ListNotations.
Open Scope Q_scope.

(* non-vacuity (computed): a tie - the point (1/2, 1/2) is equidistant from both legs of an L-shaped polyline *)
Example C19_nonvacuous_tie :
  project_polyline [0; 1; 2] [[0; 0]; [1; 0]; [1; 1]] [1#2; 1#2] = [1#2; 3#2].
Proof. vm_compute. reflexivity. Qed.
Example C19_nonvacuous_on_curve :
  project_polyline [0; 1; 2] [[0; 0]; [1; 0]; [1; 1]] [1; 1#4] = [5#4].
Proof. vm_compute. reflexivity. Qed.
