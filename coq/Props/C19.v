(* PROPERTY C19: Projection.point_on_curve(P, C) returns a non-empty, sorted tuple of parameters inside [umin, umax], all at
   the same distance from P, and that distance is the minimum of |C(u) - P| over the interval - exactly for polylines; a
   point lying on the curve is projected onto itself; the curve is not modified.
   Statements only; proofs in Proofs/AdvancedProofs.v (exact model of the piecewise-linear class). *)
From Coq Require Import QArith List Bool Arith.
From NurbsV Require Import Base.Res Base.QList Spec.KnotSpec Model.KV Model.Advanced.
From NurbsV Require Import Proofs.MatProofs Proofs.AdvancedProofs.
Import ListNotations.
Open Scope Q_scope.

Theorem C19_piece_minimum :
  forall (a b : Q) (p q x : list Q),
       a < b ->
       length p = length q ->
       length x = length p ->
       a <= seg_project (a, b, p, q) x <= b /\
       (forall u : Q,
        a <= u <= b ->
        dist2 (seg_point (a, b, p, q) (seg_project (a, b, p, q) x)) x <= dist2 (seg_point (a, b, p, q) u) x).
Proof. exact seg_project_min. Qed.
Print Assumptions C19_piece_minimum.

Theorem C19_polyline :
  forall (d : nat) (ks : list Q) (P : list pt) (x : list Q),
       sincr ks ->
       length ks = length P ->
       (2 <= length P)%nat ->
       Forall (fun p : pt => length p = d) P ->
       length x = d ->
       project_polyline ks P x <> [] /\
       sorted_b (project_polyline ks P x) = true /\
       (forall t : Q,
        In t (project_polyline ks P x) ->
        first_q ks <= t <= last_q ks /\
        (exists (a b : Q) (p q : pt),
           In (a, b, p, q) (segments ks P) /\
           a <= t <= b /\ t = seg_project (a, b, p, q) x /\ dist2 (seg_point (a, b, p, q) t) x == pmin ks P x)) /\
       (forall (a b : Q) (p q : pt),
        In (a, b, p, q) (segments ks P) ->
        forall u : Q, a <= u <= b -> pmin ks P x <= dist2 (seg_point (a, b, p, q) u) x).
Proof. exact project_polyline_spec. Qed.
Print Assumptions C19_polyline.

Theorem C19_point_on_curve :
  forall (d : nat) (ks : list Q) (P : list pt) (x : list Q) (a b : Q) (p q : pt) (u0 : Q),
       sincr ks ->
       length ks = length P ->
       (2 <= length P)%nat ->
       Forall (fun p0 : pt => length p0 = d) P ->
       In (a, b, p, q) (segments ks P) ->
       a <= u0 <= b ->
       veq x (seg_point (a, b, p, q) u0) ->
       pmin ks P x == 0 /\
       (forall t : Q,
        In t (project_polyline ks P x) ->
        exists (a' b' : Q) (p' q' : pt),
          In (a', b', p', q') (segments ks P) /\ a' <= t <= b' /\ veq (seg_point (a', b', p', q') t) x).
Proof. exact project_polyline_on_curve. Qed.
Print Assumptions C19_point_on_curve.

Theorem C19_quadratic_core :
  forall G B D : Q,
       0 < D -> forall t : Q, 0 <= t <= 1 -> quad G B D (qclamp 0 1 (B / D)) <= quad G B D t.
Proof. exact quad_clamp_min. Qed.
Print Assumptions C19_quadratic_core.


(* non-vacuity (computed): a tie - the point (1/2, 1/2) is equidistant from both legs of an L-shaped polyline *)
Example C19_nonvacuous_tie :
  project_polyline [0; 1; 2] [[0; 0]; [1; 0]; [1; 1]] [1#2; 1#2] = [1#2; 3#2].
Proof. vm_compute. reflexivity. Qed.
Example C19_nonvacuous_on_curve :
  project_polyline [0; 1; 2] [[0; 0]; [1; 0]; [1; 1]] [1; 1#4] = [5#4].
Proof. vm_compute. reflexivity. Qed.
