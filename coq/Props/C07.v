(* PROPERTY C07: curve.split(nodes) returns one curve per sub-interval between consecutive distinct cut
   points, each clamped on its sub-interval and equal to the original curve there (polynomial and
   rational); A | B equals A on A's interval and B on B's; joining the pieces of a split gives back a
   curve equal to the original.
   Statements only; proofs in Proofs/KVProofs.v, Proofs/InsertCompose.v (and Proofs/SplitProofs.v). *)
From Coq Require Import QArith List Bool Arith.
From NurbsV Require Import Base.Res Base.QList Spec.KnotSpec Spec.BSpline Model.KV Model.Basis Model.CurveM Model.Ops Model.CurveOps.
From NurbsV Require Import Proofs.KVProofs Proofs.InsertCompose Proofs.SplitProofs.
Import ListNotations.
Open Scope Q_scope.

(* every piece of the knot-vector split is a well-formed clamped vector *)
Theorem C07_split_pieces_wf : forall k nodes ks,
  ksplit k nodes = Ok ks -> WF (kvec k) (kdeg k) -> Forall (fun k' : kv => WF (kvec k') (kdeg k')) ks.
Proof. exact ksplit_wf. Qed.
Print Assumptions C07_split_pieces_wf.

(* the matrix that inserts every cut up to multiplicity degree+1 (the first half of split_curve)
   leaves the curve unchanged at every u *)
Theorem C07_refinement_preserves_curve : forall (k : kv) (nodes : list Q) (M : mat) (k' : kv),
  WF (kvec k) (kdeg k) -> knot_insert k nodes = Ok M -> kinsert k nodes = Ok k' -> kdeg k' = kdeg k ->
  length M = knpts k' /\
  (forall (P : list Q) (u : Q), length P = knpts k -> in_range (kvec k) (kdeg k) u = true ->
     curve_spec1 (kvec k') (kdeg k) (mvec M P) u == curve_spec1 (kvec k) (kdeg k) P u).
Proof. exact knot_insert_curve. Qed.
Print Assumptions C07_refinement_preserves_curve.

(* ---- the pieces restrict the curve exactly, every u of each sub-interval (Proofs/SplitProofs.v).
   exact_mult k nodes: no node lies within 1e-9 of a knot without being equal to it (the library reads
   multiplicities with that tolerance; C07_needs_exact_multiplicity is the machine-checked counterexample
   without the hypothesis - known finding K2). ---- *)
Theorem C07_split_structure :
  forall (k : kv) (nodes : list Q) (pieces : list kv),
       WF (kvec k) (kdeg k) ->
       ksplit k nodes = Ok pieces ->
       let cp := cut_points k nodes in
       S (length pieces) = length cp /\
       nth 0 cp 0 == kumin k /\
       nth (length cp - 1) cp 0 == kumax k /\
       (forall m : nat,
        (m < length pieces)%nat ->
        let pc := nth m pieces k in
        WF (kvec pc) (kdeg pc) /\
        kdeg pc = kdeg k /\
        nth m cp 0 < nth (S m) cp 0 /\
        kumin pc == nth m cp 0 /\
        kumax pc == nth (S m) cp 0 /\ first_q (kvec pc) == nth m cp 0 /\ last_q (kvec pc) == nth (S m) cp 0).
Proof. exact ksplit_structure. Qed.
Print Assumptions C07_split_structure.

Theorem C07_split_total :
  forall (k : kv) (nodes : list Q),
       WF (kvec k) (kdeg k) -> kvalid k nodes = true -> exists pieces : list kv, ksplit k nodes = Ok pieces.
Proof. exact ksplit_total. Qed.
Print Assumptions C07_split_total.

Theorem C07_split_refuses :
  forall (k : kv) (nodes : list Q),
       WF (kvec k) (kdeg k) ->
       (kvalid k nodes = false -> ksplit k nodes = Err ValueError) /\
       (forall e : exn, ksplit k nodes = Err e -> e = ValueError /\ kvalid k nodes = false).
Proof. exact ksplit_refuses. Qed.
Print Assumptions C07_split_refuses.

Theorem C07_split_matrices :
  forall (k : kv) (nodes : list Q) (Ms : list mat) (pieces : list kv),
       WF (kvec k) (kdeg k) ->
       exact_mult k nodes ->
       split_curve k nodes = Ok Ms ->
       ksplit k nodes = Ok pieces ->
       length Ms = length pieces /\
       (forall m : nat,
        (m < length pieces)%nat ->
        length (nth m Ms []) = knpts (nth m pieces k) /\
        (forall (P : list Q) (u : Q),
         length P = knpts k ->
         kumin (nth m pieces k) <= u ->
         u < kumax (nth m pieces k) \/ u <= kumax (nth m pieces k) /\ S m = length pieces ->
         curve_spec1 (kvec (nth m pieces k)) (kdeg k) (mvec (nth m Ms []) P) u ==
         curve_spec1 (kvec k) (kdeg k) P u)).
Proof. exact split_curve_restrict. Qed.
Print Assumptions C07_split_matrices.

Theorem C07_split_spline :
  forall (c : curve) (nodes : option (list Q)) (cs : list curve) (P : list (list Q)) (d : nat),
       c_split c nodes = Ok cs ->
       WF (kvec (ckv c)) (cdeg c) ->
       exact_mult (ckv c) (split_nodes_of c nodes) ->
       cP c = Some P ->
       cW c = None ->
       length P = cnpts c ->
       Forall (fun pt : list Q => length pt = d) P ->
       exists pieces : list kv,
         ksplit (ckv c) (split_nodes_of c nodes) = Ok pieces /\
         length cs = length pieces /\
         (forall m : nat,
          (m < length cs)%nat ->
          ckv (nth m cs c) = nth m pieces (ckv c) /\
          cW (nth m cs c) = None /\
          (exists Pm : list pt,
             cP (nth m cs c) = Some Pm /\
             length Pm = cnpts (nth m cs c) /\
             (forall u : Q,
              kumin (ckv (nth m cs c)) <= u ->
              u < kumax (ckv (nth m cs c)) \/ u <= kumax (ckv (nth m cs c)) /\ S m = length cs ->
              Forall2 Qeq (curve_spec (kvec (ckv (nth m cs c))) (cdeg c) d Pm u)
                (curve_spec (kvec (ckv c)) (cdeg c) d P u)))).
Proof. exact c_split_spline. Qed.
Print Assumptions C07_split_spline.

Theorem C07_split_rational :
  forall (c : curve) (nodes : option (list Q)) (cs : list curve) (P : list (list Q)) 
         (Wt : list Q) (d : nat),
       c_split c nodes = Ok cs ->
       WF (kvec (ckv c)) (cdeg c) ->
       exact_mult (ckv c) (split_nodes_of c nodes) ->
       cP c = Some P ->
       cW c = Some Wt ->
       length P = cnpts c ->
       length Wt = cnpts c ->
       Forall (fun pt : list Q => length pt = d) P ->
       Forall (fun w : Q => 0 < w) Wt ->
       exists pieces : list kv,
         ksplit (ckv c) (split_nodes_of c nodes) = Ok pieces /\
         length cs = length pieces /\
         (forall m : nat,
          (m < length cs)%nat ->
          ckv (nth m cs c) = nth m pieces (ckv c) /\
          (exists (Pm : list pt) (Wm : list Q),
             cP (nth m cs c) = Some Pm /\
             cW (nth m cs c) = Some Wm /\
             length Pm = cnpts (nth m cs c) /\
             length Wm = cnpts (nth m cs c) /\
             Forall (fun w : Q => 0 < w) Wm /\
             (forall u : Q,
              kumin (ckv (nth m cs c)) <= u ->
              u < kumax (ckv (nth m cs c)) \/ u <= kumax (ckv (nth m cs c)) /\ S m = length cs ->
              Forall2 Qeq (rational_spec (kvec (ckv (nth m cs c))) (cdeg c) d Wm Pm u)
                (rational_spec (kvec (ckv c)) (cdeg c) d Wt P u)))).
Proof. exact c_split_rational. Qed.
Print Assumptions C07_split_rational.

Theorem C07_basis_restriction :
  forall (big : list Q) (p : nat) (a b : Q),
       WF big p ->
       a < b ->
       count_q a big = (p + 1)%nat ->
       count_q b big = (p + 1)%nat ->
       let piece := piece_of big p a b in
       let lower := lower_of big a in
       WF piece p /\
       Forall2 Qeq big (filter (below a) big ++ piece ++ filter (above b) big) /\
       (forall u : Q,
        a <= u ->
        u < b \/ u <= b /\ b == last_q big ->
        (forall i : nat, (i < npts_of piece p)%nat -> Nspec piece p p i u == Nspec big p p (lower + i) u) /\
        (forall m : nat, (m < lower)%nat \/ (lower + npts_of piece p <= m)%nat -> Nspec big p p m u == 0) /\
        (forall Qv : list Q,
         curve_spec1 piece p (firstn (npts_of piece p) (skipn lower Qv)) u == curve_spec1 big p Qv u)).
Proof. exact split_restrict_piece_of. Qed.
Print Assumptions C07_basis_restriction.

Theorem C07_needs_exact_multiplicity :
  WF (kvec bad_k) (kdeg bad_k) /\
       match split_curve bad_k bad_nodes with
       | Ok Ms =>
           match ksplit bad_k bad_nodes with
           | Ok pieces =>
               Qleb (kumin (nth 1 pieces bad_k)) (3 # 4) && Qltb (3 # 4) (kumax (nth 1 pieces bad_k)) &&
               negb
                 (Qeqb
                    (curve_spec1 (kvec (nth 1 pieces bad_k)) 2 (mvec (nth 1 Ms []) [0; 0; 0; 1; 0]) (3 # 4))
                    (curve_spec1 (kvec bad_k) 2 [0; 0; 0; 1; 0] (3 # 4)))
           | Err _ => false
           end
       | Err _ => false
       end = true.
Proof. exact split_needs_exact_mult. Qed.
Print Assumptions C07_needs_exact_multiplicity.


Example C07_nonvacuous :
  match c_split (mkcurve (mkkv [0; 0; 0; 1#2; 1; 1; 1] 2) (Some [[1]; [2]; [-1]; [3]]) (Some [1; 2; 1#2; 1])) (Some [1#4]) with
  | Ok [a; b] => ql_eqb (kvec (ckv a)) [0; 0; 0; 1#4; 1#4; 1#4] && ql_eqb (kvec (ckv b)) [1#4; 1#4; 1#4; 1#2; 1; 1; 1]
  | _ => false
  end = true.
Proof. vm_compute. reflexivity. Qed.

From NurbsV Require Import Spec.BSpline Gen.Consts Model.Linalg Model.Quadrature Model.LeastSq Model.CurveLS Proofs.Local Proofs.CleanProofs.
(* ---- joining (Proofs/CleanProofs.v): over the concatenated vector with the concatenated control points the joined curve IS the left
   operand on [umin A, umax A) and the right operand on [umin B, umax B] (before the junction knot is cleaned); the model's `A | B` for
   equal degrees is exactly knot_clean of that curve at the junction, which stops only when a further removal is refused. ---- *)
Theorem C07_join_wf :
  forall (Ua Ub : list Q) (p : nat),
       WF Ua p -> WF Ub p -> last_q Ua == first_q Ub -> WF (join_vec Ua Ub p) p.
Proof. exact join_wf. Qed.
Print Assumptions C07_join_wf.

Theorem C07_join_is_left_operand :
  forall (Ua Ub : list Q) (p : nat) (Pa Pb : list (list Q)) (d : nat) (u : Q),
       WF Ua p ->
       WF Ub p ->
       last_q Ua == first_q Ub ->
       length Pa = npts_of Ua p ->
       length Pb = npts_of Ub p ->
       in_range Ua p u = true ->
       u < umax_of Ua p ->
       Forall2 Qeq (curve_spec (join_vec Ua Ub p) p d (Pa ++ Pb) u) (curve_spec Ua p d Pa u).
Proof. exact join_left_pts. Qed.
Print Assumptions C07_join_is_left_operand.

Theorem C07_join_is_right_operand :
  forall (Ua Ub : list Q) (p : nat) (Pa Pb : list (list Q)) (d : nat) (u : Q),
       WF Ua p ->
       WF Ub p ->
       last_q Ua == first_q Ub ->
       length Pa = npts_of Ua p ->
       length Pb = npts_of Ub p ->
       in_range Ub p u = true ->
       Forall2 Qeq (curve_spec (join_vec Ua Ub p) p d (Pa ++ Pb) u) (curve_spec Ub p d Pb u).
Proof. exact join_right_pts. Qed.
Print Assumptions C07_join_is_right_operand.

Theorem C07_join_limits :
  forall (Ua Ub : list Q) (p : nat),
       WF Ua p ->
       WF Ub p ->
       last_q Ua == first_q Ub ->
       umin_of (join_vec Ua Ub p) p == umin_of Ua p /\
       umax_of (join_vec Ua Ub p) p == umax_of Ub p /\ umin_of Ua p < last_q Ua < umax_of Ub p.
Proof. exact join_limits. Qed.
Print Assumptions C07_join_limits.

Theorem C07_join_model_same_degree :
  forall (a b : curve) (Pa Pb : list pt),
       cP a = Some Pa ->
       cP b = Some Pb ->
       cW a = None ->
       cW b = None ->
       kdeg (ckv b) = kdeg (ckv a) ->
       WF (kvec (ckv a)) (kdeg (ckv a)) ->
       WF (kvec (ckv b)) (kdeg (ckv b)) ->
       last_q (kvec (ckv a)) == first_q (kvec (ckv b)) ->
       let J := joined a b Pa Pb in
       let t := last_q (kvec (ckv a)) in
       c_join a b = c_knot_clean J (Some [t]) tol_kclean /\
       c_join a b = Ok (remove_while (length (kvec (ckv J))) J t (Some tol_kclean)) /\
       (exists e : exn,
          c_knot_remove (remove_while (length (kvec (ckv J))) J t (Some tol_kclean)) [t] (Some tol_kclean) =
          Err e).
Proof. exact c_join_same_degree. Qed.
Print Assumptions C07_join_model_same_degree.

From NurbsV Require Import Proofs.SplitProofs Proofs.SplitJoin.
(* ---- split-then-join (Proofs/SplitJoin.v): two curves that agree with C on the two sides of x, concatenated, ARE C as a function on the
   whole interval; for the two pieces the model's split returns at a cut point x the joined vector is C's vector plus p + 1 - mult(x) copies
   of x, and `A | B` passes through a state that is C itself (knot vector, degree, control points up to ==) and stops only when a further
   removal at x is refused - given the chain of solve certificates `certs` (checkable by vm_compute). ---- *)
Theorem C07_pieces_joined_are_the_curve :
  forall (U : list Q) (p d : nat) (P : list pt) (x : Q) (Ua Ub : list Q) (Pa Pb : list pt),
       WF Ua p ->
       WF Ub p ->
       length Pa = npts_of Ua p ->
       length Pb = npts_of Ub p ->
       last_q Ua == x ->
       x == first_q Ub ->
       umin_of Ua p == umin_of U p ->
       umax_of Ub p == umax_of U p ->
       (forall u : Q,
        in_range Ua p u = true -> u < x -> Forall2 Qeq (curve_spec Ua p d Pa u) (curve_spec U p d P u)) ->
       (forall u : Q, in_range Ub p u = true -> Forall2 Qeq (curve_spec Ub p d Pb u) (curve_spec U p d P u)) ->
       forall u : Q,
       in_range U p u = true ->
       Forall2 Qeq (curve_spec (join_vec Ua Ub p) p d (Pa ++ Pb) u) (curve_spec U p d P u).
Proof. exact split_join_function. Qed.
Print Assumptions C07_pieces_joined_are_the_curve.

Theorem C07_split_then_join_restores :
  forall (c : curve) (P : list pt) (d : nat) (x : Q) (a b : curve),
       cW c = None ->
       cP c = Some P ->
       WF (kvec (ckv c)) (cdeg c) ->
       length P = cnpts c ->
       Forall (fun q : pt => length q = d) P ->
       exact_mult (ckv c) [x] ->
       c_split c (Some [x]) = Ok [a; b] ->
       let p := cdeg c in
       let U := kvec (ckv c) in
       let m := (p + 1 - count_q x U)%nat in
       let Jv := join_vec (kvec (ckv a)) (kvec (ckv b)) p in
       certs x m {| kvec := Jv; kdeg := p |} ->
       umin_of U p < x < umax_of U p /\
       (forall y : Q, count_q y Jv = (count_q y U + (if Qeqb y x then m else 0))%nat) /\
       (exists r : curve,
          c_join a b = Ok r /\
          (exists (c2 : curve) (P2 : list pt),
             r = remove_while (length Jv - m) c2 x (Some tol_kclean) /\
             cW c2 = None /\
             cP c2 = Some P2 /\
             Forall2 Qeq (kvec (ckv c2)) U /\ kdeg (ckv c2) = p /\ Forall2 (Forall2 Qeq) P2 P) /\
          (count_q x (kvec (ckv r)) <= count_q x U)%nat /\
          (forall y : Q, ~ y == x -> count_q y (kvec (ckv r)) = count_q y U) /\
          (exists e : exn, c_knot_remove r [x] (Some tol_kclean) = Err e)).
Proof. exact split_then_join. Qed.
Print Assumptions C07_split_then_join_restores.

