(* PROPERTY C07: curve.split(nodes) returns one curve per sub-interval between consecutive distinct cut
   points, each clamped on its sub-interval and equal to the original curve there (polynomial and
   rational); A | B equals A on A's interval and B on B's; joining the pieces of a split gives back a
   curve equal to the original.
   Statements only; proofs in Proofs/KVProofs.v, Proofs/InsertCompose.v (and Proofs/SplitProofs.v). *)
From Coq Require Import QArith List Bool Arith.
From NurbsV Require Import Base.Res Base.QList Spec.KnotSpec Spec.BSpline Model.KV Model.Basis Model.CurveM Model.Ops Model.CurveOps.
From NurbsV Require Import Proofs.KVProofs Proofs.InsertCompose.
Import ListNotations.
Open Scope Q_scope.

(* every piece of the knot-vector split is a well-formed clamped vector *)
Theorem C07_split_pieces_wf : forall k nodes ks,
  ksplit k nodes = Ok ks -> WF (kvec k) (kdeg k) -> Forall (fun k' : kv => WF (kvec k') (kdeg k')) ks.
Proof. exact ksplit_wf. Qed.
Print Assumptions C07_split_pieces_wf.

(* the matrix that inserts every cut up to multiplicity degree+1 (the first half of split_curve)
   leaves the curve unchanged at every u *)
Theorem C07_refinement_preserves_curve : forall (k : kv) (nodes : list Q) (M : mat) (k' : kv),
  WF (kvec k) (kdeg k) -> knot_insert k nodes = Ok M -> kinsert k nodes = Ok k' -> kdeg k' = kdeg k ->
  length M = knpts k' /\
  (forall (P : list Q) (u : Q), length P = knpts k -> in_range (kvec k) (kdeg k) u = true ->
     curve_spec1 (kvec k') (kdeg k) (mvec M P) u == curve_spec1 (kvec k) (kdeg k) P u).
Proof. exact knot_insert_curve. Qed.
Print Assumptions C07_refinement_preserves_curve.

Example C07_nonvacuous :
  match c_split (mkcurve (mkkv [0; 0; 0; 1#2; 1; 1; 1] 2) (Some [[1]; [2]; [-1]; [3]]) (Some [1; 2; 1#2; 1])) (Some [1#4]) with
  | Ok [a; b] => ql_eqb (kvec (ckv a)) [0; 0; 0; 1#4; 1#4; 1#4] && ql_eqb (kvec (ckv b)) [1#4; 1#4; 1#4; 1#2; 1; 1; 1]
  | _ => false
  end = true.
Proof. vm_compute. reflexivity. Qed.
