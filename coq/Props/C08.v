(* PROPERTY C08: for curves A and B on the same interval and scalars s: (A+B)(u)=A(u)+B(u), (A-B), (A*B), (A@B),
   (A/B) where B has no zero, (-A), s+A, A+s, s-A, A-s, s*A, A*s, A/s, s/A, A@M pointwise for every u of the
   interval, exactly for rational data; operands are not modified; different intervals raise ValueError.
   Statements only; proofs in Proofs/InsertCompose.v, Proofs/UnionProofs.v, Proofs/MatProofs.v (and Proofs/ArithProofs.v). *)
From Coq Require Import QArith List Bool Arith.
From NurbsV Require Import Base.Res Base.QList Spec.KnotSpec Spec.BSpline Gen.Consts Model.KV Model.Basis Model.CurveM Model.Ops
  Model.CurveOps Model.Linalg Model.Quadrature Model.LeastSq Model.CurveLS Model.MathOps.
From NurbsV Require Import Proofs.MatProofs Proofs.LSProofs Proofs.UnionProofs Proofs.InsertCompose.
Import ListNotations.
Open Scope Q_scope.
Theorem C08_common_vector_refines_left :
  forall a b k : kv,
       separated (kvec a ++ kvec b) ->
       kor a b = Ok k ->
       forall x : Q,
       (lift (Nat.max (kdeg a) (kdeg b)) (kdeg a) x (kvec a) <= count_q x (kvec k))%nat /\
       (count_q x (kvec a) <= count_q x (kvec k))%nat.
Proof. exact kor_refines_left. Qed.
Print Assumptions C08_common_vector_refines_left.

Theorem C08_common_vector_refines_right :
  forall a b k : kv,
       separated (kvec a ++ kvec b) ->
       kor a b = Ok k ->
       forall x : Q,
       (lift (Nat.max (kdeg a) (kdeg b)) (kdeg b) x (kvec b) <= count_q x (kvec k))%nat /\
       (count_q x (kvec b) <= count_q x (kvec k))%nat.
Proof. exact kor_refines_right. Qed.
Print Assumptions C08_common_vector_refines_right.

Theorem C08_different_intervals_refused :
  forall a b : kv, limits_eqb a b = false -> kor a b = Err ValueError.
Proof. exact kor_limits_err. Qed.
Print Assumptions C08_different_intervals_refused.

Theorem C08_change_of_basis_preserves_curve :
  forall (k : kv) (nodes : list Q) (M : mat) (k' : kv),
       WF (kvec k) (kdeg k) ->
       knot_insert k nodes = Ok M ->
       kinsert k nodes = Ok k' ->
       kdeg k' = kdeg k ->
       length M = knpts k' /\
       (forall (P : list Q) (u : Q),
        length P = knpts k ->
        in_range (kvec k) (kdeg k) u = true ->
        curve_spec1 (kvec k') (kdeg k) (mvec M P) u == curve_spec1 (kvec k) (kdeg k) P u).
Proof. exact knot_insert_curve. Qed.
Print Assumptions C08_change_of_basis_preserves_curve.

Theorem C08_product_collocation_is_least_squares :
  forall (n m : nat) (A Mx : mat),
       shaped n m A ->
       (m < n)%nat ->
       lstsq A = Ok Mx ->
       forall b y : list Q,
       length b = n -> length y = m -> norm2 (vsub (mvec A (mvec Mx b)) b) <= norm2 (vsub (mvec A y) b).
Proof. exact lstsq_minimal. Qed.
Print Assumptions C08_product_collocation_is_least_squares.

Theorem C08_product_collocation_reproduces :
  forall (n m : nat) (A Mx : mat),
       shaped n m A ->
       (m < n)%nat ->
       lstsq A = Ok Mx -> forall b z : list Q, length z = m -> veq b (mvec A z) -> veq (mvec Mx b) z.
Proof. exact lstsq_reproduces. Qed.
Print Assumptions C08_product_collocation_reproduces.

(* non-vacuity: sum, product and quotient of two curves with different degrees and knots, computed by the model *)
Example C08_nonvacuous :
  let a := mkcurve (mkkv [0; 0; 1#2; 1; 1] 1) (Some [[1]; [3]; [2]]) None in
  let b := mkcurve (mkkv [0; 0; 0; 1; 1; 1] 2) (Some [[2]; [1]; [4]]) None in
  match c_add a b, c_mul a b, c_div a b with
  | Ok s, Ok m, Ok q => Nat.eqb (kdeg (ckv s)) 2 && Nat.eqb (kdeg (ckv m)) 3 && Nat.eqb (kdeg (ckv q)) 2
  | _, _, _ => false
  end = true.
Proof. vm_compute. reflexivity. Qed.
