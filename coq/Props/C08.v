(* PROPERTY C08: for curves A and B on the same interval and scalars s: (A+B)(u)=A(u)+B(u), (A-B), (A*B), (A@B),
   (A/B) where B has no zero, (-A), s+A, A+s, s-A, A-s, s*A, A*s, A/s, s/A, A@M pointwise for every u of the
   interval, exactly for rational data; operands are not modified; different intervals raise ValueError.
   Statements only; proofs in Proofs/InsertCompose.v, Proofs/UnionProofs.v, Proofs/MatProofs.v (and Proofs/ArithProofs.v). *)
From Coq Require Import QArith List Bool Arith.
From NurbsV Require Import Base.Res Base.QList Spec.KnotSpec Spec.BSpline Gen.Consts Model.KV Model.Basis Model.CurveM Model.Ops
  Model.CurveOps Model.Linalg Model.Quadrature Model.LeastSq Model.CurveLS Model.MathOps.
From NurbsV Require Import Proofs.MatProofs Proofs.LSProofs Proofs.UnionProofs Proofs.InsertCompose Proofs.ArithProofs.
Import ListNotations.
Open Scope Q_scope.
Theorem C08_common_vector_refines_left :
  forall a b k : kv,
       separated (kvec a ++ kvec b) ->
       kor a b = Ok k ->
       forall x : Q,
       (lift (Nat.max (kdeg a) (kdeg b)) (kdeg a) x (kvec a) <= count_q x (kvec k))%nat /\
       (count_q x (kvec a) <= count_q x (kvec k))%nat.
Proof. exact kor_refines_left. Qed.
Print Assumptions C08_common_vector_refines_left.

Theorem C08_common_vector_refines_right :
  forall a b k : kv,
       separated (kvec a ++ kvec b) ->
       kor a b = Ok k ->
       forall x : Q,
       (lift (Nat.max (kdeg a) (kdeg b)) (kdeg b) x (kvec b) <= count_q x (kvec k))%nat /\
       (count_q x (kvec b) <= count_q x (kvec k))%nat.
Proof. exact kor_refines_right. Qed.
Print Assumptions C08_common_vector_refines_right.

Theorem C08_different_intervals_refused :
  forall a b : kv, limits_eqb a b = false -> kor a b = Err ValueError.
Proof. exact kor_limits_err. Qed.
Print Assumptions C08_different_intervals_refused.

Theorem C08_change_of_basis_preserves_curve :
  forall (k : kv) (nodes : list Q) (M : mat) (k' : kv),
       WF (kvec k) (kdeg k) ->
       knot_insert k nodes = Ok M ->
       kinsert k nodes = Ok k' ->
       kdeg k' = kdeg k ->
       length M = knpts k' /\
       (forall (P : list Q) (u : Q),
        length P = knpts k ->
        in_range (kvec k) (kdeg k) u = true ->
        curve_spec1 (kvec k') (kdeg k) (mvec M P) u == curve_spec1 (kvec k) (kdeg k) P u).
Proof. exact knot_insert_curve. Qed.
Print Assumptions C08_change_of_basis_preserves_curve.

Theorem C08_product_collocation_is_least_squares :
  forall (n m : nat) (A Mx : mat),
       shaped n m A ->
       (m < n)%nat ->
       lstsq A = Ok Mx ->
       forall b y : list Q,
       length b = n -> length y = m -> norm2 (vsub (mvec A (mvec Mx b)) b) <= norm2 (vsub (mvec A y) b).
Proof. exact lstsq_minimal. Qed.
Print Assumptions C08_product_collocation_is_least_squares.

Theorem C08_product_collocation_reproduces :
  forall (n m : nat) (A Mx : mat),
       shaped n m A ->
       (m < n)%nat ->
       lstsq A = Ok Mx -> forall b z : list Q, length z = m -> veq b (mvec A z) -> veq (mvec Mx b) z.
Proof. exact lstsq_reproduces. Qed.
Print Assumptions C08_product_collocation_reproduces.

(* ---- pointwise theorems (Proofs/ArithProofs.v): negation and scalar forms for polynomial and rational curves, sum /
   difference / quotient of curves given change-of-basis matrices that preserve the operands (`refines`, delivered by
   knot insertion: C08_knot_insertion_refines), s / A. ---- *)
Theorem C08_neg_pointwise :
  forall (c : curve) (P : list (list Q)) (d : nat),
       cP c = Some P ->
       forall (c' : curve) (u : Q),
       c_neg c = Ok c' ->
       cW c = None ->
       exists P' : list pt,
         cP c' = Some P' /\
         cW c' = None /\
         ckv c' = ckv c /\
         length P' = length P /\
         (dims d P -> dims d P') /\
         Forall2 Qeq (curve_spec (kvec (ckv c')) (cdeg c') d P' u)
           (map Qopp (curve_spec (kvec (ckv c)) (cdeg c) d P u)).
Proof. exact c_neg_spline. Qed.
Print Assumptions C08_neg_pointwise.

Theorem C08_scalar_mul_pointwise :
  forall (c : curve) (P : list (list Q)) (d : nat),
       cP c = Some P ->
       forall (s : Q) (c' : curve) (u : Q),
       c_mul_scalar c s = Ok c' ->
       cW c = None ->
       exists P' : list pt,
         cP c' = Some P' /\
         cW c' = None /\
         ckv c' = ckv c /\
         length P' = length P /\
         (dims d P -> dims d P') /\
         Forall2 Qeq (curve_spec (kvec (ckv c')) (cdeg c') d P' u)
           (map (Qmult s) (curve_spec (kvec (ckv c)) (cdeg c) d P u)).
Proof. exact c_mul_scalar_spline. Qed.
Print Assumptions C08_scalar_mul_pointwise.

Theorem C08_scalar_div_pointwise :
  forall (c : curve) (P : list (list Q)) (d : nat),
       cP c = Some P ->
       forall (s : Q) (c' : curve) (u : Q),
       c_div_scalar c s = Ok c' ->
       cW c = None ->
       ~ s == 0 /\
       (exists P' : list pt,
          cP c' = Some P' /\
          cW c' = None /\
          ckv c' = ckv c /\
          length P' = length P /\
          (dims d P -> dims d P') /\
          Forall2 Qeq (curve_spec (kvec (ckv c')) (cdeg c') d P' u)
            (map (fun x : Q => x / s) (curve_spec (kvec (ckv c)) (cdeg c) d P u))).
Proof. exact c_div_scalar_spline. Qed.
Print Assumptions C08_scalar_div_pointwise.

Theorem C08_scalar_div_zero :
  forall (c : curve) (s : Q), s == 0 -> c_div_scalar c s = Err ZeroDivisionError.
Proof. exact c_div_scalar_zero. Qed.
Print Assumptions C08_scalar_div_zero.

Theorem C08_scalar_add_pointwise :
  forall (c : curve) (P : list (list Q)) (d : nat),
       cP c = Some P ->
       forall (v : pt) (c' : curve) (u : Q),
       c_add_scalar c v = Ok c' ->
       cW c = None ->
       WF (kvec (ckv c)) (cdeg c) ->
       in_range (kvec (ckv c)) (cdeg c) u = true ->
       length P = cnpts c ->
       length v = d ->
       dims d P ->
       exists P' : list pt,
         cP c' = Some P' /\
         cW c' = None /\
         ckv c' = ckv c /\
         length P' = length P /\
         dims d P' /\
         Forall2 Qeq (curve_spec (kvec (ckv c')) (cdeg c') d P' u)
           (map2 Qplus (curve_spec (kvec (ckv c)) (cdeg c) d P u) v).
Proof. exact c_add_scalar_spline. Qed.
Print Assumptions C08_scalar_add_pointwise.

Theorem C08_neg_rational :
  forall (c : curve) (P : list (list Q)) (d : nat),
       cP c = Some P ->
       forall Wt : list Q,
       cW c = Some Wt ->
       forall (c' : curve) (u : Q),
       c_neg c = Ok c' ->
       exists P' : list pt,
         cP c' = Some P' /\
         cW c' = Some Wt /\
         ckv c' = ckv c /\
         length P' = length P /\
         (dims d P -> dims d P') /\
         Forall2 Qeq (rational_spec (kvec (ckv c')) (cdeg c') d Wt P' u)
           (map Qopp (rational_spec (kvec (ckv c)) (cdeg c) d Wt P u)).
Proof. exact c_neg_rational. Qed.
Print Assumptions C08_neg_rational.

Theorem C08_scalar_mul_rational :
  forall (c : curve) (P : list (list Q)) (d : nat),
       cP c = Some P ->
       forall Wt : list Q,
       cW c = Some Wt ->
       forall (s : Q) (c' : curve) (u : Q),
       c_mul_scalar c s = Ok c' ->
       exists P' : list pt,
         cP c' = Some P' /\
         cW c' = Some Wt /\
         ckv c' = ckv c /\
         length P' = length P /\
         (dims d P -> dims d P') /\
         Forall2 Qeq (rational_spec (kvec (ckv c')) (cdeg c') d Wt P' u)
           (map (Qmult s) (rational_spec (kvec (ckv c)) (cdeg c) d Wt P u)).
Proof. exact c_mul_scalar_rational. Qed.
Print Assumptions C08_scalar_mul_rational.

Theorem C08_scalar_add_rational :
  forall (c : curve) (P : list (list Q)) (d : nat),
       cP c = Some P ->
       forall Wt : list Q,
       cW c = Some Wt ->
       forall (v : pt) (c' : curve) (u : Q),
       c_add_scalar c v = Ok c' ->
       WF (kvec (ckv c)) (cdeg c) ->
       in_range (kvec (ckv c)) (cdeg c) u = true ->
       length P = cnpts c ->
       length Wt = cnpts c ->
       Forall (fun w : Q => 0 < w) Wt ->
       length v = d ->
       dims d P ->
       exists P' : list pt,
         cP c' = Some P' /\
         cW c' = Some Wt /\
         ckv c' = ckv c /\
         length P' = length P /\
         dims d P' /\
         Forall2 Qeq (rational_spec (kvec (ckv c')) (cdeg c') d Wt P' u)
           (map2 Qplus (rational_spec (kvec (ckv c)) (cdeg c) d Wt P u) v).
Proof. exact c_add_scalar_rational. Qed.
Print Assumptions C08_scalar_add_rational.

Theorem C08_add_pointwise :
  forall (a b c' : curve) (Pa Pb : list pt) (d : nat) (u : Q),
       c_add a b = Ok c' ->
       cP a = Some Pa ->
       cP b = Some Pb ->
       cW a = None ->
       cW b = None ->
       length Pa = cnpts a ->
       length Pb = cnpts b ->
       dims d Pa ->
       pdim Pa = d ->
       dims d Pb ->
       pdim Pb = d ->
       (forall (kc : kv) (Ma Mb : mat),
        kor (ckv a) (ckv b) = Ok kc ->
        matrix_transformation (ckv a) kc = Ok Ma ->
        matrix_transformation (ckv b) kc = Ok Mb -> refines (ckv a) kc Ma u /\ refines (ckv b) kc Mb u) ->
       exists (kc : kv) (P' : list pt),
         kor (ckv a) (ckv b) = Ok kc /\
         c' = {| ckv := kc; cP := Some P'; cW := None |} /\
         length P' = knpts kc /\
         dims d P' /\
         Forall2 Qeq (curve_spec (kvec kc) (kdeg kc) d P' u)
           (map2 Qplus (curve_spec (kvec (ckv a)) (cdeg a) d Pa u)
              (curve_spec (kvec (ckv b)) (cdeg b) d Pb u)).
Proof. exact c_add_pointwise. Qed.
Print Assumptions C08_add_pointwise.

Theorem C08_sub_pointwise :
  forall (a b c' : curve) (Pa Pb : list pt) (d : nat) (u : Q),
       c_sub a b = Ok c' ->
       cP a = Some Pa ->
       cP b = Some Pb ->
       cW a = None ->
       cW b = None ->
       length Pa = cnpts a ->
       length Pb = cnpts b ->
       dims d Pa ->
       pdim Pa = d ->
       dims d Pb ->
       pdim Pb = d ->
       (forall (kc : kv) (Ma Mb : mat),
        kor (ckv a) (ckv b) = Ok kc ->
        matrix_transformation (ckv a) kc = Ok Ma ->
        matrix_transformation (ckv b) kc = Ok Mb -> refines (ckv a) kc Ma u /\ refines (ckv b) kc Mb u) ->
       exists (kc : kv) (P' : list pt),
         kor (ckv a) (ckv b) = Ok kc /\
         c' = {| ckv := kc; cP := Some P'; cW := None |} /\
         length P' = knpts kc /\
         dims d P' /\
         Forall2 Qeq (curve_spec (kvec kc) (kdeg kc) d P' u)
           (map2 Qminus (curve_spec (kvec (ckv a)) (cdeg a) d Pa u)
              (curve_spec (kvec (ckv b)) (cdeg b) d Pb u)).
Proof. exact c_sub_pointwise. Qed.
Print Assumptions C08_sub_pointwise.

Theorem C08_div_pointwise :
  forall (a b c' : curve) (Pa Pb : list pt) (da db : nat) (u : Q),
       c_div a b = Ok c' ->
       cP a = Some Pa ->
       cP b = Some Pb ->
       cW a = None ->
       cW b = None ->
       length Pa = cnpts a ->
       length Pb = cnpts b ->
       dims da Pa ->
       pdim Pa = da ->
       dims db Pb ->
       pdim Pb = db ->
       (0 < db)%nat ->
       (forall (kc : kv) (Ma Mb : mat),
        kor (ckv a) (ckv b) = Ok kc ->
        matrix_transformation (ckv a) kc = Ok Ma ->
        matrix_transformation (ckv b) kc = Ok Mb -> refines (ckv a) kc Ma u /\ refines (ckv b) kc Mb u) ->
       exists (kc : kv) (P' : list pt) (w : list Q),
         kor (ckv a) (ckv b) = Ok kc /\
         c' = {| ckv := kc; cP := Some P'; cW := Some w |} /\
         length P' = knpts kc /\
         length w = knpts kc /\
         Forall (fun wi : Q => ~ wi == 0) w /\
         weight_spec (kvec kc) (kdeg kc) w u == curve_spec1 (kvec (ckv b)) (cdeg b) (coord 0 Pb) u /\
         Forall2 Qeq (rational_spec (kvec kc) (kdeg kc) da w P' u)
           (map (fun x : Q => x / curve_spec1 (kvec (ckv b)) (cdeg b) (coord 0 Pb) u)
              (curve_spec (kvec (ckv a)) (cdeg a) da Pa u)).
Proof. exact c_div_pointwise. Qed.
Print Assumptions C08_div_pointwise.

Theorem C08_rdiv_pointwise :
  forall (s : Q) (a c' : curve) (Pa : list pt) (u : Q),
       c_rdiv s a = Ok c' ->
       cP a = Some Pa ->
       cW a = None ->
       WF (kvec (ckv a)) (cdeg a) ->
       in_range (kvec (ckv a)) (cdeg a) u = true ->
       length Pa = cnpts a ->
       exists (P' : list pt) (w : list Q),
         c' = {| ckv := ckv a; cP := Some P'; cW := Some w |} /\
         w = coord 0 Pa /\
         length P' = cnpts a /\
         dims 1%nat P' /\
         Forall (fun wi : Q => ~ wi == 0) w /\
         Forall2 Qeq (rational_spec (kvec (ckv a)) (cdeg a) 1 w P' u)
           [s / curve_spec1 (kvec (ckv a)) (cdeg a) (coord 0 Pa) u].
Proof. exact c_rdiv_pointwise. Qed.
Print Assumptions C08_rdiv_pointwise.

Theorem C08_rdiv_zero_weight :
  forall (s : Q) (a : curve) (Pa : list pt),
       cP a = Some Pa ->
       cW a = None ->
       existsb (fun x : Q => Qeqb x 0) (coord 0 Pa) = true -> c_rdiv s a = Err ZeroDivisionError.
Proof. exact c_rdiv_zero. Qed.
Print Assumptions C08_rdiv_zero_weight.

Theorem C08_knot_insertion_refines :
  forall (k : kv) (nodes : list Q) (M : mat) (k' : kv) (u : Q),
       WF (kvec k) (kdeg k) ->
       knot_insert k nodes = Ok M ->
       kinsert k nodes = Ok k' -> kdeg k' = kdeg k -> in_range (kvec k) (kdeg k) u = true -> refines k k' M u.
Proof. exact refines_knot_insert. Qed.
Print Assumptions C08_knot_insertion_refines.

Theorem C08_quotient_core :
  forall (U : list Q) (p : nat) (w x : list Q) (u : Q),
       length x = length w ->
       Forall (fun wi : Q => ~ wi == 0) w ->
       rational_spec1 U p w (map2 (fun xi wi : Q => xi / wi) x w) u ==
       curve_spec1 U p x u / curve_spec1 U p w u.
Proof. exact quotient_core. Qed.
Print Assumptions C08_quotient_core.


(* non-vacuity: sum, product and quotient of two curves with different degrees and knots, computed by the model *)
Example C08_nonvacuous :
  let a := mkcurve (mkkv [0; 0; 1#2; 1; 1] 1) (Some [[1]; [3]; [2]]) None in
  let b := mkcurve (mkkv [0; 0; 0; 1; 1; 1] 2) (Some [[2]; [1]; [4]]) None in
  match c_add a b, c_mul a b, c_div a b with
  | Ok s, Ok m, Ok q => Nat.eqb (kdeg (ckv s)) 2 && Nat.eqb (kdeg (ckv m)) 3 && Nat.eqb (kdeg (ckv q)) 2
  | _, _, _ => false
  end = true.
Proof. vm_compute. reflexivity. Qed.
