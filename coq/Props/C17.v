From Coq Require Import QArith.
Example C17_placeholder : (1 + 1 == 2)%Q.
Proof. reflexivity. Qed.
