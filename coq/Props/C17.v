(* PROPERTY C17: for knot vectors U, V on the same interval, U | V is the common refinement (degree
   max(p,q); each knot keeps the lower continuity order, i.e. the larger of the degree-lifted
   multiplicities; per-knot maximum for equal degrees) and U & V the per-knot minimum multiplicity;
   both commutative and idempotent, U|V refines U and V, different intervals raise ValueError.
   Statements only; proofs in Proofs/UnionProofs.v and Proofs/KVProofs.v.
   "separated" = distinct knots of the two operands are at least 1e-6 apart (the library identifies
   closer knots; known finding K2). *)
From Coq Require Import QArith Qabs List Bool Arith.
From NurbsV Require Import Base.Res Base.QList Spec.KnotSpec Gen.Consts Model.KV.
From NurbsV Require Import Proofs.KVProofs Proofs.UnionProofs.
From NurbsV Require Check.C17.
Import ListNotations.
Open Scope Q_scope.

Theorem C17_or_wf : forall a b k, kor a b = Ok k -> WF (kvec k) (kdeg k).
Proof. exact kor_wf. Qed.
Print Assumptions C17_or_wf.
Theorem C17_and_wf : forall a b k, kand a b = Ok k -> WF (kvec k) (kdeg k).
Proof. exact kand_wf. Qed.
Print Assumptions C17_and_wf.

(* different intervals are refused, and only they *)
Theorem C17_or_different_limits : forall a b, limits_eqb a b = false -> kor a b = Err ValueError.
Proof. exact kor_limits_err. Qed.
Print Assumptions C17_or_different_limits.
Theorem C17_and_different_limits : forall a b, limits_eqb a b = false -> kand a b = Err ValueError.
Proof. exact kand_limits_err. Qed.
Print Assumptions C17_and_different_limits.
Theorem C17_or_succeeds : forall a b,
  WF (kvec a) (kdeg a) -> WF (kvec b) (kdeg b) -> separated (kvec a ++ kvec b) ->
  limits_eqb a b = true -> exists k, kor a b = Ok k.
Proof. exact kor_succeeds. Qed.
Print Assumptions C17_or_succeeds.
Theorem C17_and_succeeds : forall a b,
  WF (kvec a) (kdeg a) -> WF (kvec b) (kdeg b) -> separated (kvec a ++ kvec b) ->
  limits_eqb a b = true -> exists k, kand a b = Ok k /\ kdeg k = Nat.min (kdeg a) (kdeg b).
Proof. exact kand_succeeds. Qed.
Print Assumptions C17_and_succeeds.

(* the multiplicity law of the union, every value x *)
Theorem C17_or_multiplicity : forall a b k,
  separated (kvec a ++ kvec b) -> kor a b = Ok k ->
  forall x, count_q x (kvec k) =
            Nat.max (lift (Nat.max (kdeg a) (kdeg b)) (kdeg a) x (kvec a))
                    (lift (Nat.max (kdeg a) (kdeg b)) (kdeg b) x (kvec b)).
Proof. exact kor_mult_law. Qed.
Print Assumptions C17_or_multiplicity.
Theorem C17_or_degree : forall a b k,
  WF (kvec a) (kdeg a) -> WF (kvec b) (kdeg b) -> separated (kvec a ++ kvec b) ->
  kor a b = Ok k -> kdeg k = Nat.max (kdeg a) (kdeg b).
Proof. exact kor_degree. Qed.
Print Assumptions C17_or_degree.

(* U|V refines both operands and introduces no new knot *)
Theorem C17_or_refines_left : forall a b k,
  separated (kvec a ++ kvec b) -> kor a b = Ok k ->
  forall x, (lift (Nat.max (kdeg a) (kdeg b)) (kdeg a) x (kvec a) <= count_q x (kvec k)
            /\ count_q x (kvec a) <= count_q x (kvec k))%nat.
Proof. exact kor_refines_left. Qed.
Print Assumptions C17_or_refines_left.
Theorem C17_or_refines_right : forall a b k,
  separated (kvec a ++ kvec b) -> kor a b = Ok k ->
  forall x, (lift (Nat.max (kdeg a) (kdeg b)) (kdeg b) x (kvec b) <= count_q x (kvec k)
            /\ count_q x (kvec b) <= count_q x (kvec k))%nat.
Proof. exact kor_refines_right. Qed.
Print Assumptions C17_or_refines_right.
Theorem C17_or_no_new_knots : forall a b k,
  separated (kvec a ++ kvec b) -> kor a b = Ok k ->
  forall x, (0 < count_q x (kvec k) -> 0 < count_q x (kvec a) \/ 0 < count_q x (kvec b))%nat.
Proof. exact kor_no_new_knots. Qed.
Print Assumptions C17_or_no_new_knots.

(* commutative, idempotent *)
Theorem C17_or_commutative : forall a b k k',
  separated (kvec a ++ kvec b) -> kor a b = Ok k -> kor b a = Ok k' ->
  forall x, count_q x (kvec k') = count_q x (kvec k).
Proof. exact kor_comm_mult. Qed.
Print Assumptions C17_or_commutative.
Theorem C17_or_idempotent : forall a k,
  separated (kvec a) -> kor a a = Ok k -> forall x, count_q x (kvec k) = count_q x (kvec a).
Proof. exact kor_idem_mult. Qed.
Print Assumptions C17_or_idempotent.

(* intersection: per-knot minimum multiplicity (for any degrees), degree min *)
Theorem C17_and_multiplicity : forall a b k,
  WF (kvec a) (kdeg a) -> WF (kvec b) (kdeg b) -> separated (kvec a ++ kvec b) ->
  kand a b = Ok k ->
  forall x, count_q x (kvec k) = Nat.min (count_q x (kvec a)) (count_q x (kvec b)).
Proof. exact kand_mult_law. Qed.
Print Assumptions C17_and_multiplicity.
Theorem C17_and_commutative : forall a b k k',
  WF (kvec a) (kdeg a) -> WF (kvec b) (kdeg b) -> separated (kvec a ++ kvec b) ->
  kand a b = Ok k -> kand b a = Ok k' ->
  (forall x, count_q x (kvec k') = count_q x (kvec k)) /\ kdeg k' = kdeg k.
Proof. exact kand_comm_mult. Qed.
Print Assumptions C17_and_commutative.

(* the model's result IS the closed form the implementation is compared with in Check/C17.v *)
Theorem C17_or_is_closed_form : forall a b k,
  WF (kvec a) (kdeg a) -> WF (kvec b) (kdeg b) -> separated (kvec a ++ kvec b) ->
  kor a b = Ok k ->
  C17.view_eqb (kvec k, kdeg k) (C17.spec_or (kvec a) (kdeg a) (kvec b) (kdeg b)) = true.
Proof. exact kor_matches_spec. Qed.
Print Assumptions C17_or_is_closed_form.

(* non-vacuity *)
Example C17_nonvacuous :
  WF (kvec ex_a) (kdeg ex_a) /\ WF (kvec ex_b) (kdeg ex_b) /\ separated (kvec ex_a ++ kvec ex_b)
  /\ limits_eqb ex_a ex_b = true.
Proof. exact (conj ex_wf_a (conj ex_wf_b (conj ex_separated ex_limits))). Qed.
