(* PROPERTY C02: for every knot vector of degree p, every j in 0..p, every index i and every u
   in the interval, Function(U)[i, j](u) equals the Cox-de Boor value N_i,j(u) (and
   w_i N_i,j / sum_k w_k N_k,j when weights are set); the values are non-negative, vanish
   outside [u_i, u_(i+j+1)], and for every j the row sums to one; negative indices select rows
   of the same table, out-of-range index or degree gives IndexError, a parameter outside the
   interval gives ValueError.
   Statements only; the proofs live in Proofs/EvalProofs.v. *)
From Coq Require Import QArith ZArith List Bool Arith.
From NurbsV Require Import Base.Res Base.QList Spec.KnotSpec Spec.BSpline Model.KV Model.Basis Model.FunctionM.
From NurbsV Require Import Proofs.EvalProofs.
Import ListNotations.
Open Scope Q_scope.

Theorem C02_value : forall k u j jn z,
  WF (kvec k) (kdeg k) -> kvalid1 k u = true ->
  valid_second (kdeg k) j = Ok jn ->
  (- Z.of_nat (knpts k) <= z < Z.of_nat (knpts k))%Z ->
  exists v, func_eval k None (IInt z) j u = Ok [v] /\
    v == Nspec (kvec k) (kdeg k) jn
           (Z.to_nat (if (z <? 0)%Z then (z + Z.of_nat (knpts k))%Z else z)) u.
Proof. exact EvalProofs.C02_value. Qed.
Print Assumptions C02_value.

Theorem C02_value_rational : forall k Wt u j jn z,
  WF (kvec k) (kdeg k) -> kvalid1 k u = true ->
  length Wt = knpts k -> Forall (fun w => 0 < w) Wt ->
  valid_second (kdeg k) j = Ok jn ->
  (- Z.of_nat (knpts k) <= z < Z.of_nat (knpts k))%Z ->
  exists v, func_eval k (Some Wt) (IInt z) j u = Ok [v] /\
    v == Rspec (kvec k) (kdeg k) Wt jn
           (Z.to_nat (if (z <? 0)%Z then (z + Z.of_nat (knpts k))%Z else z)) u.
Proof. exact EvalProofs.C02_value_rational. Qed.
Print Assumptions C02_value_rational.

(* the whole row of the table the objects index into *)
Theorem C02_row : forall k j u,
  WF (kvec k) (kdeg k) -> (j <= kdeg k)%nat -> kvalid1 k u = true ->
  exists r, basis_row k j u = Ok r /\ length r = knpts k /\
    forall i, (i < knpts k)%nat -> nth i r 0 == Nspec (kvec k) (kdeg k) j i u.
Proof. exact EvalProofs.basis_row_spec. Qed.
Print Assumptions C02_row.

(* properties of the Cox-de Boor functions themselves (the specification) *)
Theorem C02_nonneg : forall U p, WF U p -> forall u, in_range U p u = true ->
  forall j i, 0 <= Nspec U p j i u.
Proof. exact EvalProofs.Nspec_nonneg. Qed.
Print Assumptions C02_nonneg.

Theorem C02_unity : forall U p, WF U p -> forall u, in_range U p u = true ->
  qsum (map (fun i => Nspec U p p i u) (seq 0 (npts_of U p))) == 1.
Proof. exact EvalProofs.Nspec_unity. Qed.
Print Assumptions C02_unity.

Theorem C02_unity_every_degree : forall U p, WF U p -> forall u, in_range U p u = true ->
  forall j, (j <= p)%nat ->
  qsum (map (fun i => Nspec U p j i u) (seq 0 (npts_of U p))) == 1.
Proof. exact EvalProofs.Nspec_unity_deg. Qed.
Print Assumptions C02_unity_every_degree.

Theorem C02_support : forall U p, WF U p -> forall u, in_range U p u = true ->
  forall j i, ~ (nthq U i <= u <= nthq U (i + j + 1)) -> Nspec U p j i u == 0.
Proof. exact EvalProofs.Nspec_support. Qed.
Print Assumptions C02_support.

Theorem C02_le_1 : forall U p, WF U p -> forall u, in_range U p u = true ->
  forall j i, (j <= p)%nat -> (i < npts_of U p)%nat -> Nspec U p j i u <= 1.
Proof. exact EvalProofs.Nspec_le_1. Qed.
Print Assumptions C02_le_1.

(* values returned by the model *)
Theorem C02_row_unity : forall k j u r,
  WF (kvec k) (kdeg k) -> (j <= kdeg k)%nat -> kvalid1 k u = true ->
  basis_row k j u = Ok r -> qsum r == 1.
Proof. exact EvalProofs.C02_row_unity. Qed.
Print Assumptions C02_row_unity.

Theorem C02_row_bounds : forall k j u r i,
  WF (kvec k) (kdeg k) -> (j <= kdeg k)%nat -> kvalid1 k u = true ->
  basis_row k j u = Ok r -> (i < knpts k)%nat -> 0 <= nth i r 0 <= 1.
Proof. exact EvalProofs.C02_row_bounds. Qed.
Print Assumptions C02_row_bounds.

(* rejections *)
Theorem C02_bad_index : forall k Wo u j z,
  ~ (- Z.of_nat (knpts k) <= z < Z.of_nat (knpts k))%Z ->
  func_eval k Wo (IInt z) j u = Err IndexError.
Proof. exact EvalProofs.C02_bad_index. Qed.
Print Assumptions C02_bad_index.

Theorem C02_bad_degree : forall k Wo i u j,
  ~ (0 <= j <= Z.of_nat (kdeg k))%Z -> valid_first (knpts k) i = Ok tt ->
  func_eval k Wo i j u = Err IndexError.
Proof. exact EvalProofs.C02_bad_degree. Qed.
Print Assumptions C02_bad_degree.

Theorem C02_outside : forall k Wo i u j jn,
  valid_first (knpts k) i = Ok tt -> valid_second (kdeg k) j = Ok jn ->
  kvalid1 k u = false -> func_eval k Wo i j u = Err ValueError.
Proof. exact EvalProofs.C02_outside. Qed.
Print Assumptions C02_outside.

Example C02_nonvacuous :
  WF (kvec ex_kv) (kdeg ex_kv) /\ kvalid1 ex_kv (1#3) = true /\ valid_second (kdeg ex_kv) 1 = Ok 1%nat.
Proof. destruct ex_hyps as (W & Hv & _ & _ & _ & _ & _ & _ & Hs). repeat split; assumption. Qed.

From NurbsV Require Import Spec.BSpline Proofs.Local Proofs.LinIndep Proofs.LinIndepCurves.
From NurbsV Require Proofs.UnionProofs.
(* ---- linear independence of the B-spline basis (Proofs/LinIndep.v): a spline that vanishes on a non-empty span has zero
   coefficients there (induction on the degree through the derivative formula, the Taylor remainder bound and the partition
   of unity); hence coefficients over a well-formed vector are determined by the function. ---- *)
Theorem C02_local_linear_independence :
  forall U : nat -> Q,
       mono U ->
       forall s : nat,
       U s < U (S s) ->
       forall p : nat,
       (p <= s)%nat ->
       forall (n : nat) (c : nat -> Q),
       (s < n)%nat ->
       (forall u : Q,
        U s <= u -> u < U (S s) -> qsum (map (fun i : nat => Nloc U s p i u * c i) (seq 0 n)) == 0) ->
       forall i : nat, (s - p <= i)%nat -> (i <= s)%nat -> c i == 0.
Proof. exact local_lin_indep. Qed.
Print Assumptions C02_local_linear_independence.

Theorem C02_linear_independence :
  forall (U : list Q) (p : nat) (P P' : list Q),
       WF U p ->
       length P = npts_of U p ->
       length P' = npts_of U p ->
       (forall u : Q, in_range U p u = true -> curve_spec1 U p P u == curve_spec1 U p P' u) ->
       Forall2 Qeq P P'.
Proof. exact lin_indep_list. Qed.
Print Assumptions C02_linear_independence.

Theorem C02_linear_independence_points :
  forall (U : list Q) (p d : nat) (P P' : list (list Q)),
       WF U p ->
       length P = npts_of U p ->
       length P' = npts_of U p ->
       Forall (fun x : list Q => length x = d) P ->
       Forall (fun x : list Q => length x = d) P' ->
       (forall u : Q,
        in_range U p u = true ->
        u < umax_of U p -> Forall2 Qeq (curve_spec U p d P u) (curve_spec U p d P' u)) ->
       Forall2 (Forall2 Qeq) P P'.
Proof. exact lin_indep_points_strong. Qed.
Print Assumptions C02_linear_independence_points.
