(* PROPERTY C10: for every n the closed/open Newton-Cotes rules returned by the library integrate every polynomial
   of degree < n over [0,1] exactly, with nodes in [0,1] in increasing order and weights summing to 1; the answer
   does not depend on which rules or sizes were requested earlier (memo tables). Consequently spline integrals
   with the default rule are exact.
   Statements only; proofs in Proofs/QuadProofs.v (for EVERY n - no bound; on top of the certified inverse). *)
From Coq Require Import QArith List Bool Arith.
From NurbsV Require Import Base.Res Base.QList Gen.Consts Model.Ops Model.Linalg Model.Quadrature.
From NurbsV Require Import Proofs.MatProofs Proofs.QuadProofs.
Import ListNotations.
Open Scope Q_scope.
Theorem C10_exact_on_bernstein_basis :
  forall nodes w : list Q,
       bezier_integrator_array nodes = Ok w ->
       let n := length nodes in
       let p := (n - 1)%nat in
       length w = n /\
       (forall j : nat,
        (j <= p)%nat -> sumn n (fun k : nat => nth k w 0 * Bern p j (nth k nodes 0)) == 1 / natQ n).
Proof. exact weights_exact_bernstein. Qed.
Print Assumptions C10_exact_on_bernstein_basis.

Theorem C10_weights_sum_to_one :
  forall nodes w : list Q,
       bezier_integrator_array nodes = Ok w -> sumn (length nodes) (fun k : nat => nth k w 0) == 1.
Proof. exact weights_sum_one. Qed.
Print Assumptions C10_weights_sum_to_one.

Theorem C10_exact_on_monomials :
  forall nodes w : list Q,
       bezier_integrator_array nodes = Ok w ->
       forall m : nat,
       (m <= length nodes - 1)%nat ->
       sumn (length nodes) (fun k : nat => nth k w 0 * qpow (nth k nodes 0) m) == 1 / natQ (m + 1).
Proof. exact weights_exact_monomials. Qed.
Print Assumptions C10_exact_on_monomials.

Theorem C10_closed_nodes :
  forall (n : nat) (x : list Q),
       closed_linspace n = Ok x ->
       (1 < n)%nat /\
       length x = n /\
       nth 0 x 0 == 0 /\
       nth (n - 1) x 0 == 1 /\
       (forall i j : nat, (i < j)%nat -> (j < n)%nat -> nth i x 0 < nth j x 0) /\
       (forall k : nat, (k < n)%nat -> 0 <= nth k x 0 <= 1).
Proof. exact closed_linspace_nodes. Qed.
Print Assumptions C10_closed_nodes.

Theorem C10_open_nodes :
  forall (n : nat) (x : list Q),
       open_linspace n = Ok x ->
       (0 < n)%nat /\
       length x = n /\
       (forall i j : nat, (i < j)%nat -> (j < n)%nat -> nth i x 0 < nth j x 0) /\
       (forall k : nat, (k < n)%nat -> 0 < nth k x 0 < 1).
Proof. exact open_linspace_nodes. Qed.
Print Assumptions C10_open_nodes.

Theorem C10_closed_rule_exact :
  forall (n : nat) (w : list Q),
       compute_closed n = Ok w -> exists x : list Q, closed_linspace n = Ok x /\ exact_rule n x w.
Proof. exact compute_closed_exact. Qed.
Print Assumptions C10_closed_rule_exact.

Theorem C10_open_rule_exact :
  forall (n : nat) (w : list Q),
       compute_open n = Ok w -> exists x : list Q, open_linspace n = Ok x /\ exact_rule n x w.
Proof. exact compute_open_exact. Qed.
Print Assumptions C10_open_rule_exact.

Theorem C10_source_table_closed :
  forallb
         (fun e : nat * list Q =>
          match compute_closed (fst e) with
          | Ok w => ql_eqb w (snd e)
          | Err _ => false
          end) tbl_closed_newton = true.
Proof. exact closed_table_correct'. Qed.
Print Assumptions C10_source_table_closed.

Theorem C10_source_table_open :
  forallb
         (fun e : nat * list Q =>
          match compute_open (fst e) with
          | Ok w => ql_eqb w (snd e)
          | Err _ => false
          end) tbl_open_newton = true.
Proof. exact open_table_correct'. Qed.
Print Assumptions C10_source_table_open.

Theorem C10_history_independent :
  forall (calls : list (bool * nat)) (c : bool * nat),
       fst (request c (run calls qinit)) = fst (request c qinit).
Proof. exact history_independent. Qed.
Print Assumptions C10_history_independent.

Theorem C10_session_answers :
  forall calls : list (bool * nat), run_answers calls qinit = map fresh_answer calls.
Proof. exact session_answers. Qed.
Print Assumptions C10_session_answers.

Theorem C10_any_state_closed_exact :
  forall (calls : list (bool * nat)) (n : nat) (w : list Q),
       fst (get_closed n (run calls qinit)) = Ok w ->
       exists x : list Q, closed_linspace n = Ok x /\ exact_rule n x w.
Proof. exact closed_newton_cotes_exact. Qed.
Print Assumptions C10_any_state_closed_exact.

Theorem C10_any_state_open_exact :
  forall (calls : list (bool * nat)) (n : nat) (w : list Q),
       fst (get_open n (run calls qinit)) = Ok w ->
       exists x : list Q, open_linspace n = Ok x /\ exact_rule n x w.
Proof. exact open_newton_cotes_exact. Qed.
Print Assumptions C10_any_state_open_exact.

Example C10_nonvacuous : compute_closed 5 = Ok [7#90; 16#45; 2#15; 16#45; 7#90].
Proof. exact ex_boole. Qed.

From NurbsV Require Import Spec.BSpline Proofs.Local Proofs.IntegralProofs.
From NurbsV Require Proofs.MatProofs.
(* ---- the rule IS the integral (Proofs/IntegralProofs.v): polynomials as coefficient lists, the exact integral `pint` through the
   antiderivative (fundamental theorem, additivity over intervals), affine substitution by the chain rule; a rule exact on the
   monomials below n integrates every polynomial with at most n coefficients exactly over every interval [a, b]. ---- *)
Theorem C10_rule_is_the_integral :
  forall (n : nat) (x w f : list Q) (a b : Q),
       exact_monomials n x w ->
       (length f <= n)%nat ->
       (b - a) * MatProofs.sumn n (fun k : nat => nth k w 0 * peval f (a + (b - a) * nth k x 0)) ==
       pint a b f.
Proof. exact quad_exact. Qed.
Print Assumptions C10_rule_is_the_integral.

Theorem C10_polynomial_integral_fundamental :
  forall (a b : Q) (f : poly), pint a b f == peval (pprim f) b - peval (pprim f) a.
Proof. exact pint_pprim. Qed.
Print Assumptions C10_polynomial_integral_fundamental.

Theorem C10_integral_additive :
  forall (a b c : Q) (f : poly), pint a b f + pint b c f == pint a c f.
Proof. exact pint_chasles. Qed.
Print Assumptions C10_integral_additive.
