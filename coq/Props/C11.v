(* PROPERTY C11: S.fit_curve(C) sets the control points so that the residual C - D is L2-orthogonal to every
   basis function of S (D = C when C lies in S); the returned error is non-negative and equals 1 (or 1/2 with
   interpolation nodes) times the integral of the squared residual; with nodes, D(z) = C(z) at each node and
   the residual is orthogonal to every element of S vanishing at the nodes.
   Statements only; proofs in Proofs/MatProofs.v (and Proofs/LSProofs.v). *)
From Coq Require Import QArith List Bool Arith.
From NurbsV Require Import Base.Res Base.QList Spec.KnotSpec Gen.Consts Model.KV Model.Basis Model.CurveM Model.Ops
  Model.CurveOps Model.Linalg Model.Quadrature Model.LeastSq Model.CurveLS.
From NurbsV Require Import Proofs.MatProofs Proofs.LSProofs Proofs.RemoveBasic.
Import ListNotations.
Open Scope Q_scope.
Theorem C11_inverse_certified :
  forall M M' : mat,
       invert M = Ok M' ->
       let n := length M in
       shaped n n M /\ shaped n n M' /\ meq (mmul_n n M' M) (ident n) /\ meq (mmul_n n M M') (ident n).
Proof. exact invert_sound. Qed.
Print Assumptions C11_inverse_certified.

Theorem C11_normal_equations_discrete :
  forall (n m : nat) (A Mx : mat),
       shaped n m A ->
       (m < n)%nat ->
       lstsq A = Ok Mx ->
       forall b : list Q,
       length b = n -> veq (mvec (mtrans_n m A) (mvec A (mvec Mx b))) (mvec (mtrans_n m A) b).
Proof. exact lstsq_normal_equations. Qed.
Print Assumptions C11_normal_equations_discrete.

Theorem C11_orthogonal_discrete :
  forall (n m : nat) (A Mx : mat),
       shaped n m A ->
       (m < n)%nat ->
       lstsq A = Ok Mx ->
       forall b : list Q,
       length b = n -> veq (mvec (mtrans_n m A) (vsub (mvec A (mvec Mx b)) b)) (repeat 0 m).
Proof. exact lstsq_orthogonal. Qed.
Print Assumptions C11_orthogonal_discrete.

Theorem C11_minimal_discrete :
  forall (n m : nat) (A Mx : mat),
       shaped n m A ->
       (m < n)%nat ->
       lstsq A = Ok Mx ->
       forall b y : list Q,
       length b = n -> length y = m -> norm2 (vsub (mvec A (mvec Mx b)) b) <= norm2 (vsub (mvec A y) b).
Proof. exact lstsq_minimal. Qed.
Print Assumptions C11_minimal_discrete.

(* ---- the model's continuous projection (Proofs/LSProofs.v): <.,.> below is the model's composite quadrature
   inner product (Gram matrices FF, GF, GG over the quadrature nodes `quad_nodes`), which the per-case oracle of the
   check shows to be the exact L2 product of the polynomial pieces for the generated inputs. ---- *)
Theorem C11_normal_equations :
  forall (kold knew : kv) (T E : mat) (g : grams),
       spline2spline kold knew None = Ok (T, E) ->
       grams_of kold knew = Ok g -> meq (mmul_n (knpts kold) (gGG g) T) (gGF g).
Proof. exact spline2spline_normal_equations. Qed.
Print Assumptions C11_normal_equations.

Theorem C11_error_is_squared_residual :
  forall (kold knew : kv) (T E : mat) (g : grams),
       spline2spline kold knew None = Ok (T, E) ->
       grams_of kold knew = Ok g ->
       forall x : list Q,
       (0 < knpts knew)%nat ->
       length x = knpts kold ->
       dot x (mvec E x) == dot x (mvec (gFF g) x) - dot (mvec T x) (mvec (gGG g) (mvec T x)).
Proof. exact spline2spline_error_pythagoras. Qed.
Print Assumptions C11_error_is_squared_residual.

Theorem C11_reproduces_in_space :
  forall (kold knew : kv) (T E : mat) (g : grams),
       spline2spline kold knew None = Ok (T, E) ->
       grams_of kold knew = Ok g ->
       forall a b : list Q,
       length a = knpts kold ->
       length b = knpts knew ->
       (forall (u : Q) (f gk : list Q),
        In u (quad_nodes kold knew) ->
        basis_row kold (kdeg kold) u = Ok f -> basis_row knew (kdeg knew) u = Ok gk -> dot f a == dot gk b) ->
       veq (mvec T a) b.
Proof. exact spline2spline_reproduces. Qed.
Print Assumptions C11_reproduces_in_space.

Theorem C11_refinement_gives_transpose :
  forall (kold knew : kv) (T E : mat) (g : grams),
       spline2spline kold knew None = Ok (T, E) ->
       grams_of kold knew = Ok g ->
       forall R : mat,
       shaped (knpts kold) (knpts knew) R ->
       (forall (u : Q) (f gk : list Q),
        In u (quad_nodes kold knew) ->
        basis_row kold (kdeg kold) u = Ok f -> basis_row knew (kdeg knew) u = Ok gk -> veq f (mvec R gk)) ->
       meq T (mtrans_n (knpts knew) R).
Proof. exact spline2spline_refinement. Qed.
Print Assumptions C11_refinement_gives_transpose.

Theorem C11_projection_is_left_inverse :
  forall (kold knew : kv) (T E : mat) (g : grams),
       spline2spline kold knew None = Ok (T, E) ->
       grams_of kold knew = Ok g ->
       forall S : mat,
       shaped (knpts knew) (knpts kold) S ->
       (forall (u : Q) (f gk : list Q),
        In u (quad_nodes kold knew) ->
        basis_row kold (kdeg kold) u = Ok f -> basis_row knew (kdeg knew) u = Ok gk -> veq gk (mvec S f)) ->
       meq (mmul_n (knpts knew) T (mtrans_n (knpts kold) S)) (ident (knpts knew)).
Proof. exact spline2spline_left_inverse. Qed.
Print Assumptions C11_projection_is_left_inverse.

Theorem C11_interpolates_at_nodes :
  forall (kold knew : kv) (ns : list Q) (T E : mat) (g : grams) (F G : mat),
       spline2spline kold knew (Some ns) = Ok (T, E) ->
       grams_of kold knew = Ok g ->
       mapM (basis_row kold (kdeg kold)) ns = Ok F ->
       mapM (basis_row knew (kdeg knew)) ns = Ok G -> meq (mmul_n (knpts kold) G T) F.
Proof. exact spline2spline_interpolates. Qed.
Print Assumptions C11_interpolates_at_nodes.

Theorem C11_constrained_multiplier :
  forall (kold knew : kv) (ns : list Q) (T E : mat) (g : grams) (F G : mat),
       spline2spline kold knew (Some ns) = Ok (T, E) ->
       grams_of kold knew = Ok g ->
       mapM (basis_row kold (kdeg kold)) ns = Ok F ->
       mapM (basis_row knew (kdeg knew)) ns = Ok G ->
       (0 < length ns)%nat ->
       exists Lambda : mat,
         shaped (length ns) (knpts kold) Lambda /\
         meq (msub (mmul_n (knpts kold) (gGG g) T) (gGF g))
           (mmul_n (knpts kold) (mtrans_n (knpts knew) G) Lambda).
Proof. exact spline2spline_multiplier. Qed.
Print Assumptions C11_constrained_multiplier.

Theorem C11_constrained_orthogonal :
  forall (kold knew : kv) (ns : list Q) (T E : mat) (g : grams) (F G : mat),
       spline2spline kold knew (Some ns) = Ok (T, E) ->
       grams_of kold knew = Ok g ->
       mapM (basis_row kold (kdeg kold)) ns = Ok F ->
       mapM (basis_row knew (kdeg knew)) ns = Ok G ->
       forall v z : list Q,
       (0 < length ns)%nat ->
       length v = knpts kold ->
       length z = knpts knew ->
       veq (mvec G z) (repeat 0 (length ns)) -> dot z (vsub (mvec (gGG g) (mvec T v)) (mvec (gGF g) v)) == 0.
Proof. exact spline2spline_constrained_orthogonal. Qed.
Print Assumptions C11_constrained_orthogonal.

Theorem C11_constrained_error :
  forall (kold knew : kv) (ns : list Q) (T E : mat) (g : grams) (F G : mat),
       spline2spline kold knew (Some ns) = Ok (T, E) ->
       grams_of kold knew = Ok g ->
       mapM (basis_row kold (kdeg kold)) ns = Ok F ->
       mapM (basis_row knew (kdeg knew)) ns = Ok G ->
       forall x : list Q,
       (0 < length ns)%nat ->
       length x = knpts kold ->
       dot x (mvec E x) ==
       (1 # 2) *
       (dot x (mvec (gFF g) x) - 2 * dot (mvec T x) (mvec (gGF g) x) +
        dot (mvec T x) (mvec (gGG g) (mvec T x))).
Proof. exact spline2spline_constrained_error. Qed.
Print Assumptions C11_constrained_error.

Theorem C11_too_many_nodes_refused :
  forall (kold knew : kv) (ns : list Q),
       (knpts knew < length ns)%nat -> spline2spline kold knew (Some ns) = Err NotImplementedError.
Proof. exact spline2spline_refuses. Qed.
Print Assumptions C11_too_many_nodes_refused.

Theorem C11_gram_symmetric :
  forall (kold knew : kv) (g : grams),
       grams_of kold knew = Ok g ->
       forall x y : list Q,
       length x = knpts knew -> length y = knpts knew -> dot x (mvec (gGG g) y) == dot y (mvec (gGG g) x).
Proof. exact grams_of_GG_symmetric. Qed.
Print Assumptions C11_gram_symmetric.


(* non-vacuity: projecting a degree-2 curve with an interior knot onto the Bezier space of degree 2 *)
Example C11_nonvacuous :
  match c_fit_curve (mkkv [0; 0; 0; 1; 1; 1] 2)
          (mkcurve (mkkv [0; 0; 0; 1#2; 1; 1; 1] 2) (Some [[1]; [3#2]; [-1#2]; [-3]]) None) None with
  | Ok (P', err) => ptl_eqb P' [[1]; [2]; [-3]] && Qeqb err 0
  | Err _ => false
  end = true.
Proof. vm_compute. reflexivity. Qed.

From NurbsV Require Import Spec.BSpline Proofs.Local Proofs.IntegralProofs.
From NurbsV Require Proofs.MatProofs.
(* ---- the model's inner product IS the L2 product (Proofs/IntegralProofs.v): on a span a B-spline is the polynomial NlocP; with
   p + q + 3 open Newton-Cotes nodes per cell the accumulated Gram entries equal the sum over the cells of the common partition of
   the exact integrals of the products - always for GF, and for FF / GG when the degrees differ by at most 2 (beyond that the
   rule is too short: known finding K7).  `knots_exact` excludes distinct knots closer than the library's 1e-6 identity
   tolerance (K2), for which a cell can hide a knot. ---- *)
Theorem C11_basis_is_polynomial_on_span :
  forall (U : nat -> Q) (s j i : nat) (u : Q), peval (NlocP U s j i) u == Nloc U s j i u.
Proof. exact NlocP_eval. Qed.
Print Assumptions C11_basis_is_polynomial_on_span.

Theorem C11_span_gram_is_exact_integral :
  forall (U V : nat -> Q) (s s' p q i j n : nat) (x w : list Q) (a b : Q),
       compute_open n = Ok w ->
       open_linspace n = Ok x ->
       (p + q + 1 <= n)%nat ->
       (b - a) *
       MatProofs.sumn n
         (fun k : nat =>
          nth k w 0 * Nloc U s p i (a + (b - a) * nth k x 0) * Nloc V s' q j (a + (b - a) * nth k x 0)) ==
       pint a b (pmul (NlocP U s p i) (NlocP V s' q j)).
Proof. exact gram_span_exact_open. Qed.
Print Assumptions C11_span_gram_is_exact_integral.

Theorem C11_gram_matrices_are_L2_products :
  forall (kold knew : kv) (g : grams),
       WF (kvec kold) (kdeg kold) ->
       WF (kvec knew) (kdeg knew) ->
       knots_exact kold ->
       knots_exact knew ->
       kumin kold == kumin knew ->
       kumax kold == kumax knew ->
       grams_of kold knew = Ok g ->
       let PF :=
         fun (se : Q * Q) (j : nat) => NlocP (nthq (kvec kold)) (span_at (kvec kold) (fst se)) (kdeg kold) j
         in
       let PG :=
         fun (se : Q * Q) (i : nat) => NlocP (nthq (kvec knew)) (span_at (kvec knew) (fst se)) (kdeg knew) i
         in
       (forall i j : nat,
        (i < knpts knew)%nat ->
        (j < knpts kold)%nat ->
        entry (gGF g) i j ==
        qsum (map (fun se : Q * Q => pint (fst se) (snd se) (pmul (PG se i) (PF se j))) (ls_cells kold knew))) /\
       ((kdeg kold <= kdeg knew + 2)%nat ->
        forall i j : nat,
        (i < knpts kold)%nat ->
        (j < knpts kold)%nat ->
        entry (gFF g) i j ==
        qsum (map (fun se : Q * Q => pint (fst se) (snd se) (pmul (PF se i) (PF se j))) (ls_cells kold knew))) /\
       ((kdeg knew <= kdeg kold + 2)%nat ->
        forall i j : nat,
        (i < knpts knew)%nat ->
        (j < knpts knew)%nat ->
        entry (gGG g) i j ==
        qsum (map (fun se : Q * Q => pint (fst se) (snd se) (pmul (PG se i) (PG se j))) (ls_cells kold knew))).
Proof. exact grams_of_L2. Qed.
Print Assumptions C11_gram_matrices_are_L2_products.

Theorem C11_cells_tile_interval :
  forall (f : poly) (l : list Q) (a : Q),
       qsum (map (fun se : Q * Q => pint (fst se) (snd se) f) (pairs (a :: l))) == pint a (last (a :: l) 0) f.
Proof. exact pairs_telescope. Qed.
Print Assumptions C11_cells_tile_interval.

From NurbsV Require Import Proofs.SmallClosures.
From NurbsV Require Proofs.UnionProofs Proofs.BezierProofs.
(* ---- the same under the separation hypothesis alone (Proofs/SmallClosures.v): knots at least 1e-6 apart are exact knots ---- *)
Theorem C11_gram_matrices_are_L2_products_separated :
  forall (kold knew : kv) (g : grams),
       WF (kvec kold) (kdeg kold) ->
       WF (kvec knew) (kdeg knew) ->
       UnionProofs.separated (kvec kold) ->
       UnionProofs.separated (kvec knew) ->
       kumin kold == kumin knew ->
       kumax kold == kumax knew ->
       grams_of kold knew = Ok g ->
       let PF :=
         fun (se : Q * Q) (j : nat) => NlocP (nthq (kvec kold)) (span_at (kvec kold) (fst se)) (kdeg kold) j
         in
       let PG :=
         fun (se : Q * Q) (i : nat) => NlocP (nthq (kvec knew)) (span_at (kvec knew) (fst se)) (kdeg knew) i
         in
       (forall i j : nat,
        (i < knpts knew)%nat ->
        (j < knpts kold)%nat ->
        entry (gGF g) i j ==
        qsum (map (fun se : Q * Q => pint (fst se) (snd se) (pmul (PG se i) (PF se j))) (ls_cells kold knew))) /\
       ((kdeg kold <= kdeg knew + 2)%nat ->
        forall i j : nat,
        (i < knpts kold)%nat ->
        (j < knpts kold)%nat ->
        entry (gFF g) i j ==
        qsum (map (fun se : Q * Q => pint (fst se) (snd se) (pmul (PF se i) (PF se j))) (ls_cells kold knew))) /\
       ((kdeg knew <= kdeg kold + 2)%nat ->
        forall i j : nat,
        (i < knpts knew)%nat ->
        (j < knpts knew)%nat ->
        entry (gGG g) i j ==
        qsum (map (fun se : Q * Q => pint (fst se) (snd se) (pmul (PG se i) (PG se j))) (ls_cells kold knew))).
Proof. exact grams_of_L2_separated. Qed.
Print Assumptions C11_gram_matrices_are_L2_products_separated.
