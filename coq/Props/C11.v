(* PROPERTY C11: S.fit_curve(C) sets the control points so that the residual C - D is L2-orthogonal to every
   basis function of S (D = C when C lies in S); the returned error is non-negative and equals 1 (or 1/2 with
   interpolation nodes) times the integral of the squared residual; with nodes, D(z) = C(z) at each node and
   the residual is orthogonal to every element of S vanishing at the nodes.
   Statements only; proofs in Proofs/MatProofs.v (and Proofs/LSProofs.v). *)
From Coq Require Import QArith List Bool Arith.
From NurbsV Require Import Base.Res Base.QList Spec.KnotSpec Gen.Consts Model.KV Model.Basis Model.CurveM Model.Ops
  Model.CurveOps Model.Linalg Model.Quadrature Model.LeastSq Model.CurveLS.
From NurbsV Require Import Proofs.MatProofs Proofs.RemoveBasic.
Import ListNotations.
Open Scope Q_scope.
Theorem C11_inverse_certified :
  forall M M' : mat,
       invert M = Ok M' ->
       let n := length M in
       shaped n n M /\ shaped n n M' /\ meq (mmul_n n M' M) (ident n) /\ meq (mmul_n n M M') (ident n).
Proof. exact invert_sound. Qed.
Print Assumptions C11_inverse_certified.

Theorem C11_normal_equations_discrete :
  forall (n m : nat) (A Mx : mat),
       shaped n m A ->
       (m < n)%nat ->
       lstsq A = Ok Mx ->
       forall b : list Q,
       length b = n -> veq (mvec (mtrans_n m A) (mvec A (mvec Mx b))) (mvec (mtrans_n m A) b).
Proof. exact lstsq_normal_equations. Qed.
Print Assumptions C11_normal_equations_discrete.

Theorem C11_orthogonal_discrete :
  forall (n m : nat) (A Mx : mat),
       shaped n m A ->
       (m < n)%nat ->
       lstsq A = Ok Mx ->
       forall b : list Q,
       length b = n -> veq (mvec (mtrans_n m A) (vsub (mvec A (mvec Mx b)) b)) (repeat 0 m).
Proof. exact lstsq_orthogonal. Qed.
Print Assumptions C11_orthogonal_discrete.

Theorem C11_minimal_discrete :
  forall (n m : nat) (A Mx : mat),
       shaped n m A ->
       (m < n)%nat ->
       lstsq A = Ok Mx ->
       forall b y : list Q,
       length b = n -> length y = m -> norm2 (vsub (mvec A (mvec Mx b)) b) <= norm2 (vsub (mvec A y) b).
Proof. exact lstsq_minimal. Qed.
Print Assumptions C11_minimal_discrete.

(* non-vacuity: projecting a degree-2 curve with an interior knot onto the Bezier space of degree 2 *)
Example C11_nonvacuous :
  match c_fit_curve (mkkv [0; 0; 0; 1; 1; 1] 2)
          (mkcurve (mkkv [0; 0; 0; 1#2; 1; 1; 1] 2) (Some [[1]; [3#2]; [-1#2]; [-3]]) None) None with
  | Ok (P', err) => ptl_eqb P' [[1]; [2]; [-3]] && Qeqb err 0
  | Err _ => false
  end = true.
Proof. vm_compute. reflexivity. Qed.
