(* PROPERTY C03: every KnotVector obtainable through the public API is non-decreasing, has its
   first and last value repeated exactly degree+1 times, interior multiplicities at most
   degree+1, length degree+npts+1 with npts > degree, and its span/mult/valid answers agree
   with the element list; a request that would leave this set is rejected with an exception
   and leaves the object unchanged.
   Statements only; the proofs live in Proofs/KVProofs.v and Proofs/KVMachine.v. *)
From Coq Require Import QArith Qabs List Bool Arith.
From NurbsV Require Import Base.Res Base.QList Spec.KnotSpec Gen.Consts Model.KV Model.KVFacade.
From NurbsV Require Import Proofs.KVProofs Proofs.KVMachine.
Import ListNotations.
Open Scope Q_scope.

(* ---- 1. constructor ---- *)

Theorem C03_valid_wf : forall v deg k, make v deg = Ok k -> WF (kvec k) (kdeg k).
Proof. exact make_wf. Qed.
Print Assumptions C03_valid_wf.

Theorem C03_raw_rejects_nonnumeric : forall v deg,
  all_some v = None -> make_raw v deg = Err ValueError.
Proof. exact make_raw_nonnumeric. Qed.
Print Assumptions C03_raw_rejects_nonnumeric.

(* ---- 2. one step preserves the invariant ---- *)

Theorem C03_step_wf : forall k o,
  WF (kvec k) (kdeg k) -> WF (kvec (fst (kstep k o))) (kdeg (fst (kstep k o))).
Proof. exact step_wf. Qed.
Print Assumptions C03_step_wf.

(* ---- 3. all histories ---- *)

Theorem C03_reachable : forall ops k,
  WF (kvec k) (kdeg k) ->
  WF (kvec (fold_left (fun s o => fst (kstep s o)) ops k))
     (kdeg (fold_left (fun s o => fst (kstep s o)) ops k)).
Proof. exact reachable_wf. Qed.
Print Assumptions C03_reachable.

Theorem C03_reachable_from_make : forall v deg k ops,
  make v deg = Ok k ->
  WF (kvec (fold_left (fun s o => fst (kstep s o)) ops k))
     (kdeg (fold_left (fun s o => fst (kstep s o)) ops k)).
Proof. exact reachable_from_make. Qed.
Print Assumptions C03_reachable_from_make.

(* ---- 4. atomicity ---- *)

Theorem C03_atomic : forall k o e, snd (kstep k o) = Err e -> fst (kstep k o) = k.
Proof. exact step_atomic. Qed.
Print Assumptions C03_atomic.

Theorem C03_pure : forall k o, is_pure o = true -> fst (kstep k o) = k.
Proof. exact step_pure. Qed.
Print Assumptions C03_pure.

(* ---- 5. returned vectors ---- *)

Theorem C03_returned_wf : forall k o vs,
  WF (kvec k) (kdeg k) -> snd (kstep k o) = Ok vs ->
  Forall (fun vd : list Q * nat => WF (fst vd) (snd vd)) vs.
Proof. exact returned_wf. Qed.
Print Assumptions C03_returned_wf.

(* ---- 6. queries ---- *)

Theorem C03_span_sound : forall k u s,
  kspan k u = Ok s -> span_ok (kvec k) (kdeg k) u s = true.
Proof. exact kspan_sound. Qed.
Print Assumptions C03_span_sound.

Theorem C03_span_total : forall k u,
  WF (kvec k) (kdeg k) -> kvalid1 k u = true -> exists s, kspan k u = Ok s.
Proof. exact kspan_complete. Qed.
Print Assumptions C03_span_total.

Theorem C03_span_unique : forall k u s t,
  WF (kvec k) (kdeg k) ->
  nthq (kvec k) s <= u < nthq (kvec k) (S s) ->
  nthq (kvec k) t <= u < nthq (kvec k) (S t) -> s = t.
Proof. exact kspan_unique_wf. Qed.
Print Assumptions C03_span_unique.

Theorem C03_span_outside : forall k u, kvalid1 k u = false -> kspan k u = Err ValueError.
Proof. exact kspan_outside. Qed.
Print Assumptions C03_span_outside.

Theorem C03_valid_iff : forall k u,
  kvalid1 k u = true <->
  (umin_of (kvec k) (kdeg k) <= u /\ u <= umax_of (kvec k) (kdeg k)).
Proof. exact valid_iff. Qed.
Print Assumptions C03_valid_iff.

Theorem C03_mult_outside : forall k u, kvalid1 k u = false -> kmult k u = Err ValueError.
Proof. exact mult_outside. Qed.
Print Assumptions C03_mult_outside.

Theorem C03_mult_ge : forall v u, (count_q u v <= kmult_raw v u)%nat.
Proof. exact mult_ge. Qed.
Print Assumptions C03_mult_ge.

Theorem C03_mult_partial : forall v u,
  (forall x, In x v -> x == u \/ tol_mult <= Qabs (u - x)) ->
  kmult_raw v u = count_q u v.
Proof. exact mult_partial. Qed.
Print Assumptions C03_mult_partial.

(* known finding: knot identity is tolerance based *)
Theorem C03_mult_refuted : exists v u, WF v 0 /\ kmult_raw v u <> count_q u v.
Proof. exact mult_refuted. Qed.
Print Assumptions C03_mult_refuted.

(* ---- 7. rejections ---- *)

Theorem C03_rejects_unsorted : forall v deg,
  sorted_b v = false -> make v deg = Err ValueError.
Proof. exact rejects_unsorted. Qed.
Print Assumptions C03_rejects_unsorted.

Theorem C03_rejects_short : forall v deg,
  (length v < 2)%nat -> make v deg = Err ValueError.
Proof. exact rejects_short. Qed.
Print Assumptions C03_rejects_short.

Theorem C03_insert_outside : forall k nodes,
  kvalid k nodes = false -> kinsert k nodes = Err ValueError.
Proof. exact insert_outside. Qed.
Print Assumptions C03_insert_outside.

Theorem C03_remove_absent : forall k nodes,
  remove_all nodes (kvec k) = None -> kremove k nodes = Err ValueError.
Proof. exact remove_absent. Qed.
Print Assumptions C03_remove_absent.

Theorem C03_scale_nonpositive : forall k s, s <= 0 -> kscale k s = Err AssertionError.
Proof. exact scale_nonpositive. Qed.
Print Assumptions C03_scale_nonpositive.

Theorem C03_divide_zero : forall k s,
  s == 0 -> kstep k (ODivide s) = (k, Err ZeroDivisionError).
Proof. exact divide_zero. Qed.
Print Assumptions C03_divide_zero.

Theorem C03_insert_remove_error_class : forall k ns e,
  (snd (kstep k (OInsert ns)) = Err e \/ snd (kstep k (ORemove ns)) = Err e) ->
  e = ValueError.
Proof. exact insert_remove_error_class. Qed.
Print Assumptions C03_insert_remove_error_class.

Theorem C03_excess_multiplicity : forall v deg x,
  In x v ->
  (match deg with Some d => d | None => infer_deg v end + 1 < count_q x v)%nat ->
  make v deg = Err ValueError.
Proof. exact excess_multiplicity. Qed.
Print Assumptions C03_excess_multiplicity.

(* ---- 8. non-vacuity: the hypotheses are satisfiable on a non-trivial vector ---- *)
(* repeated interior knot, a negative and a zero knot, a non-integer knot, degree 2 *)

Example C03_ex_make :
  exists k, make [-1; -1; -1; 0; 0; 1#3; 1; 1; 1] None = Ok k /\ kdeg k = 2%nat.
Proof. eexists; split; vm_compute; reflexivity. Qed.

Example C03_ex_wf : WF [-1; -1; -1; 0; 0; 1#3; 1; 1; 1] 2.
Proof. vm_compute. reflexivity. Qed.

(* a history of four operations, the second one failing (5 is outside [-1, 1]):
   the failing step reports ValueError and leaves the state as it was *)
Example C03_ex_history :
  let k0 := mkkv [-1; -1; -1; 0; 0; 1#3; 1; 1; 1] 2 in
  let k1 := fst (kstep k0 (OInsert [1#2])) in
  view k1 = ([-1; -1; -1; 0; 0; 1#3; 1#2; 1; 1; 1], 2%nat)
  /\ kstep k1 (OInsert [5]) = (k1, Err ValueError)
  /\ view (fold_left (fun s o => fst (kstep s o))
             [OInsert [1#2]; OInsert [5]; ORemove [0]; OShift 1] k0)
     = ([0; 0; 0; 1; 4#3; 3#2; 2; 2; 2], 2%nat).
Proof. vm_compute. repeat split. Qed.

(* returned vectors: a split at the double knot gives two clamped vectors *)
Example C03_ex_split :
  snd (kstep (mkkv [-1; -1; -1; 0; 0; 1#3; 1; 1; 1] 2) (OSplit [0]))
  = Ok [([-1; -1; -1; 0; 0; 0], 2%nat); ([0; 0; 0; 1#3; 1; 1; 1], 2%nat)].
Proof. vm_compute. reflexivity. Qed.

(* queries on the example: in range, span found, outside rejected *)
Example C03_ex_queries :
  let k0 := mkkv [-1; -1; -1; 0; 0; 1#3; 1; 1; 1] 2 in
  kvalid1 k0 (1#6) = true /\ kspan k0 (1#6) = Ok 4%nat /\ kspan k0 1 = Ok 5%nat
  /\ kvalid1 k0 (-2) = false /\ kmult k0 0 = Ok 2%nat /\ kmult k0 (-2) = Err ValueError.
Proof. vm_compute. repeat split. Qed.

(* the separation hypothesis of C03_mult_partial holds at u = 0 on the example *)
Example C03_ex_separated :
  forall x, In x [-1; -1; -1; 0; 0; 1#3; 1; 1; 1] -> x == 0 \/ tol_mult <= Qabs (0 - x).
Proof.
  intros x H. cbn [In] in H.
  repeat (destruct H as [<-|H];
          [first [left; reflexivity | right; apply Qleb_le; vm_compute; reflexivity]|]).
  contradiction.
Qed.

(* the guards of the rejection theorems are reachable *)
Example C03_ex_guards :
  let k0 := mkkv [-1; -1; -1; 0; 0; 1#3; 1; 1; 1] 2 in
  let w := [-1; -1; 0; 0; 0; 0; 1; 1] in
  sorted_b [0; 1; 1#2; 1] = false
  /\ kvalid k0 [5] = false
  /\ remove_all [1#2] (kvec k0) = None
  /\ all_some [Some 0; None; Some 1] = None
  /\ In 0 w /\ (infer_deg w + 1 < count_q 0%Q w)%nat.
Proof.
  cbv zeta. repeat split; try (vm_compute; reflexivity).
  - cbn [In]. right. right. left. reflexivity.
  - vm_compute. repeat constructor.
Qed.
