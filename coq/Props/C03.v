From Coq Require Import QArith.
Example C03_placeholder : (1 + 1 == 2)%Q.
Proof. reflexivity. Qed.
