(* PROPERTY C06: curve.degree_increase(t) (and curve.degree = p+t) raises every distinct knot's multiplicity by t,
   raises the degree by t and leaves the curve unchanged as a function (Bezier, multi-span, repeated-knot and
   rational curves); degree_decrease(t) undoes it exactly whenever the curve is representable at the lower degree,
   otherwise raises ValueError leaving the curve unchanged, or with tolerance=None returns the constrained best
   approximation. Statements only; proofs in Proofs/BezierProofs.v, Proofs/RemoveBasic.v. *)
From Coq Require Import QArith List Bool Arith.
From NurbsV Require Import Base.Res Base.QList Spec.KnotSpec Spec.BSpline Gen.Consts Model.KV Model.Basis Model.CurveM Model.Ops
  Model.CurveOps Model.Linalg Model.Quadrature Model.LeastSq Model.CurveLS.
From NurbsV Require Import Proofs.MatProofs Proofs.LSProofs Proofs.BezierProofs Proofs.RemoveBasic Proofs.UndoProofs Proofs.GenericUndo.
Import ListNotations.
Open Scope Q_scope.
Theorem C06_bezier_vector_wf :
  forall (p : nat) (a b : Q), a < b -> WF (bez p a b) p.
Proof. exact bez_WF. Qed.
Print Assumptions C06_bezier_vector_wf.

Theorem C06_bezier_basis_is_bernstein :
  forall (p : nat) (a b u : Q) (i : nat),
       a < b ->
       a <= u <= b ->
       Nspec (bez p a b) p p i u == natQ (binom p i) * qpow (tpar a b u) i * qpow (1 - tpar a b u) (p - i).
Proof. exact Nspec_bez_bernstein. Qed.
Print Assumptions C06_bezier_basis_is_bernstein.

Theorem C06_bezier_elevate_once :
  forall (p : nat) (a b : Q) (P : list Q) (u : Q),
       a < b ->
       length P = (p + 1)%nat ->
       in_range (bez p a b) p u = true ->
       curve_spec1 (bez (p + 1) a b) (p + 1) (mvec (elev_matrix p) P) u == curve_spec1 (bez p a b) p P u.
Proof. exact bezier_elevate_once. Qed.
Print Assumptions C06_bezier_elevate_once.

Theorem C06_bezier_elevate_many :
  forall (p t : nat) (a b : Q) (P : list Q) (u : Q),
       a < b ->
       length P = (p + 1)%nat ->
       in_range (bez p a b) p u = true ->
       curve_spec1 (bez (p + t) a b) (p + t) (mvec (degree_increase_bezier p t) P) u ==
       curve_spec1 (bez p a b) p P u.
Proof. exact bezier_elevate_many. Qed.
Print Assumptions C06_bezier_elevate_many.

Theorem C06_bezier_elevate_many_vector_valued :
  forall (p t d : nat) (a b : Q) (P : list pt) (u : Q),
       a < b ->
       length P = (p + 1)%nat ->
       Forall (fun pt : list Q => length pt = d) P ->
       pdim P = d ->
       in_range (bez p a b) p u = true ->
       Forall2 Qeq (curve_spec (bez (p + t) a b) (p + t) d (mat_apply (degree_increase_bezier p t) P) u)
         (curve_spec (bez p a b) p d P u).
Proof. exact bezier_elevate_many_vec. Qed.
Print Assumptions C06_bezier_elevate_many_vector_valued.

Theorem C06_reduction_within_tolerance :
  forall (c : curve) (knew : kv) (t : Q) (nodes : option (list Q)) (c' : curve),
       c_update c knew (Some t) nodes = Ok c' ->
       kv_eqb knew (ckv c) = false ->
       ~ t == 0 ->
       forall P : list pt,
       cP c = Some P ->
       exists (P' : list pt) (err : Q),
         c_fit_curve knew c nodes = Ok (P', err) /\ err <= t /\ cP c' = Some P'.
Proof. exact c_update_within_tolerance. Qed.
Print Assumptions C06_reduction_within_tolerance.

(* ---- degree reduction undoes degree elevation EXACTLY on Bezier curves and is accepted under every tolerance
   (Proofs/GenericUndo.v: the projection is a left inverse of ANY matrix that preserves the curve - here the elevation
   matrix, C06_bezier_elevate_many). ---- *)
Theorem C06_reduction_undoes_elevation_bezier :
  forall (c : curve) (P : list pt) (d p : nat) (a b : Q) (t : nat) (c1 c2 : curve) (tol : option Q),
       cW c = None ->
       cP c = Some P ->
       Forall2 Qeq (kvec (ckv c)) (bez p a b) ->
       cdeg c = p ->
       a < b ->
       length P = cnpts c ->
       Forall (fun q : pt => length q = d) P ->
       c_degree_increase c t = Ok c1 ->
       c_degree_decrease c1 t tol = Ok c2 ->
       exists P2 : list pt,
         cP c2 = Some P2 /\
         Forall2 (Forall2 Qeq) P2 P /\
         cW c2 = None /\ Forall2 Qeq (kvec (ckv c2)) (kvec (ckv c)) /\ kdeg (ckv c2) = cdeg c.
Proof. exact degree_decrease_undoes_degree_increase. Qed.
Print Assumptions C06_reduction_undoes_elevation_bezier.

Theorem C06_reduction_after_elevation_error_zero :
  forall (c : curve) (P : list pt) (d p : nat) (a b : Q) (t : nat) (c1 : curve) (knew : kv) (T E : mat),
       cW c = None ->
       cP c = Some P ->
       Forall2 Qeq (kvec (ckv c)) (bez p a b) ->
       cdeg c = p ->
       a < b ->
       length P = cnpts c ->
       Forall (fun q : pt => length q = d) P ->
       c_degree_increase c t = Ok c1 ->
       kset_degree (ckv c1) (kdeg (ckv c1) - t) = Ok knew ->
       spline2spline (ckv c1) knew (knots_opt knew) = Ok (T, E) ->
       exists P1 : list pt, cP c1 = Some P1 /\ fit_error E P1 == 0.
Proof. exact degree_decrease_after_increase_error_zero. Qed.
Print Assumptions C06_reduction_after_elevation_error_zero.

Theorem C06_reduction_after_elevation_accepted :
  forall (c : curve) (P : list pt) (d p : nat) (a b : Q) (t : nat) (c1 : curve) 
         (knew : kv) (T E : mat) (tl : Q),
       cW c = None ->
       cP c = Some P ->
       Forall2 Qeq (kvec (ckv c)) (bez p a b) ->
       cdeg c = p ->
       a < b ->
       length P = cnpts c ->
       Forall (fun q : pt => length q = d) P ->
       c_degree_increase c t = Ok c1 ->
       kset_degree (ckv c1) (kdeg (ckv c1) - t) = Ok knew ->
       spline2spline (ckv c1) knew (knots_opt knew) = Ok (T, E) ->
       0 <= tl -> exists c2 : curve, c_degree_decrease c1 t (Some tl) = Ok c2.
Proof. exact degree_decrease_after_increase_succeeds. Qed.
Print Assumptions C06_reduction_after_elevation_accepted.

Theorem C06_projection_undoes_any_refinement :
  forall (kf kc : kv) (M : mat),
       WF (kvec kf) (kdeg kf) ->
       WF (kvec kc) (kdeg kc) ->
       length M = knpts kf ->
       (forall (P : list Q) (u : Q),
        length P = knpts kc ->
        in_range (kvec kc) (kdeg kc) u = true ->
        curve_spec1 (kvec kf) (kdeg kf) (mvec M P) u == curve_spec1 (kvec kc) (kdeg kc) P u) ->
       forall (ns : list Q) (T E : mat),
       spline2spline kf kc (Some ns) = Ok (T, E) ->
       (0 < length ns)%nat -> meq (mmul_n (knpts kc) T M) (ident (knpts kc)).
Proof. exact GU3_left_inverse. Qed.
Print Assumptions C06_projection_undoes_any_refinement.


(* non-vacuity: a two-span degree-2 curve elevated by 1 and reduced again by the model *)
Example C06_nonvacuous :
  match c_degree_increase (mkcurve (mkkv [0; 0; 0; 1#2; 1; 1; 1] 2) (Some [[1]; [3#2]; [-1#2]; [-3]]) None) 1 with
  | Ok c1 => ql_eqb (kvec (ckv c1)) [0; 0; 0; 0; 1#2; 1#2; 1; 1; 1; 1]
             && match c_degree_decrease c1 1 (Some tol_decrease) with
                | Ok c2 => opt_eqb ptl_eqb (cP c2) (Some [[1]; [3#2]; [-1#2]; [-3]])
                | Err _ => false
                end
  | Err _ => false
  end = true.
Proof. vm_compute. reflexivity. Qed.

From NurbsV Require Import Spec.BSpline Model.Linalg Model.Quadrature Model.LeastSq Model.CurveLS Proofs.ForcedProofs.
From NurbsV Require Proofs.UnionProofs.
(* ---- tolerance=None (Proofs/ForcedProofs.v): the forced degree reduction interpolates the old curve at the remaining knots. ---- *)
Theorem C06_forced_reduction_interpolates :
  forall (c : curve) (t : nat) (c' : curve) (P : list pt) (d : nat),
       cW c = None ->
       cP c = Some P ->
       WF (kvec (ckv c)) (kdeg (ckv c)) ->
       length P = knpts (ckv c) ->
       Forall (fun q : pt => length q = d) P ->
       c_degree_decrease c t None = Ok c' ->
       (1 <= kdeg (ckv c'))%nat ->
       exists P' : list pt,
         cP c' = Some P' /\
         cW c' = None /\
         length P' = knpts (ckv c') /\
         Forall (fun q : pt => length q = d) P' /\
         (forall z : Q,
          In z (kknots (ckv c')) ->
          Forall2 Qeq (curve_spec (kvec (ckv c')) (kdeg (ckv c')) d P' z)
            (curve_spec (kvec (ckv c)) (kdeg (ckv c)) d P z)).
Proof. exact forced_degree_decrease_interpolates. Qed.
Print Assumptions C06_forced_reduction_interpolates.

Theorem C06_forced_reduction_interpolates_everywhere_separated :
  forall (c c' : curve) (P : list pt) (d : nat),
       cW c = None ->
       cP c = Some P ->
       WF (kvec (ckv c)) (kdeg (ckv c)) ->
       length P = knpts (ckv c) ->
       Forall (fun q : pt => length q = d) P ->
       (1 <= kdeg (ckv c'))%nat ->
       forall t : nat,
       c_degree_decrease c t None = Ok c' ->
       UnionProofs.separated (kvec (ckv c')) ->
       exists P' : list pt,
         cP c' = Some P' /\
         cW c' = None /\
         length P' = knpts (ckv c') /\
         Forall (fun q : pt => length q = d) P' /\
         (forall x : Q,
          In x (kvec (ckv c')) ->
          Forall2 Qeq (curve_spec (kvec (ckv c')) (kdeg (ckv c')) d P' x)
            (curve_spec (kvec (ckv c)) (kdeg (ckv c)) d P x)).
Proof. exact forced_degree_decrease_interpolates_all. Qed.
Print Assumptions C06_forced_reduction_interpolates_everywhere_separated.
