(* PROPERTY C06: curve.degree_increase(t) (and curve.degree = p+t) raises every distinct knot's multiplicity by t,
   raises the degree by t and leaves the curve unchanged as a function (Bezier, multi-span, repeated-knot and
   rational curves); degree_decrease(t) undoes it exactly whenever the curve is representable at the lower degree,
   otherwise raises ValueError leaving the curve unchanged, or with tolerance=None returns the constrained best
   approximation. Statements only; proofs in Proofs/BezierProofs.v, Proofs/RemoveBasic.v. *)
From Coq Require Import QArith List Bool Arith.
From NurbsV Require Import Base.Res Base.QList Spec.KnotSpec Spec.BSpline Gen.Consts Model.KV Model.Basis Model.CurveM Model.Ops
  Model.CurveOps Model.Linalg Model.Quadrature Model.LeastSq Model.CurveLS.
From NurbsV Require Import Proofs.BezierProofs Proofs.RemoveBasic.
Import ListNotations.
Open Scope Q_scope.
Theorem C06_bezier_vector_wf :
  forall (p : nat) (a b : Q), a < b -> WF (bez p a b) p.
Proof. exact bez_WF. Qed.
Print Assumptions C06_bezier_vector_wf.

Theorem C06_bezier_basis_is_bernstein :
  forall (p : nat) (a b u : Q) (i : nat),
       a < b ->
       a <= u <= b ->
       Nspec (bez p a b) p p i u == natQ (binom p i) * qpow (tpar a b u) i * qpow (1 - tpar a b u) (p - i).
Proof. exact Nspec_bez_bernstein. Qed.
Print Assumptions C06_bezier_basis_is_bernstein.

Theorem C06_bezier_elevate_once :
  forall (p : nat) (a b : Q) (P : list Q) (u : Q),
       a < b ->
       length P = (p + 1)%nat ->
       in_range (bez p a b) p u = true ->
       curve_spec1 (bez (p + 1) a b) (p + 1) (mvec (elev_matrix p) P) u == curve_spec1 (bez p a b) p P u.
Proof. exact bezier_elevate_once. Qed.
Print Assumptions C06_bezier_elevate_once.

Theorem C06_bezier_elevate_many :
  forall (p t : nat) (a b : Q) (P : list Q) (u : Q),
       a < b ->
       length P = (p + 1)%nat ->
       in_range (bez p a b) p u = true ->
       curve_spec1 (bez (p + t) a b) (p + t) (mvec (degree_increase_bezier p t) P) u ==
       curve_spec1 (bez p a b) p P u.
Proof. exact bezier_elevate_many. Qed.
Print Assumptions C06_bezier_elevate_many.

Theorem C06_bezier_elevate_many_vector_valued :
  forall (p t d : nat) (a b : Q) (P : list pt) (u : Q),
       a < b ->
       length P = (p + 1)%nat ->
       Forall (fun pt : list Q => length pt = d) P ->
       pdim P = d ->
       in_range (bez p a b) p u = true ->
       Forall2 Qeq (curve_spec (bez (p + t) a b) (p + t) d (mat_apply (degree_increase_bezier p t) P) u)
         (curve_spec (bez p a b) p d P u).
Proof. exact bezier_elevate_many_vec. Qed.
Print Assumptions C06_bezier_elevate_many_vector_valued.

Theorem C06_reduction_within_tolerance :
  forall (c : curve) (knew : kv) (t : Q) (nodes : option (list Q)) (c' : curve),
       c_update c knew (Some t) nodes = Ok c' ->
       kv_eqb knew (ckv c) = false ->
       ~ t == 0 ->
       forall P : list pt,
       cP c = Some P ->
       exists (P' : list pt) (err : Q),
         c_fit_curve knew c nodes = Ok (P', err) /\ err <= t /\ cP c' = Some P'.
Proof. exact c_update_within_tolerance. Qed.
Print Assumptions C06_reduction_within_tolerance.

(* non-vacuity: a two-span degree-2 curve elevated by 1 and reduced again by the model *)
Example C06_nonvacuous :
  match c_degree_increase (mkcurve (mkkv [0; 0; 0; 1#2; 1; 1; 1] 2) (Some [[1]; [3#2]; [-1#2]; [-3]]) None) 1 with
  | Ok c1 => ql_eqb (kvec (ckv c1)) [0; 0; 0; 0; 1#2; 1#2; 1; 1; 1; 1]
             && match c_degree_decrease c1 1 (Some tol_decrease) with
                | Ok c2 => opt_eqb ptl_eqb (cP c2) (Some [[1]; [3#2]; [-1#2]; [-3]])
                | Err _ => false
                end
  | Err _ => false
  end = true.
Proof. vm_compute. reflexivity. Qed.
