(* PROPERTY C05: curve.knot_remove(nodes) either succeeds - the knot vector is the old one minus nodes and
   the curve deviates by no more than the tolerance allows, with zero deviation whenever the knots are exactly
   removable (it undoes a knot_insert exactly) - or raises ValueError and leaves the curve unchanged; with
   tolerance=None it always succeeds and interpolates the old curve at every remaining knot.
   Statements only; proofs in Proofs/RemoveBasic.v, Proofs/MatProofs.v (and Proofs/LSProofs.v). *)
From Coq Require Import QArith List Bool Arith.
From NurbsV Require Import Base.Res Base.QList Spec.KnotSpec Gen.Consts Model.KV Model.Basis Model.CurveM Model.Ops
  Model.CurveOps Model.Linalg Model.Quadrature Model.LeastSq Model.CurveLS.
From NurbsV Require Import Proofs.MatProofs Proofs.LSProofs Proofs.RemoveBasic Proofs.UndoProofs.
Import ListNotations.
Open Scope Q_scope.
Theorem C05_knots :
  forall (c : curve) (ns : list Q) (tol : option Q) (c' : curve),
       c_knot_remove c ns tol = Ok c' ->
       exists knew : kv,
         kremove (ckv c) ns = Ok knew /\
         kv_eqb (ckv c') knew = true /\
         WF (kvec knew) (kdeg knew) /\
         (forall z : Q, count_q z (kvec (ckv c)) = (count_q z (kvec knew) + count_q z ns)%nat) /\
         length (kvec (ckv c)) = (length (kvec knew) + length ns)%nat.
Proof. exact c_knot_remove_knots. Qed.
Print Assumptions C05_knots.

Theorem C05_absent_refused :
  forall (c : curve) (ns : list Q) (tol : option Q),
       remove_all ns (kvec (ckv c)) = None -> c_knot_remove c ns tol = Err ValueError.
Proof. exact c_knot_remove_absent. Qed.
Print Assumptions C05_absent_refused.

Theorem C05_never_silently_lossy :
  forall (c : curve) (knew : kv) (t : Q) (nodes : option (list Q)) (c' : curve),
       c_update c knew (Some t) nodes = Ok c' ->
       kv_eqb knew (ckv c) = false ->
       ~ t == 0 ->
       forall P : list pt,
       cP c = Some P ->
       exists (P' : list pt) (err : Q),
         c_fit_curve knew c nodes = Ok (P', err) /\ err <= t /\ cP c' = Some P'.
Proof. exact c_update_within_tolerance. Qed.
Print Assumptions C05_never_silently_lossy.

Theorem C05_inverse_certified :
  forall M M' : mat,
       invert M = Ok M' ->
       let n := length M in
       shaped n n M /\ shaped n n M' /\ meq (mmul_n n M' M) (ident n) /\ meq (mmul_n n M M') (ident n).
Proof. exact invert_sound. Qed.
Print Assumptions C05_inverse_certified.

Theorem C05_solves_uniquely :
  forall (M M' : mat) (x b : list Q),
       invert M = Ok M' -> length x = length M -> veq (mvec M x) b -> veq x (mvec M' b).
Proof. exact invert_unique_solution. Qed.
Print Assumptions C05_solves_uniquely.

(* ---- knot removal undoes knot insertion EXACTLY and is accepted under every tolerance (Proofs/UndoProofs.v): from Boehm
   (C04) the coarse basis is the fine basis contracted with the insertion matrix at every node, so the projection matrix is
   a left inverse of the insertion matrix - for the unconstrained and for the interpolation-constrained solve that
   knot_remove uses - and the error functional vanishes. ---- *)
Theorem C05_undoes_knot_insert :
  forall (c : curve) (P : list pt) (d : nat) (nodes : list Q) (c1 c2 : curve) (tol : option Q),
       cW c = None ->
       cP c = Some P ->
       WF (kvec (ckv c)) (cdeg c) ->
       length P = cnpts c ->
       Forall (fun q : pt => length q = d) P ->
       c_knot_insert c nodes = Ok c1 ->
       kdeg (ckv c1) = cdeg c ->
       c_knot_remove c1 nodes tol = Ok c2 ->
       exists P2 : list pt,
         cP c2 = Some P2 /\
         Forall2 (Forall2 Qeq) P2 P /\
         cW c2 = None /\ Forall2 Qeq (kvec (ckv c2)) (kvec (ckv c)) /\ kdeg (ckv c2) = cdeg c.
Proof. exact knot_remove_undoes_knot_insert. Qed.
Print Assumptions C05_undoes_knot_insert.

Theorem C05_undo_error_is_zero :
  forall (c : curve) (P : list pt) (d : nat) (nodes : list Q) (c1 : curve) (knew : kv) (T E : mat),
       cW c = None ->
       cP c = Some P ->
       WF (kvec (ckv c)) (cdeg c) ->
       length P = cnpts c ->
       Forall (fun q : pt => length q = d) P ->
       c_knot_insert c nodes = Ok c1 ->
       kdeg (ckv c1) = cdeg c ->
       kremove (ckv c1) nodes = Ok knew ->
       spline2spline (ckv c1) knew (knots_opt knew) = Ok (T, E) ->
       exists P1 : list pt, cP c1 = Some P1 /\ fit_error E P1 == 0.
Proof. exact knot_remove_after_insert_error_zero. Qed.
Print Assumptions C05_undo_error_is_zero.

Theorem C05_undo_always_accepted :
  forall (c : curve) (P : list pt) (d : nat) (nodes : list Q) (c1 : curve) (knew : kv) 
         (T E : mat) (t : Q),
       cW c = None ->
       cP c = Some P ->
       WF (kvec (ckv c)) (cdeg c) ->
       length P = cnpts c ->
       Forall (fun q : pt => length q = d) P ->
       c_knot_insert c nodes = Ok c1 ->
       kdeg (ckv c1) = cdeg c ->
       kremove (ckv c1) nodes = Ok knew ->
       spline2spline (ckv c1) knew (knots_opt knew) = Ok (T, E) ->
       0 <= t -> exists c2 : curve, c_knot_remove c1 nodes (Some t) = Ok c2.
Proof. exact knot_remove_after_insert_succeeds. Qed.
Print Assumptions C05_undo_always_accepted.

Theorem C05_undo_only_certificates_can_fail :
  forall (c : curve) (P : list pt) (d : nat) (nodes : list Q) (c1 : curve),
       cW c = None ->
       cP c = Some P ->
       WF (kvec (ckv c)) (cdeg c) ->
       length P = cnpts c ->
       Forall (fun q : pt => length q = d) P ->
       c_knot_insert c nodes = Ok c1 ->
       kdeg (ckv c1) = cdeg c ->
       exists knew : kv,
         kremove (ckv c1) nodes = Ok knew /\
         (forall (T E : mat) (t : Q),
          spline2spline (ckv c1) knew (knots_opt knew) = Ok (T, E) ->
          0 <= t -> exists c2 : curve, c_knot_remove c1 nodes (Some t) = Ok c2).
Proof. exact knot_remove_after_insert_only_uncertified. Qed.
Print Assumptions C05_undo_only_certificates_can_fail.

Theorem C05_vector_restored :
  forall (k : kv) (nodes : list Q) (kf knew : kv),
       WF (kvec k) (kdeg k) ->
       kinsert k nodes = Ok kf ->
       kremove kf nodes = Ok knew ->
       WF (kvec knew) (kdeg knew) /\ Forall2 Qeq (kvec knew) (kvec k) /\ kdeg knew = kdeg k.
Proof. exact kremove_kinsert. Qed.
Print Assumptions C05_vector_restored.

Theorem C05_projection_left_inverse_of_insertion :
  forall (k kf kc : kv) (nodes : list Q) (M : mat),
       WF (kvec k) (kdeg k) ->
       knot_insert k nodes = Ok M ->
       kinsert k nodes = Ok kf ->
       kdeg kf = kdeg k ->
       WF (kvec kc) (kdeg kc) ->
       Forall2 Qeq (kvec kc) (kvec k) ->
       kdeg kc = kdeg k ->
       forall (ns : list Q) (T E : mat),
       spline2spline kf kc (Some ns) = Ok (T, E) ->
       (0 < length ns)%nat -> meq (mmul_n (knpts kc) T M) (ident (knpts kc)).
Proof. exact U3_left_inverse. Qed.
Print Assumptions C05_projection_left_inverse_of_insertion.


(* non-vacuity: removing the knot 1/2 from a curve where it is exactly removable succeeds and restores [1;2;-3] *)
Example C05_nonvacuous :
  match c_knot_remove (mkcurve (mkkv [0; 0; 0; 1#2; 1; 1; 1] 2) (Some [[1]; [3#2]; [-1#2]; [-3]]) None) [1#2] (Some tol_remove) with
  | Ok c' => ql_eqb (kvec (ckv c')) [0; 0; 0; 1; 1; 1] && opt_eqb ptl_eqb (cP c') (Some [[1]; [2]; [-3]])
  | Err _ => false
  end = true.
Proof. vm_compute. reflexivity. Qed.
(* and a knot that is not removable is refused under the default tolerance *)
Example C05_nonvacuous_refused :
  c_knot_remove (mkcurve (mkkv [0; 0; 0; 1#2; 1; 1; 1] 2) (Some [[1]; [3#2]; [5]; [-3]]) None) [1#2] (Some tol_remove) = Err ValueError.
Proof. vm_compute. reflexivity. Qed.

From NurbsV Require Import Spec.BSpline Proofs.Local Proofs.LinIndep Proofs.LinIndepCurves.
From NurbsV Require Proofs.UnionProofs.
(* ---- semantic removability (Proofs/LinIndepCurves.v): if SOME coefficient list over the coarser vector gives the same
   function, the fine control points are the insertion matrix applied to it (linear independence), so knot_remove is accepted
   under every tolerance and returns exactly that coarse curve. ---- *)
Theorem C05_removable_is_inserted :
  forall (c1 : curve) (P1 : list pt) (d : nat) (nodes : list Q) (knew : kv) (Q0 : list pt),
       cW c1 = None ->
       cP c1 = Some P1 ->
       WF (kvec (ckv c1)) (cdeg c1) ->
       length P1 = cnpts c1 ->
       Forall (fun q : pt => length q = d) P1 ->
       kremove (ckv c1) nodes = Ok knew ->
       kdeg knew = cdeg c1 ->
       limits_eqb (ckv c1) knew = true ->
       length Q0 = knpts knew ->
       Forall (fun q : pt => length q = d) Q0 ->
       (forall u : Q,
        in_range (kvec (ckv c1)) (cdeg c1) u = true ->
        Forall2 Qeq (curve_spec (kvec knew) (kdeg knew) d Q0 u) (curve_spec (kvec (ckv c1)) (cdeg c1) d P1 u)) ->
       exists (kf2 : kv) (M : mat),
         kinsert knew nodes = Ok kf2 /\
         knot_insert knew nodes = Ok M /\
         Forall2 Qeq (kvec (ckv c1)) (kvec kf2) /\
         kdeg kf2 = kdeg knew /\ Forall2 (Forall2 Qeq) P1 (mat_apply M Q0).
Proof. exact removable_points. Qed.
Print Assumptions C05_removable_is_inserted.

Theorem C05_removable_returns_coarse_curve :
  forall (c1 : curve) (P1 : list pt) (d : nat) (nodes : list Q) (knew : kv) (Q0 : list pt),
       cW c1 = None ->
       cP c1 = Some P1 ->
       WF (kvec (ckv c1)) (cdeg c1) ->
       length P1 = cnpts c1 ->
       Forall (fun q : pt => length q = d) P1 ->
       kremove (ckv c1) nodes = Ok knew ->
       kdeg knew = cdeg c1 ->
       limits_eqb (ckv c1) knew = true ->
       length Q0 = knpts knew ->
       Forall (fun q : pt => length q = d) Q0 ->
       (forall u : Q,
        in_range (kvec (ckv c1)) (cdeg c1) u = true ->
        Forall2 Qeq (curve_spec (kvec knew) (kdeg knew) d Q0 u) (curve_spec (kvec (ckv c1)) (cdeg c1) d P1 u)) ->
       forall (tol : option Q) (c2 : curve),
       c_knot_remove c1 nodes tol = Ok c2 ->
       exists P2 : list pt,
         cP c2 = Some P2 /\ Forall2 (Forall2 Qeq) P2 Q0 /\ cW c2 = None /\ kv_eqb (ckv c2) knew = true.
Proof. exact removable_returns. Qed.
Print Assumptions C05_removable_returns_coarse_curve.

Theorem C05_removable_always_accepted :
  forall (c1 : curve) (P1 : list pt) (d : nat) (nodes : list Q) (knew : kv) (Q0 : list pt),
       cW c1 = None ->
       cP c1 = Some P1 ->
       WF (kvec (ckv c1)) (cdeg c1) ->
       length P1 = cnpts c1 ->
       Forall (fun q : pt => length q = d) P1 ->
       kremove (ckv c1) nodes = Ok knew ->
       kdeg knew = cdeg c1 ->
       limits_eqb (ckv c1) knew = true ->
       length Q0 = knpts knew ->
       Forall (fun q : pt => length q = d) Q0 ->
       (forall u : Q,
        in_range (kvec (ckv c1)) (cdeg c1) u = true ->
        Forall2 Qeq (curve_spec (kvec knew) (kdeg knew) d Q0 u) (curve_spec (kvec (ckv c1)) (cdeg c1) d P1 u)) ->
       forall (t : Q) (T E : mat),
       0 <= t ->
       spline2spline (ckv c1) knew (knots_opt knew) = Ok (T, E) ->
       exists c2 : curve, c_knot_remove c1 nodes (Some t) = Ok c2.
Proof. exact removable_succeeds. Qed.
Print Assumptions C05_removable_always_accepted.

From NurbsV Require Import Spec.BSpline Model.Linalg Model.Quadrature Model.LeastSq Model.CurveLS Proofs.ForcedProofs.
From NurbsV Require Proofs.UnionProofs.
(* ---- tolerance=None (Proofs/ForcedProofs.v): a forced removal always succeeds when the vectors are compatible (no error test), and
   at degree >= 1 the result takes the old curve's values at every remaining distinct knot - at every knot of the new vector, both ends
   included, under the separation hypothesis. ---- *)
Theorem C05_forced_removal_interpolates :
  forall (c : curve) (ns : list Q) (c' : curve) (P : list pt) (d : nat),
       cW c = None ->
       cP c = Some P ->
       WF (kvec (ckv c)) (kdeg (ckv c)) ->
       length P = knpts (ckv c) ->
       Forall (fun q : pt => length q = d) P ->
       c_knot_remove c ns None = Ok c' ->
       (1 <= kdeg (ckv c'))%nat ->
       exists P' : list pt,
         cP c' = Some P' /\
         cW c' = None /\
         length P' = knpts (ckv c') /\
         Forall (fun q : pt => length q = d) P' /\
         (forall z : Q,
          In z (kknots (ckv c')) ->
          Forall2 Qeq (curve_spec (kvec (ckv c')) (kdeg (ckv c')) d P' z)
            (curve_spec (kvec (ckv c)) (kdeg (ckv c)) d P z)).
Proof. exact forced_knot_remove_interpolates. Qed.
Print Assumptions C05_forced_removal_interpolates.

Theorem C05_forced_removal_interpolates_everywhere_separated :
  forall (c c' : curve) (P : list pt) (d : nat),
       cW c = None ->
       cP c = Some P ->
       WF (kvec (ckv c)) (kdeg (ckv c)) ->
       length P = knpts (ckv c) ->
       Forall (fun q : pt => length q = d) P ->
       (1 <= kdeg (ckv c'))%nat ->
       forall ns : list Q,
       c_knot_remove c ns None = Ok c' ->
       UnionProofs.separated (kvec (ckv c')) ->
       exists P' : list pt,
         cP c' = Some P' /\
         cW c' = None /\
         length P' = knpts (ckv c') /\
         Forall (fun q : pt => length q = d) P' /\
         (forall x : Q,
          In x (kvec (ckv c')) ->
          Forall2 Qeq (curve_spec (kvec (ckv c')) (kdeg (ckv c')) d P' x)
            (curve_spec (kvec (ckv c)) (kdeg (ckv c)) d P x)).
Proof. exact forced_knot_remove_interpolates_all. Qed.
Print Assumptions C05_forced_removal_interpolates_everywhere_separated.

Theorem C05_forced_removal_succeeds :
  forall (c : curve) (ns : list Q) (knew : kv) (T E : mat),
       cW c = None ->
       kremove (ckv c) ns = Ok knew ->
       limits_eqb (ckv c) knew = true ->
       spline2spline (ckv c) knew (knots_opt knew) = Ok (T, E) ->
       exists c' : curve,
         c_knot_remove c ns None = Ok c' /\
         (c' = c \/ c' = {| ckv := knew; cP := option_map (mat_apply T) (cP c); cW := None |}).
Proof. exact forced_knot_remove_succeeds. Qed.
Print Assumptions C05_forced_removal_succeeds.
