(* PROPERTY C05: curve.knot_remove(nodes) either succeeds - the knot vector is the old one minus nodes and
   the curve deviates by no more than the tolerance allows, with zero deviation whenever the knots are exactly
   removable (it undoes a knot_insert exactly) - or raises ValueError and leaves the curve unchanged; with
   tolerance=None it always succeeds and interpolates the old curve at every remaining knot.
   Statements only; proofs in Proofs/RemoveBasic.v, Proofs/MatProofs.v (and Proofs/LSProofs.v). *)
From Coq Require Import QArith List Bool Arith.
From NurbsV Require Import Base.Res Base.QList Spec.KnotSpec Gen.Consts Model.KV Model.Basis Model.CurveM Model.Ops
  Model.CurveOps Model.Linalg Model.Quadrature Model.LeastSq Model.CurveLS.
From NurbsV Require Import Proofs.MatProofs Proofs.RemoveBasic.
Import ListNotations.
Open Scope Q_scope.
Theorem C05_knots :
  forall (c : curve) (ns : list Q) (tol : option Q) (c' : curve),
       c_knot_remove c ns tol = Ok c' ->
       exists knew : kv,
         kremove (ckv c) ns = Ok knew /\
         kv_eqb (ckv c') knew = true /\
         WF (kvec knew) (kdeg knew) /\
         (forall z : Q, count_q z (kvec (ckv c)) = (count_q z (kvec knew) + count_q z ns)%nat) /\
         length (kvec (ckv c)) = (length (kvec knew) + length ns)%nat.
Proof. exact c_knot_remove_knots. Qed.
Print Assumptions C05_knots.

Theorem C05_absent_refused :
  forall (c : curve) (ns : list Q) (tol : option Q),
       remove_all ns (kvec (ckv c)) = None -> c_knot_remove c ns tol = Err ValueError.
Proof. exact c_knot_remove_absent. Qed.
Print Assumptions C05_absent_refused.

Theorem C05_never_silently_lossy :
  forall (c : curve) (knew : kv) (t : Q) (nodes : option (list Q)) (c' : curve),
       c_update c knew (Some t) nodes = Ok c' ->
       kv_eqb knew (ckv c) = false ->
       ~ t == 0 ->
       forall P : list pt,
       cP c = Some P ->
       exists (P' : list pt) (err : Q),
         c_fit_curve knew c nodes = Ok (P', err) /\ err <= t /\ cP c' = Some P'.
Proof. exact c_update_within_tolerance. Qed.
Print Assumptions C05_never_silently_lossy.

Theorem C05_inverse_certified :
  forall M M' : mat,
       invert M = Ok M' ->
       let n := length M in
       shaped n n M /\ shaped n n M' /\ meq (mmul_n n M' M) (ident n) /\ meq (mmul_n n M M') (ident n).
Proof. exact invert_sound. Qed.
Print Assumptions C05_inverse_certified.

Theorem C05_solves_uniquely :
  forall (M M' : mat) (x b : list Q),
       invert M = Ok M' -> length x = length M -> veq (mvec M x) b -> veq x (mvec M' b).
Proof. exact invert_unique_solution. Qed.
Print Assumptions C05_solves_uniquely.

(* non-vacuity: removing the knot 1/2 from a curve where it is exactly removable succeeds and restores [1;2;-3] *)
Example C05_nonvacuous :
  match c_knot_remove (mkcurve (mkkv [0; 0; 0; 1#2; 1; 1; 1] 2) (Some [[1]; [3#2]; [-1#2]; [-3]]) None) [1#2] (Some tol_remove) with
  | Ok c' => ql_eqb (kvec (ckv c')) [0; 0; 0; 1; 1; 1] && opt_eqb ptl_eqb (cP c') (Some [[1]; [2]; [-3]])
  | Err _ => false
  end = true.
Proof. vm_compute. reflexivity. Qed.
(* and a knot that is not removable is refused under the default tolerance *)
Example C05_nonvacuous_refused :
  c_knot_remove (mkcurve (mkkv [0; 0; 0; 1#2; 1; 1; 1] 2) (Some [[1]; [3#2]; [5]; [-3]]) None) [1#2] (Some tol_remove) = Err ValueError.
Proof. vm_compute. reflexivity. Qed.
