#!/bin/bash
# Re-runs seeded changes against the check of their own property on the CURRENT tree, in parallel:
# each worker has its own copy of /verif (so that the regenerated Gen/Consts.v of one change cannot leak into another run)
# and its own scratch worktree of /repo.  Results: $OUT/results.txt  (seed, summary line).
#   tools/seed_regress.sh [workers=3] [file with one seed directory name per line; default: all of seeded/]
W=${1:-3}
LIST=${2:-}
OUT=/tmp/mw
rm -rf $OUT; mkdir -p $OUT
if [ -n "$LIST" ]; then cp "$LIST" $OUT/all.txt; else ls -d /verif/seeded/C*/ | xargs -n1 basename > $OUT/all.txt; fi
for k in $(seq 1 $W); do
  mkdir -p $OUT/w$k
  rsync -a --exclude build/run --exclude build/replay --exclude .git --exclude evidence /verif/ $OUT/w$k/verif/
  git -C /repo worktree add -q --detach $OUT/w$k/repo HEAD
  awk -v k=$k -v w=$W 'NR % w == k % w' $OUT/all.txt > $OUT/w$k/list.txt
  (
    cd $OUT/w$k/verif
    while read s; do
      prop=${s%%-*}
      git -C $OUT/w$k/repo checkout -q -- . ; git -C $OUT/w$k/repo clean -fdq
      if ! git -C $OUT/w$k/repo apply /verif/seeded/$s/patch.diff 2>/dev/null; then echo "$s NOAPPLY" >> $OUT/results.txt; continue; fi
      line=$(VERIF_REPO=$OUT/w$k/repo VERIF_EVIDENCE_DIR=$OUT/w$k/ev timeout 1800 ./check $prop 2>&1 | grep -E "VIOLATION|CHECK-ERROR|^C[0-9]+ \[" | tr '\n' ' ' | cut -c1-260)
      echo "$s $line" >> $OUT/results.txt
    done < $OUT/w$k/list.txt
    git -C /repo worktree remove --force $OUT/w$k/repo
  ) > $OUT/w$k/log.txt 2>&1 &
done
wait
echo done
