#!/bin/bash
# validates MANIFEST.json and every evidence file against the given schemas
cd "$(dirname "$0")/.."
python3-vt - <<'E'
import json, jsonschema, glob
jsonschema.validate(json.load(open('MANIFEST.json')), json.load(open('/root/.vp/MANIFEST.schema.json')))
s = json.load(open('/root/.vp/EVIDENCE.schema.json'))
for f in sorted(glob.glob('evidence/*.json')):
    e = json.load(open(f))
    jsonschema.validate(e, s)
    c = e['coverage']
    print(f, 'ok', e['tier'], 'obl', c.get('obligations'), 'dis', c.get('discharged'), 'eval', c.get('evaluations'), 'dnt', c.get('distinct_nontrivial'), 'viol', e.get('violations'), 'wall', e['wall_s'])
E
# the source pin must describe the committed /repo tree (re-pin after every fix: /venv/bin/python tools/pin_source.py write)
n=$(/venv/bin/python tools/pin_source.py diff | wc -l)
if [ "$n" != "0" ]; then echo "WARNING: pins/source_functions.json differs from /repo in $n functions (stale pin or modified tree)"; fi
