#!/bin/bash
# evaluates the two round-4 seeded changes of a property: seed2.sh C01 [extra checks]
cd "$(dirname "$0")/.."
for k in 1 2; do
  tools/seed_eval.py $1 $k --src /tmp/wt4/$1 --offset 7 ${2:+--checks $2} 2>&1 | grep -v WARNING | python3 -c "import sys,json; d=json.load(sys.stdin); print(d['seed_id'], 'confirmed' if d['confirmed'] else 'NOT-CONFIRMED', d['applies_in_repo'], d['detected_by'], [c['lines'][-1:] for c in d['checks'].values()])"
done
