#!/usr/bin/env python3
"""Regenerate coq/Gen/Consts.v from /repo's current source (fail-closed ast extractor).

Extracted: the literal tolerances (as the exact rational value of the float literal),
the memo-table literals of NodeSample / IntegratorArray, the quadrature-size
expressions.  Any unexpected AST shape aborts with exit status 3: the tie between
model and source is then reported as broken by the caller.
"""
import ast
import sys
from fractions import Fraction
from pathlib import Path


class Bad(Exception):
    pass


def q(x):
    x = Fraction(x)
    n, d = x.numerator, x.denominator
    return f"(({n})#{d})" if n < 0 else f"({n}#{d})"


def find_class(mod, name):
    for node in mod.body:
        if isinstance(node, ast.ClassDef) and node.name == name:
            return node
    raise Bad(f"class {name} not found")


def find_func(cls, name):
    for node in cls.body:
        if isinstance(node, (ast.FunctionDef,)) and node.name == name:
            return node
    raise Bad(f"function {name} not found in {getattr(cls, 'name', '?')}")


def float_consts(node):
    out = []
    for sub in ast.walk(node):
        if isinstance(sub, ast.Constant) and isinstance(sub.value, float):
            out.append(sub.value)
    return out


def single_float(node, what):
    cs = float_consts(node)
    if len(cs) != 1:
        raise Bad(f"{what}: expected exactly one float literal, found {cs}")
    return Fraction(cs[0])


def eval_fraction_expr(node):
    """Fraction(a, b) / Fraction(a) / int literal."""
    if isinstance(node, ast.Call) and isinstance(node.func, ast.Name) and node.func.id == "Fraction":
        args = []
        for a in node.args:
            if isinstance(a, ast.Constant) and isinstance(a.value, int):
                args.append(a.value)
            elif isinstance(a, ast.UnaryOp) and isinstance(a.op, ast.USub) and isinstance(a.operand, ast.Constant):
                args.append(-a.operand.value)
            else:
                raise Bad("Fraction argument is not an int literal")
        if len(args) not in (1, 2) or node.keywords:
            raise Bad("Fraction call with unexpected arity")
        return Fraction(*args)
    if isinstance(node, ast.Constant) and isinstance(node.value, int):
        return Fraction(node.value)
    raise Bad(f"table entry is not a Fraction literal: {ast.dump(node)[:80]}")


def table(cls, name):
    for node in cls.body:
        if isinstance(node, ast.Assign) and len(node.targets) == 1:
            t = node.targets[0]
            if isinstance(t, ast.Name) and t.id == name:
                if not isinstance(node.value, ast.Dict):
                    raise Bad(f"{name} is not a dict literal")
                out = []
                for k, v in zip(node.value.keys, node.value.values):
                    if not (isinstance(k, ast.Constant) and isinstance(k.value, int)):
                        raise Bad(f"{name}: non-int key")
                    if not isinstance(v, ast.Tuple):
                        raise Bad(f"{name}: value is not a tuple")
                    out.append((k.value, [eval_fraction_expr(e) for e in v.elts]))
                return out
    raise Bad(f"table {name} not found")


def int_in_assign(func, target, pattern):
    """Find `target = <expr>` in func and return the unique int literal of the expr."""
    for node in ast.walk(func):
        if isinstance(node, ast.Assign) and len(node.targets) == 1:
            t = node.targets[0]
            if isinstance(t, ast.Name) and t.id == target:
                ints = [s.value for s in ast.walk(node.value)
                        if isinstance(s, ast.Constant) and isinstance(s.value, int) and not isinstance(s.value, bool)]
                src = ast.unparse(node.value)
                if src.replace(" ", "") != pattern.replace(" ", ""):
                    raise Bad(f"{target} = {src!r}, expected {pattern!r}")
                return ints
    raise Bad(f"assignment to {target} not found")


def exact_rule(func):
    """Which exact rule func2func uses for Fraction data: the calls assigned to nodes0to1 / integrator
    in the `if numbtype is Fraction:` branch.  Returns True for the closed rule, False for the open one."""
    for node in ast.walk(func):
        if isinstance(node, ast.If) and ast.unparse(node.test).replace(" ", "") == "numbtypeisFraction":
            calls = {}
            for st in node.body:
                if isinstance(st, ast.Assign) and len(st.targets) == 1 and isinstance(st.targets[0], ast.Name):
                    calls[st.targets[0].id] = ast.unparse(st.value).replace(" ", "")
            pair = (calls.get("nodes0to1"), calls.get("integrator"))
            if pair == ("NodeSample.closed_linspace(nptsinteg)", "IntegratorArray.closed_newton_cotes(nptsinteg)"):
                return True
            if pair == ("NodeSample.open_linspace(nptsinteg)", "IntegratorArray.open_newton_cotes(nptsinteg)"):
                return False
            raise Bad(f"func2func: unrecognised exact quadrature {pair}")
    raise Bad("func2func: `if numbtype is Fraction` branch not found")


def span_scaled(func):
    """Is every quadrature weight multiplied by the span length (end - start) in func2func?"""
    src = ast.unparse(func).replace(" ", "")
    return "integ=integ*(end-start)" in src


def default_of(func, argname):
    args = func.args
    names = [a.arg for a in args.args]
    defaults = [None] * (len(names) - len(args.defaults)) + list(args.defaults)
    for n, d in zip(names, defaults):
        if n == argname:
            if isinstance(d, ast.Constant) and isinstance(d.value, float):
                return Fraction(d.value)
            raise Bad(f"default of {argname} in {func.name} is not a float literal")
    raise Bad(f"argument {argname} not found in {func.name}")


def tbl(name, entries):
    rows = ";\n   ".join(f"({k}%nat, [{'; '.join(q(x) for x in vals)}])" for k, vals in entries)
    return f"Definition {name} : list (nat * list Q) :=\n  [{rows}].\n"


def main(src_root, out_path):
    src_root = Path(src_root)
    heavy = ast.parse((src_root / "compmec/nurbs/heavy.py").read_text())
    curves = ast.parse((src_root / "compmec/nurbs/curves.py").read_text())
    ikv = find_class(heavy, "ImmutableKnotVector")
    tol_unique = single_float(find_func(ikv, "__get_unique"), "__get_unique")
    tol_mult = single_float(find_func(ikv, "__mult_single"), "__mult_single")
    ns = find_class(heavy, "NodeSample")
    ia = find_class(heavy, "IntegratorArray")
    ls = find_class(heavy, "LeastSquare")
    mo = find_class(heavy, "MathOperations")
    f2f = find_func(ls, "func2func")
    ls_extra = int_in_assign(f2f, "nptsinteg", "olddegree + newdegree + 3")
    mul = find_func(mo, "mul_spline_curve")
    mul_fac = int_in_assign(mul, "nptseval", "2 * (degreec + 1)")
    base = find_class(curves, "BaseCurve")
    curve = find_class(curves, "Curve")
    tol_eq = single_float(find_func(base, "__eq__"), "BaseCurve.__eq__")
    tol_update = default_of(find_func(base, "update"), "tolerance")
    tol_remove = default_of(find_func(curve, "knot_remove"), "tolerance")
    tol_decrease = default_of(find_func(curve, "degree_decrease"), "tolerance")
    tol_kclean = default_of(find_func(curve, "knot_clean"), "tolerance")
    tol_dclean = default_of(find_func(curve, "degree_clean"), "tolerance")
    tol_clean = default_of(find_func(curve, "clean"), "tolerance")
    out = []
    out.append("(* GENERATED by tools/extract_consts.py from /repo/src -- do not edit. *)\n")
    out.append("From Coq Require Import QArith List.\nImport ListNotations.\nOpen Scope Q_scope.\n\n")
    for name, val in [("tol_unique", tol_unique), ("tol_mult", tol_mult), ("tol_eq", tol_eq),
                      ("tol_update", tol_update), ("tol_remove", tol_remove),
                      ("tol_decrease", tol_decrease), ("tol_kclean", tol_kclean),
                      ("tol_dclean", tol_dclean), ("tol_clean", tol_clean)]:
        out.append(f"Definition {name} : Q := {q(val)}.\n")
    out.append(f"Definition ls_quad_extra : nat := {ls_extra[0]}%nat.\n")
    out.append(f"Definition ls_rule_closed : bool := {'true' if exact_rule(f2f) else 'false'}.\n")
    out.append(f"Definition ls_span_scaled : bool := {'true' if span_scaled(f2f) else 'false'}.\n")
    out.append(f"Definition mul_colloc_factor : nat := {mul_fac[0]}%nat.\n")
    out.append(f"Definition mul_colloc_plus : nat := {mul_fac[1]}%nat.\n\n")
    out.append(tbl("tbl_node_cheby", table(ns, "__cheby")))
    out.append(tbl("tbl_node_gauss", table(ns, "__gauss")))
    out.append(tbl("tbl_closed_newton", table(ia, "__closed_newton")))
    out.append(tbl("tbl_open_newton", table(ia, "__open_newton")))
    out.append(tbl("tbl_cheby", table(ia, "__cheby")))
    out.append(tbl("tbl_gauss", table(ia, "__gauss")))
    text = "".join(out)
    out_path = Path(out_path)
    if out_path.exists() and out_path.read_text() == text:
        return 0
    out_path.parent.mkdir(parents=True, exist_ok=True)
    out_path.write_text(text)
    return 0


if __name__ == "__main__":
    try:
        sys.exit(main(sys.argv[1], sys.argv[2]))
    except Bad as e:
        print(f"extract_consts: source shape not recognised: {e}", file=sys.stderr)
        sys.exit(3)
    except (SyntaxError, OSError) as e:
        print(f"extract_consts: cannot read source: {e}", file=sys.stderr)
        sys.exit(3)
