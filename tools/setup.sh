#!/bin/bash
# Builds the whole Coq development once (full .vo build) from files on disk; offline.
# Every check rebuilds incrementally afterwards (Gen/Consts.v is regenerated from /repo each run).
set -e
export LC_ALL=C
cd "$(dirname "$0")/.."
mkdir -p build evidence
/venv/bin/python tools/extract_consts.py "${VERIF_REPO:-/repo}/src" coq/Gen/Consts.v
cd coq
{ echo "-Q . NurbsV"; for d in Base Gen Spec Model Proofs Props Check; do ls $d/*.v 2>/dev/null | sort; done; } > _CoqProject.new
if ! cmp -s _CoqProject.new _CoqProject || [ ! -f Makefile ]; then
  mv _CoqProject.new _CoqProject
  coq_makefile -f _CoqProject -o Makefile
else
  rm -f _CoqProject.new
fi
timeout 3000 make -k -j16 > ../build/setup_make.log 2>&1 || { tail -30 ../build/setup_make.log; echo "setup: some files failed to build (the checks will report which)"; }
echo "setup done"
