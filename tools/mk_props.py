#!/usr/bin/env python3
"""Emit explicit theorem statements for a Props file from proved lemmas:
   mk_props.py <imports-file> name=lemma name=lemma ...
Prints 'Theorem name : <type as printed by Coq>. Proof. exact lemma. Qed. Print Assumptions name.' blocks.
(The statement is then fixed text in the Props file: a later weakening of the lemma breaks `exact`.)"""
import re, subprocess, sys, tempfile, os
imports = open(sys.argv[1]).read()
pairs = [a.split("=") for a in sys.argv[2:]]
src = imports + "\nSet Printing Width 110.\n" + "".join(f'Goal True. idtac "@@{n}". exact I. Qed.\nCheck {l}.\n' for n, l in pairs)
with tempfile.NamedTemporaryFile("w", suffix=".v", delete=False, dir="/verif/build") as f:
    f.write(src); path = f.name
r = subprocess.run(["coqc", "-Q", "/verif/coq", "NurbsV", path], capture_output=True, text=True)
os.unlink(path)
if r.returncode != 0:
    sys.exit(r.stdout + r.stderr)
chunks = re.split(r"@@(\w+)\n", r.stdout)
for i in range(1, len(chunks), 2):
    name, text = chunks[i], chunks[i + 1].strip()
    lemma = dict(pairs)[name]
    m = re.match(r"[\w.']+\s*:\s*(.*)", text, flags=re.S)
    ty = m.group(1).rstrip()
    print(f"Theorem {name} :\n  {ty}.\nProof. exact {lemma}. Qed.\nPrint Assumptions {name}.\n")
