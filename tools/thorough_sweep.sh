#!/bin/bash
# runs every claimed thorough check once (seed from $1, default 0); prints one line per check
cd "$(dirname "$0")/.."
export VERIF_EVIDENCE_DIR=$PWD/build/thorough_evidence; mkdir -p $VERIF_EVIDENCE_DIR
IDS=${@:2}
IDS=${IDS:-$(python3 -c "import json; print(' '.join(c['property_id'] for c in json.load(open('MANIFEST.json'))['checks']))")}
for id in $IDS; do
  /usr/bin/time -f "$id wall=%es" timeout 2700 env VERIF_SEED=${1:-0} ./check $id --tier thorough 2>&1 | grep -E "^C[0-9]+ \[|VIOLATION|CHECK-ERROR|wall=" | tr '\n' ' '; echo
done
