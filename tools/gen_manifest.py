#!/usr/bin/env python3
"""Writes /verif/MANIFEST.json from the table below (one entry per claimed property).
Run after adding or withdrawing a check:  python3 tools/gen_manifest.py"""
import json
from pathlib import Path

ROOT = Path(__file__).resolve().parent.parent

NOTE = ("Trusted base: Coq 8.16.1 kernel incl. vm_compute (no native_compute); no axioms (Print Assumptions of every "
        "theorem of Props/{id}.v is parsed on every run and must be 'Closed under the global context'; the audit greps for "
        "Admitted/admit/Axiom/Parameter/...); the hand-written Gallina model coq/Model/*.v, tied to /repo by the "
        "correspondence run of this check (implementation outputs vs model outputs, exact rationals, same run) and by "
        "coq/Gen/Consts.v regenerated from /repo/src on every run; harness/*.py (generators, Coq literal emitter, "
        "report parser); Python/numpy/fractions themselves. No extraction. ")

CLAIMED = {
    "C01": dict(
        text="Unbounded theorems (Props/C01.v): for every well-formed knot vector, every degree and multiplicity pattern, "
             "every control-point list and positive weight list and every u in [umin,umax], the model's Curve evaluation "
             "(span search + per-span power-basis table + Horner + matrix product) equals the Cox-de Boor definition of "
             "Spec/BSpline.v (right-continuous, left limit at umax); outside -> ValueError; sequence = map. The model is tied to "
             "the code by exact differential execution on exhaustive small shapes x structured node sets (knots, ends, "
             "midpoints, near-knot points, outside) x {polynomial, rational} x dimension, and every implementation value is also "
             "compared inside Coq with the specification itself (prop_ok), so a failing input is a concrete replay.",
        design="7/C01",
        technique="Coq proof (induction on degree over a span-local recursion) + model/implementation correspondence by vm_compute",
        note="Weights are restricted to positive ones in the theorem (weight function then provably has no zero); float inputs "
             "are not modelled; distinct knots closer than 1e-6 are outside the hypothesis (known finding K2)."),
    "C02": dict(
        text="Unbounded theorems (Props/C02.v): Function(U)[i,j](u) of the model equals Cox-de Boor N_i,j(u) (resp. the rational "
             "R_i,j) for all j <= p, all i incl. negative; N >= 0, N <= 1, support, partition of unity for every sub-degree; "
             "IndexError / ValueError rejections. Tie: exact differential execution of Function objects (all (i,j), slices, "
             "weights on/off) with spec-level oracle evaluated in Coq.",
        design="7/C02",
        technique="Coq proof (table_is_Nloc, partition of unity by induction) + correspondence by vm_compute",
        note="Slices are covered by the correspondence only (the theorems are stated for integer indices and whole rows)."),
    "C03": dict(
        text="Unbounded theorems (Props/C03.v): the validator implies well-formedness (sorted, clamped exactly p+1, interior "
             "multiplicity <= p+1, npts > p); every public KnotVector operation preserves it (induction over arbitrary operation "
             "histories), failed operations leave the state unchanged, span is sound/complete/unique, valid <-> in range, "
             "mult >= count with a machine-checked counterexample to equality (tolerance 1e-9). Tie: exhaustive constructor "
             "stream over {0,1/2,1,2}^<=6 and random operation histories compared step by step.",
        design="7/C03",
        technique="Coq proof (invariant by induction over operation sequences) + correspondence on histories by vm_compute",
        note="mult(u) counts knots within 1e-9 of u (so it is >= the exact count; equality holds for separated vectors: "
             "C03_mult_partial/C03_mult_refuted). GeneratorKnotVector.random is judged by prop_ok only."),
    "C04": dict(
        text="Unbounded theorems (Props/C04.v): Boehm's identity for every degree and index (induction on the degree); one "
             "insertion step, the composed matrix of knot_insert (several nodes, repeated nodes, any multiplicities) and the "
             "curve-level operation preserve the curve at EVERY u of the interval - C04_function_spline for polynomial curves of "
             "any dimension, C04_function_rational for weighted curves (weights and weight-scaled points transformed), positive "
             "weights stay positive; the new knot vector is sortq(old ++ nodes): sorted, a permutation, per-value counts add up, "
             "well-formed; outside nodes -> ValueError. Tie: exact differential execution (model vs Curve.knot_insert) on "
             "exhaustive shapes x node multisets incl. zero nodes, overflow, ends, outside, rational; every implementation result is "
             "also compared with the old curve by the exact function oracle inside Coq; refused requests must leave the state unchanged.",
        design="7/C04",
        technique="Coq proof (Boehm identity by induction on the degree, lifted to the model's matrices and curves) + correspondence and exact function oracle by vm_compute",
        note="The function theorems carry the hypothesis that the degree is unchanged (kdeg c' = cdeg c), which excludes only "
             "requests containing an end knot: the library re-infers the degree there and then refuses in apply (covered by the "
             "correspondence and by C04_nonvacuous_refused)."),
    "C05": dict(
        text="Theorems (Props/C05.v): after a successful knot_remove the old vector is the new one plus nodes (per-value counts, "
             "length), well-formed; absent knots refused with ValueError; a success under tolerance t certifies error <= t for "
             "the model's projection (never silently lossy); the inverse used by the projection is certified (M'M = MM' = I). "
             "Decided per generated case inside Coq: the implementation's new vector, refusal class and unchanged state; exact "
             "undo of a previous knot_insert (tuple equality with the original curve, for default / explicit / None tolerance); "
             "the exact integral of the squared deviation (open Newton-Cotes of sufficient order on every span, per coordinate) "
             "<= 2*tol*max(1,L); interpolation at all remaining knots for tolerance=None. Model of the constrained "
             "least-squares projection (Gram matrices, bordered solve) tied by exact differential execution.",
        design="7/C05",
        technique="Coq proof (knot-vector algebra, certified inverse, tolerance guard) + correspondence and exact deviation oracle by vm_compute",
        note="Polynomial curves only: the weighted (rational) projection of the library is lossy (known finding K1) and is kept "
             "out of the model. 'Succeeds whenever exactly removable' is decided per case (undo stream), not proved "
             "(needs positive-definiteness of the Gram matrix). tolerance=None interpolation is required for degree >= 1 "
             "only (a degree-0 piecewise constant cannot interpolate both ends of a merged span)."),
    "C07": dict(
        text="Theorems (Props/C07.v): pieces of the knot-vector split are well-formed; the refinement matrix used by split "
             "(insertion of every cut up to multiplicity degree+1) preserves the curve at every u (from the C04 development). "
             "Decided per generated case inside Coq with the exact function oracle: number, order, clamping and limits of "
             "the pieces, piece == curve on [a,b) (closed for the last piece), polynomial and rational, split() without argument, "
             "zero/repeated/unsorted/end/outside cuts, operand unchanged; A|B equals A on A's interval and B on B's interval "
             "(continuous and jump junctions, different degrees, rational operands, non-adjacent -> ValueError); split-then-join "
             "gives back the original function on the original knot vector (junction knots may keep a lower multiplicity). The "
             "model of Curve.split is tied by exact differential execution.",
        design="7/C07",
        technique="Coq proof (refinement preserves the curve; WF of pieces) + correspondence and exact function oracle by vm_compute",
        note="The restriction step of split (slicing the refined control points) and the join are decided by the per-case "
             "oracle, not yet by a for-all theorem (Proofs/SplitProofs.v in progress); join has no executable model yet "
             "(it goes through degree elevation and knot_clean), so its correspondence is oracle-only. Known finding K6: a "
             "rational join keeps the junction knot with full multiplicity."),
    "C11": dict(
        text="Decided per generated case inside Coq from the implementation's output: exact moments int (C-D) M_i du = 0 for every "
             "basis function of the target space (open Newton-Cotes of sufficient order per span - exact for the polynomial "
             "pieces), reproduction with error 0 for in-space sources (refined by insertion/elevation), returned error == kappa * "
             "exact integral of the squared residual of the worst coordinate (kappa = 1, or 1/2 with nodes), error >= 0 and 0 iff "
             "residual 0, interpolation at the nodes and residual moments in the row space of the collocation matrix "
             "(orthogonal to every element vanishing at the nodes), source unchanged. Theorems (Props/C11.v): certified inverse, "
             "normal equations / orthogonality / minimality of the discrete least-squares solve. Model of func2func tied by "
             "exact differential execution; the quadrature rule and span scaling it uses are read from the source.",
        design="7/C11",
        technique="Coq proof (certified linear solves, normal equations) + correspondence and exact orthogonality oracle by vm_compute",
        note="The lift of the normal equations to the model's Gram matrices (continuous projection) is in Proofs/LSProofs.v "
             "(in progress). Known finding K7: the quadrature has p+q+3 nodes, so for |p-q| >= 3 the returned error is "
             "not the exact integral; such pairs are outside the generated stream. Rational curves: K1."),
    "C17": dict(
        text="Unbounded theorems (Props/C17.v), for all well-formed operands whose distinct knots are >= 1e-6 apart: U|V has "
             "degree max(p,q) and, for every value x, multiplicity max of the degree-lifted multiplicities (per-knot maximum at "
             "equal degrees); it refines both operands, adds no new knot, is commutative and idempotent, succeeds exactly on "
             "equal intervals (ValueError otherwise); U&V has the per-knot minimum multiplicity and degree min(p,q); results are "
             "well-formed; and the model's result equals the closed form (spec_or) that every implementation output is compared "
             "with inside Coq. Tie: exhaustive small-scope pairs (all multiplicity vectors, shared/disjoint knots, different "
             "degrees, different intervals) executed on the implementation and the model.",
        design="7/C17",
        technique="Coq proof (invariant of the per-knot merge loops; counting argument) + correspondence by vm_compute",
        note="'Coarsest' is proved in the form 'no new knots and exactly the lifted multiplicities'; that no strictly coarser "
             "vector carries both spline spaces (linear independence) is not formalised. Knots closer than 1e-6 are "
             "outside the hypothesis `separated` (known finding K2)."),
    "C18": dict(
        text="Unbounded theorems (Props/C18.v): bezier/integer/uniform/weight/random (random = for every drawn positive weight "
             "list) succeed exactly on valid requests and return well-formed vectors with exactly the requested degree and npts, "
             "breakpoints 0,1,2,.. (integer), i/(n-p) (uniform), consecutive differences equal to the weights (weight), limits "
             "exactly [0,1] (bezier, uniform, random); shift/scale/normalize always succeed on well-formed vectors (scale <= 0 "
             "refused), map every knot affinely, keep degree, npts and every multiplicity, normalize lands on exactly [0,1]; "
             "Cox-de Boor functions of every degree and index and curves are invariant under these reparametrisations "
             "(kshift_basis, kscale_basis, knormalize_basis). Tie: differential execution of all generators and maps with "
             "Fraction class checked; the float clause (limits exactly (0,1) with float knots) is validated by a sweep.",
        design="7/C18",
        technique="Coq proof (WF of generators and affine maps; affine invariance by induction on the degree) + correspondence by vm_compute",
        note="Float clause is a test (sweep over n and random draws), not a theorem. The draw of random() is not reproduced; "
             "its spacing is read back from the result."),
}

PENDING_REASON = "check not built yet (framework under construction; see DESIGN.md section 7)"
NOT_APPLICABLE = {}


def main():
    props = [json.loads(l)["id"] for l in (ROOT / "properties.jsonl").read_text().splitlines() if l.strip()]
    checks, na = [], []
    for pid in props:
        if pid in CLAIMED:
            e = CLAIMED[pid]
            checks.append({
                "property_id": pid,
                "quick_cmd": f"./check {pid} --tier quick",
                "thorough_cmd": f"./check {pid} --tier thorough",
                "evidence_file": f"evidence/{pid}.json",
                "replay_cmd_template": f"./check {pid} --replay {{path}}",
                "level_claimed": {"category": "proof", "text": e["text"], "design_ref": e["design"]},
                "level_note": NOTE.replace("{id}", pid) + e["note"],
                "technique": e["technique"],
            })
        else:
            na.append({"property_id": pid, "reason": NOT_APPLICABLE.get(pid, PENDING_REASON)})
    hooks = json.loads((ROOT / "MANIFEST.json").read_text())["hooks"]
    man = {"version": 1, "setup_cmd": "./tools/setup.sh", "hooks": hooks, "checks": checks, "not_applicable": na}
    (ROOT / "MANIFEST.json").write_text(json.dumps(man, indent=1) + "\n")
    print(f"claimed {len(checks)}, not claimed {len(na)}")


if __name__ == "__main__":
    main()
