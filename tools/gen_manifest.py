#!/usr/bin/env python3
"""Writes /verif/MANIFEST.json from the table below (one entry per claimed property).
Run after adding or withdrawing a check:  python3 tools/gen_manifest.py"""
import json
from pathlib import Path

ROOT = Path(__file__).resolve().parent.parent

NOTE = ("Trusted base: Coq 8.16.1 kernel incl. vm_compute (no native_compute); no axioms (Print Assumptions of every "
        "theorem of Props/{id}.v is parsed on every run and must be 'Closed under the global context'; the audit greps for "
        "Admitted/admit/Axiom/Parameter/...); the hand-written Gallina model coq/Model/*.v, tied to /repo by the "
        "correspondence run of this check (implementation outputs vs model outputs, exact rationals, same run) and by "
        "coq/Gen/Consts.v regenerated from /repo/src on every run; harness/*.py (generators, Coq literal emitter, "
        "report parser); Python/numpy/fractions themselves. No extraction. ")

CLAIMED = {
    "C01": dict(
        text="Unbounded theorems (Props/C01.v): for every well-formed knot vector, every degree and multiplicity pattern, "
             "every control-point list and positive weight list and every u in [umin,umax], the model's Curve evaluation "
             "(span search + per-span power-basis table + Horner + matrix product) equals the Cox-de Boor definition of "
             "Spec/BSpline.v (right-continuous, left limit at umax); outside -> ValueError; sequence = map. The model is tied to "
             "the code by exact differential execution on exhaustive small shapes x structured node sets (knots, ends, "
             "midpoints, near-knot points, outside) x {polynomial, rational} x dimension, and every implementation value is also "
             "compared inside Coq with the specification itself (prop_ok), so a failing input is a concrete replay.",
        design="7/C01",
        technique="Coq proof (induction on degree over a span-local recursion) + model/implementation correspondence by vm_compute",
        note="Weights are restricted to positive ones in the theorem (weight function then provably has no zero); float inputs "
             "are not modelled; distinct knots closer than 1e-6 are outside the hypothesis (known finding K2)."),
    "C02": dict(
        text="Unbounded theorems (Props/C02.v): Function(U)[i,j](u) of the model equals Cox-de Boor N_i,j(u) (resp. the rational "
             "R_i,j) for all j <= p, all i incl. negative; N >= 0, N <= 1, support, partition of unity for every sub-degree; "
             "IndexError / ValueError rejections; the basis is linearly independent (locally on every non-empty span, and "
             "over every well-formed vector: coefficients are determined by the function). Tie: exact differential execution of Function objects (all (i,j), slices, "
             "weights on/off) with spec-level oracle evaluated in Coq.",
        design="7/C02",
        technique="Coq proof (table_is_Nloc, partition of unity by induction) + correspondence by vm_compute",
        note="Slices are covered by the correspondence only (the theorems are stated for integer indices and whole rows)."),
    "C03": dict(
        text="Unbounded theorems (Props/C03.v): the validator implies well-formedness (sorted, clamped exactly p+1, interior "
             "multiplicity <= p+1, npts > p); every public KnotVector operation preserves it (induction over arbitrary operation "
             "histories), failed operations leave the state unchanged, span is sound/complete/unique, valid <-> in range, "
             "mult >= count with a machine-checked counterexample to equality (tolerance 1e-9). Tie: exhaustive constructor "
             "stream over {0,1/2,1,2}^<=6 and random operation histories compared step by step.",
        design="7/C03",
        technique="Coq proof (invariant by induction over operation sequences) + correspondence on histories by vm_compute",
        note="mult(u) counts knots within 1e-9 of u (so it is >= the exact count; equality holds for separated vectors: "
             "C03_mult_partial/C03_mult_refuted). GeneratorKnotVector.random is judged by prop_ok only."),
    "C04": dict(
        text="Unbounded theorems (Props/C04.v): Boehm's identity for every degree and index (induction on the degree); one "
             "insertion step, the composed matrix of knot_insert (several nodes, repeated nodes, any multiplicities) and the "
             "curve-level operation preserve the curve at EVERY u of the interval - C04_function_spline for polynomial curves of "
             "any dimension, C04_function_rational for weighted curves (weights and weight-scaled points transformed), positive "
             "weights stay positive; the new knot vector is sortq(old ++ nodes): sorted, a permutation, per-value counts add up, "
             "well-formed; outside nodes -> ValueError. Tie: exact differential execution (model vs Curve.knot_insert) on "
             "exhaustive shapes x node multisets incl. zero nodes, overflow, ends, outside, rational; every implementation result is "
             "also compared with the old curve by the exact function oracle inside Coq; refused requests must leave the state unchanged.",
        design="7/C04",
        technique="Coq proof (Boehm identity by induction on the degree, lifted to the model's matrices and curves) + correspondence and exact function oracle by vm_compute",
        note="The function theorems carry the hypothesis that the degree is unchanged (kdeg c' = cdeg c), which excludes only "
             "requests containing an end knot: the library re-infers the degree there and then refuses in apply (covered by the "
             "correspondence and by C04_nonvacuous_refused)."),
    "C05": dict(
        text="Unbounded theorems (Props/C05.v): knot_remove UNDOES knot_insert exactly - same control points, same knot vector, "
             "zero error, accepted under every tolerance (only a failed certificate of the model's inverse could refuse), for all "
             "polynomial curves, node multisets and dimensions (from Boehm: the projection matrix, unconstrained and "
             "interpolation-constrained, is a left inverse of the insertion matrix); after any successful knot_remove the old "
             "vector is the new one plus nodes, well-formed; absent knots refused; a success under tolerance t certifies error <= t "
             "(never silently lossy); certified inverse. "
             "Decided per generated case inside Coq: the implementation's new vector, refusal class and unchanged state; exact "
             "undo of a previous knot_insert (tuple equality with the original curve, for default / explicit / None tolerance); "
             "the exact integral of the squared deviation (open Newton-Cotes of sufficient order on every span, per coordinate) "
             "<= 2*tol*max(1,L); interpolation at all remaining knots for tolerance=None. Model of the constrained "
             "least-squares projection (Gram matrices, bordered solve) tied by exact differential execution.",
        design="7/C05",
        technique="Coq proof (knot-vector algebra, certified inverse, tolerance guard) + correspondence and exact deviation oracle by vm_compute",
        note="Continuous-projection theorems (normal equations, error = squared residual, interpolation and multiplier form of the "
             "constrained fit) are in Props/C11.v. Polynomial curves only: the weighted (rational) projection of the library is lossy (known finding K1) and is kept "
             "out of the model. 'Succeeds whenever exactly removable' is proved both for knots that come from an insertion "
             "(C05_undo_always_accepted) and semantically - whenever SOME coefficient list over the coarser vector gives the same "
             "function, removal is accepted under every tolerance and returns it (C05_removable_*, through linear independence of "
             "B-splines) - up to the model's inverse certificates (positive-definiteness of the Gram matrix is not "
             "proved; the correspondence run counts Uncertified = 0). tolerance=None interpolation is required for degree >= 1 "
             "only (a degree-0 piecewise constant cannot interpolate both ends of a merged span); that clause is also proved for the model "
             "(C05_forced_removal_*: always succeeds on compatible vectors, interpolates at every remaining knot)."),
    "C06": dict(
        text="Unbounded theorems (Props/C06.v): on a Bezier knot vector the Cox-de Boor basis is the Bernstein basis (closed "
             "form, every degree); the model's elevation matrix preserves the curve at every u for one step and for t steps, "
             "scalar and vector-valued control points; degree_decrease UNDOES degree_increase exactly on Bezier curves (same control "
             "points and vector, zero error, accepted under every tolerance); a reduction accepted under tolerance t certifies "
             "error <= t. Decided "
             "per generated case inside Coq: degree +t, every distinct knot's multiplicity +t, exact function equality "
             "(oracle) for Bezier, multi-span, repeated-knot, full-multiplicity and rational curves, method and setter form; "
             "t <= 0 refused; elevate-then-reduce restores the curve exactly (tuple equality); generic reduction refused "
             "with ValueError and unchanged state under the default tolerance, bounded exact squared deviation under a "
             "given tolerance, interpolation at the remaining knots for tolerance=None. Model of split/elevate/remove and "
             "of the projection tied by exact differential execution.",
        design="7/C06",
        technique="Coq proof (Bernstein form of the Bezier basis, elevation identity by induction) + correspondence and exact function oracle by vm_compute",
        note="The multi-span elevation (split, elevate pieces, remove the inserted knots by least squares) is covered by the "
             "per-case oracle; its for-all theorem would need the exactness of that removal (positive-definite Gram "
             "matrix), not proved. Rational reduction: K1."),
    "C07": dict(
        text="Theorems (Props/C07.v): pieces of the knot-vector split are well-formed; the refinement matrix used by split "
             "(insertion of every cut up to multiplicity degree+1) preserves the curve at every u (from the C04 development). "
             "Decided per generated case inside Coq with the exact function oracle: number, order, clamping and limits of "
             "the pieces, piece == curve on [a,b) (closed for the last piece), polynomial and rational, split() without argument, "
             "zero/repeated/unsorted/end/outside cuts, operand unchanged; A|B equals A on A's interval and B on B's interval "
             "(continuous and jump junctions, different degrees, rational operands, non-adjacent -> ValueError); split-then-join "
             "gives back the original function on the original knot vector (junction knots may keep a lower multiplicity). The "
             "model of Curve.split is tied by exact differential execution.",
        design="7/C07",
        technique="Coq proof (refinement preserves the curve; WF of pieces) + correspondence and exact function oracle by vm_compute",
        note="The restriction step of split (slicing the refined control points) and the join are decided by the per-case "
             "oracle, not yet by a for-all theorem (Proofs/SplitProofs.v in progress); join has no executable model yet "
             "(it goes through degree elevation and knot_clean), so its correspondence is oracle-only. Known finding K6: a "
             "rational join keeps the junction knot with full multiplicity."),
    "C08": dict(
        text="Decided per generated case inside Coq: for every operator form (+ - * / @ unary -, scalar and vector operands on "
             "either side, numerators s != 1, matrix on the right) the implementation's result curve is evaluated through the "
             "Cox-de Boor specification and compared with the pointwise expression of the operands at 2(p+q)+3 points of every "
             "span of the merged knots, every knot and both ends (exact for the polynomial and rational pieces involved); "
             "operands unchanged; different intervals -> ValueError. Model of +, -, *, /, scalar forms for polynomial operands "
             "(common refinement, change-of-basis matrices, product knot vector from continuity classes, collocation solve) tied "
             "by exact differential execution. Unbounded theorems (Props/C08.v): -A, s*A, A/s, A+s (vector s) are pointwise "
             "for polynomial AND rational curves at every u; A+B, A-B, A/B and s/A are pointwise at every u given change-of-basis "
             "matrices that preserve the operands (knot-insertion matrices do: C08_knot_insertion_refines); zero divisors refused; "
             "the union vector refines both operands; different intervals refused; the product coefficients are the least-squares "
             "solution of the collocation system (minimal, exact whenever an exact solution exists).",
        design="7/C08",
        technique="Coq proof (refinement, change of basis, certified collocation solve) + correspondence and exact pointwise oracle by vm_compute",
        note="PART: the for-all-u statement for products needs polynomial root counting (not formalised); rational operands "
             "and @ are decided by the oracle only (no executable model). Known findings: K3 (A/B when a refined control "
             "value of B vanishes), K4 (numpy array on the left of a curve)."),
    "C09": dict(
        text="Decided per generated case inside Coq from the implementation's output: for polynomial curves, on every span of "
             "the merged knots and at deg+2 interior points x, int_a^x D du (open Newton-Cotes of sufficient order, proved exact "
             "on the polynomial pieces in C10) equals C(x) - C(a) - which forces D = C' on the span (a polynomial of degree <= m "
             "with m+1 roots); degree 0 gives the zero curve; for rational curves D W^2 = N' W - N W' at 4p+3 points per span with "
             "N', W' the exact model derivatives (themselves checked by the integral identity); same interval; C unchanged. "
             "Model of Derivate for polynomial curves (difference matrix, removal of full-multiplicity knots, Bezier path with "
             "clean()) tied by differential execution within 1e-9 (the library computes the quotients in float64).",
        design="7/C09",
        technique="Coq proof (derivative formula by induction on the degree, summation by parts; exactness of the oracle's quadrature) + correspondence and integral-identity oracle by vm_compute",
        note="Unbounded theorems (Props/C09.v): dNloc is the derivative of the span-local basis polynomial (Taylor form with "
             "explicit remainder; epsilon-delta statement over Q), the derivative formula for every degree and index, and by "
             "summation by parts the derivative of a curve is the degree p-1 curve whose coefficients are exactly the model's "
             "difference_points (C09_model_curve_derivative); the quotient rule for NURBS values: rational_spec has the derivative "
             "(N'W - N W')/W^2 on every open span wherever W <> 0 (C09_quotient_rule_*, epsilon-delta over Q). Not proved: the "
             "bookkeeping of removed full-multiplicity knots, and that the library's rational Derivate (built from curve products) "
             "returns a curve with those values (oracle per case). Floats: the result of Derivate is float even for Fraction input "
             "(not among the operations C16 requires to be exact), hence the 1e-9 comparison."),
    "C10": dict(
        text="Unbounded theorems (Props/C10.v), for EVERY n: the interpolatory weights the model computes (inverse of the "
             "Bernstein collocation matrix, certified) integrate the whole Bernstein basis and every monomial of degree < n "
             "exactly and sum to 1; closed/open nodes are the advertised equally spaced, strictly increasing points of [0,1]; "
             "every literal entry of the source's closed/open Newton-Cotes tables (regenerated from /repo on every run) "
             "equals the computed rule; and for every sequence of requests the answer to any request equals the answer of a "
             "fresh process (memo tables never change an answer); a rule exact on the monomials below n integrates EVERY "
             "polynomial with at most n coefficients exactly over every interval (polynomials with the exact integral pint, "
             "fundamental theorem, additivity, affine substitution by the chain rule). Tie: sessions of requests in random order inside one "
             "interpreter compared with the model run over the same session; each returned rule is re-checked for exactness "
             "in Coq; Integrate.scalar (default, closed, open rules) compared with sum_i P_i (u_(i+p+1)-u_i)/(p+1).",
        design="7/C10",
        technique="Coq proof (Bernstein moment identities, hockey-stick, invariant over request histories) + correspondence by vm_compute",
        note="Chebyshev and Gauss-Legendre rules have irrational nodes and exist only as floats in the library: validated "
             "numerically (exactness order, ordering, weight sum, 1e-8), not proved; the literal Fraction entries of their "
             "tables likewise. Integrate.lenght and the float methods of Integrate.scalar are float tests."),
    "C11": dict(
        text="Decided per generated case inside Coq from the implementation's output: exact moments int (C-D) M_i du = 0 for every "
             "basis function of the target space (open Newton-Cotes of sufficient order per span - exact for the polynomial "
             "pieces), reproduction with error 0 for in-space sources (refined by insertion/elevation), returned error == kappa * "
             "exact integral of the squared residual of the worst coordinate (kappa = 1, or 1/2 with nodes), error >= 0 and 0 iff "
             "residual 0, interpolation at the nodes and residual moments in the row space of the collocation matrix "
             "(orthogonal to every element vanishing at the nodes), source unchanged. Unbounded theorems (Props/C11.v) about the model: normal equations "
             "GG T = GF, returned error = <x,x> - <Tx,Tx> (Pythagoras), reproduction of sources that lie in the target space "
             "at the quadrature nodes (T = R^T for refinements, T S^T = I), interpolation at the nodes, Lagrange-multiplier form "
             "of the constrained optimum and orthogonality to every element vanishing at the nodes, constrained error = 1/2 "
             "squared distance, too many nodes refused. Model of func2func tied by "
             "exact differential execution; the quadrature rule and span scaling it uses are read from the source.",
        design="7/C11",
        technique="Coq proof (certified linear solves, normal equations) + correspondence and exact orthogonality oracle by vm_compute",
        note="That the model's quadrature inner product IS the exact L2 product is proved (C11_gram_matrices_are_L2_products: "
             "B-splines are polynomials on a span, each cell's rule is the exact integral of the product, Gram entries are sums of exact "
             "integrals over the common partition - GF always, FF / GG for degree gaps <= 2; knots closer than the 1e-6 identity tolerance "
             "excluded) and also decided per case by the oracle. Known finding K7: the quadrature has p+q+3 nodes, so for |p-q| >= 3 the returned error is "
             "not the exact integral; such pairs are outside the generated stream. Rational curves: K1."),
    "C12": dict(
        text="Unbounded theorems (Props/C12.v) about the model's fit_function (collocation rows from the model's basis "
             "evaluation - proved equal to the Cox-de Boor / rational specification in C01/C02 - and the certified normal-"
             "equation solve): residual orthogonal to every column of the collocation matrix, minimality of the sum of "
             "squares over ALL coefficient vectors, exact reproduction of data sampled from the space, interpolation when "
             "len(points) = npts, fewer points refused. Tie and per-case oracle: fit_points / fit_function of the "
             "implementation (explicit, default and fit_function's own nodes; weights on/off; dimension 1-2) compared "
             "with the model and, independently, with the normal equations evaluated from the specification's basis.",
        design="7/C12",
        technique="Coq proof (normal equations, Pythagoras, certified inverse) + correspondence by vm_compute",
        note="Non-unisolvent node sets make the normal matrix singular; the implementation's ZeroDivisionError is accepted "
             "exactly when the model certifies singularity. Float nodes (Chebyshev defaults for float knots) are outside the model."),
    "C13": dict(
        text="Decided per generated case inside Coq: A == B, B == A, A != B, A == A and comparisons with non-curves, for a "
             "curve and copies refined by knot insertion / degree elevation (both operand orders), copies with one refined "
             "control point moved by 1e-3 (must differ) or 1e-12 (within tolerance), independent curves, different intervals - "
             "against exact function equality computed from the Cox-de Boor specification (oracle), symmetry, negation, "
             "operands unchanged. Theorems (Props/C13.v): different ends -> False; a True answer certifies that both "
             "operands were projected onto the union knot vector within tolerance and the projected control points are "
             "pairwise within 1e-9; a False answer exhibits a pair further apart; the union vector refines both operands; "
             "projection onto a refinement is exact (left inverse). Model tied by exact differential execution.",
        design="7/C13",
        technique="Coq proof (certificates of the model's equality test; union refinement; exact projection) + correspondence and exact function oracle by vm_compute",
        note="Also proved (Props/C13.v): the test is reflexive; if B is A with knots inserted then A == B and B == A are both "
             "True (separated knots; given the model's inverse certificates); COMPLETENESS at equal degree: two polynomial "
             "curves of the same degree that are the same function never compare unequal, and compare equal when the projections "
             "succeed (C13_complete_equal_degree*, through linear independence of B-splines). PART: completeness across different "
             "degrees and invariance under degree elevation need exactness of multi-span elevation and are decided per case by the oracle. Rational operands: "
             "the library's weighted projection is lossy (K1) - kept out of the stream."),
    "C14": dict(
        text="Decided per generated case inside Coq: a curve with control points in general position (its own minimal "
             "representation) is refined by the implementation through a random history of knot insertions and degree "
             "elevations; then clean() must return exactly the starting knot vector and control points, knot_clean / "
             "degree_clean the corresponding partial results, every call must leave the function unchanged (exact oracle) and "
             "a second call must change nothing. The model of the clean loops (explicit fuel = length of the knot vector) "
             "is tied by exact differential execution. Theorems (Props/C14.v): each accepted step removes exactly the "
             "named knot copy and certifies error <= tolerance; projection onto a space that contains the curve is exact.",
        design="7/C14",
        technique="Coq proof (per-step certificates, termination bound) + correspondence and exact function oracle by vm_compute",
        note="PART: idempotence and minimality as for-all statements need the uniqueness of the minimal B-spline representation "
             "(not formalised); they are decided per case. Rational curves: K1."),
    "C15": dict(
        text="Decided per generated history inside Coq: 1-8 public Curve operations over three curves (two sharing one KnotVector "
             "object, one a deep copy or independent), ~35% invalid arguments; after EVERY call every curve and every KnotVector "
             "object is snapshotted and Coq checks: the invariant (well-formed vector, len(ctrlpoints) = npts, equal point "
             "dimensions, len(weights) = npts), evaluability at umin / middle / umax, atomicity (a raising call leaves all "
             "snapshots equal), purity of non-mutating calls (evaluation, arithmetic, ==, split, fraction, copy-then-mutate, "
             "Derivate, Integrate, fitting another curve), frame (a mutator changes its own curve only; the KnotVector objects "
             "handed to constructors never change). The model's mutators (insert, remove, degree ops, setters, clean family) "
             "predict the new state of the target curve (exact differential execution step by step). Theorems (Props/C15.v): "
             "insertion keeps lengths and well-formedness (polynomial and rational), removal/update rebind to a well-formed "
             "vector, a consistent polynomial curve evaluates at every u of its interval.",
        design="7/C15",
        technique="Coq proof (invariant by induction over operation histories, atomicity) + state-machine correspondence on operation histories by vm_compute",
        note="Unbounded theorems (Props/C15.v): for the model's state machine over 12 mutators the invariant holds in every state "
             "reachable by any operation sequence (induction over histories), failing steps leave the state unchanged, and every "
             "reachable polynomial state with control points evaluates at every u of its interval; the invariant needs 'weights "
             "only with control points' (machine-checked counterexample without it). Aliasing (reference semantics of KnotVector "
             "objects, copies) is observed through snapshots, not modelled."),
    "C16": dict(
        text="Decided per generated case: each logical operation (evaluation, basis functions, knot insertion and its removal, "
             "degree elevation and its reduction, split and join, + - * /, fit_curve, fit_points, default integration) is run "
             "with Fraction data, with int control points where integral, with Python floats, with numpy.float64 and "
             "(evaluation, insertion, elevation, split) with control points of a class that only implements point + point and "
             "scalar * point; every returned number is collected: the exact runs must contain only int/Fraction and agree "
             "exactly with each other (compared in Coq), the float runs must agree within relative 1e-9, the generic-point run "
             "must agree exactly. That the exact value is the mathematically exact one is the content of the value theorems of "
             "C01, C02, C04-C08, C10-C12 (each tied by its own correspondence). Theorems (Props/C16.v): the specification and "
             "the model's evaluation do not depend on how a rational is written (invariance under == of parameters and knots), "
             "and the model's values are the exact Cox-de Boor / NURBS values.",
        design="7/C16",
        technique="Coq proof (setoid invariance of specification and model; exact-value theorems) + cross-representation differential execution compared by vm_compute",
        note="PART: the float clause and the 'only + and scalar*' clause are tests on the implementation (well-conditioned "
             "generator: degree <= 3, uniform knots, weights in [1/2, 4]); the model is not parameterised over an abstract "
             "point type. Derivate is outside C16's list and does return floats."),
    "C17": dict(
        text="Unbounded theorems (Props/C17.v), for all well-formed operands whose distinct knots are >= 1e-6 apart: U|V has "
             "degree max(p,q) and, for every value x, multiplicity max of the degree-lifted multiplicities (per-knot maximum at "
             "equal degrees); it refines both operands, adds no new knot, is commutative and idempotent, succeeds exactly on "
             "equal intervals (ValueError otherwise); U&V has the per-knot minimum multiplicity and degree min(p,q); results are "
             "well-formed; and the model's result equals the closed form (spec_or) that every implementation output is compared "
             "with inside Coq. Tie: exhaustive small-scope pairs (all multiplicity vectors, shared/disjoint knots, different "
             "degrees, different intervals) executed on the implementation and the model.",
        design="7/C17",
        technique="Coq proof (invariant of the per-knot merge loops; counting argument) + correspondence by vm_compute",
        note="'Coarsest' is proved in the form 'no new knots and exactly the lifted multiplicities'; that no strictly coarser "
             "vector carries both spline spaces (linear independence) is not formalised. Knots closer than 1e-6 are "
             "outside the hypothesis `separated` (known finding K2)."),
    "C18": dict(
        text="Unbounded theorems (Props/C18.v): bezier/integer/uniform/weight/random (random = for every drawn positive weight "
             "list) succeed exactly on valid requests and return well-formed vectors with exactly the requested degree and npts, "
             "breakpoints 0,1,2,.. (integer), i/(n-p) (uniform), consecutive differences equal to the weights (weight), limits "
             "exactly [0,1] (bezier, uniform, random); shift/scale/normalize always succeed on well-formed vectors (scale <= 0 "
             "refused), map every knot affinely, keep degree, npts and every multiplicity, normalize lands on exactly [0,1]; "
             "Cox-de Boor functions of every degree and index and curves are invariant under these reparametrisations "
             "(kshift_basis, kscale_basis, knormalize_basis). Tie: differential execution of all generators and maps with "
             "Fraction class checked; the float clause (limits exactly (0,1) with float knots) is validated by a sweep.",
        design="7/C18",
        technique="Coq proof (WF of generators and affine maps; affine invariance by induction on the degree) + correspondence by vm_compute",
        note="Float clause is a test (sweep over n and random draws), not a theorem. The draw of random() is not reproduced; "
             "its spacing is read back from the result."),
    "C19": dict(
        text="On the piecewise-linear class (degree-1 curves with simple knots, planar or spatial) the library's Newton iteration "
             "is exact after one step, and the exact model (per piece clamp((P-A).(B-A)/|B-A|^2), candidates, exact ties) is "
             "compared with the implementation within 1e-6 as a set of parameters; independently Coq checks the property on the "
             "returned floats: non-empty, sorted, inside [umin,umax], every returned parameter within 1e-6 (in distance, via "
             "rational square-root bounds) of the exact minimum over all pieces; curve unchanged. Points on the curve, beyond "
             "the ends, far away and exact ties are generated.",
        design="7/C19",
        technique="Coq proof (exact polyline model; minimality per piece by convexity) + correspondence within rounding by vm_compute",
        note="Unbounded theorems (Props/C19.v) about the exact model: per piece the clamped foot point minimises the distance "
             "over the whole piece (convexity), the result of the polyline projection is non-empty, sorted, inside the interval, "
             "every returned parameter attains the minimum over ALL pieces and ALL parameters, and a point of the curve projects "
             "onto parameters whose image is that point. PART: general curved pieces (floating Newton from 5 starts) are outside "
             "the model and not claimed to be decided. The stream also holds the same polylines as degree-1 NURBS with random "
             "weights (exact parameter warp in the check), curves whose control points were replaced after a first projection, and "
             "polylines with a zero-length piece (the former known finding K5, repaired in /repo as F22)."),
    "C20": dict(
        text="Exact model of the intersection of planar polylines (pairwise line intersection with parameter tests, duplicates "
             "removed) compared with the implementation: every returned pair must lie in both intervals, be a meeting point "
             "(|A(t)-B(u)| <= 2e-6, exact evaluation of the polylines at the returned floats), be near a meeting point of the "
             "model, not repeat another pair, and every transversal crossing in the interior of two pieces must be reported; "
             "curves that do not meet (far apart, parallel pieces, misses by 3e-6 .. 5e-4) must give the empty tuple; a straight "
             "segment stored as a rational quadratic with an interior knot is evaluated with the exact NURBS specification; "
             "curves unchanged.",
        design="7/C20",
        technique="Coq proof (exact segment-intersection model: soundness and completeness for transversal pieces) + correspondence within rounding by vm_compute",
        note="PART: curved pieces (2-D Newton from a grid of starts) are outside the model; touching at a vertex or end point "
             "is not promised by the property and may be missed by the library (accepted). Unbounded theorems (Props/C20.v) about "
             "the exact model: every reported pair lies in both intervals and is a meeting point; every transversal meeting of two "
             "pieces is reported; no pair twice; disjoint polylines give the empty list."),
}

PENDING_REASON = "check not built yet (framework under construction; see DESIGN.md section 7)"
NOT_APPLICABLE = {}


def main():
    props = [json.loads(l)["id"] for l in (ROOT / "properties.jsonl").read_text().splitlines() if l.strip()]
    checks, na = [], []
    for pid in props:
        if pid in CLAIMED:
            e = CLAIMED[pid]
            checks.append({
                "property_id": pid,
                "quick_cmd": f"./check {pid} --tier quick",
                "thorough_cmd": f"./check {pid} --tier thorough",
                "evidence_file": f"evidence/{pid}.json",
                "replay_cmd_template": f"./check {pid} --replay {{path}}",
                "level_claimed": {"category": "proof", "text": e["text"], "design_ref": e["design"]},
                "level_note": NOTE.replace("{id}", pid) + e["note"],
                "technique": e["technique"],
            })
        else:
            na.append({"property_id": pid, "reason": NOT_APPLICABLE.get(pid, PENDING_REASON)})
    hooks = json.loads((ROOT / "MANIFEST.json").read_text())["hooks"]
    man = {"version": 1, "setup_cmd": "./tools/setup.sh", "hooks": hooks, "checks": checks, "not_applicable": na}
    (ROOT / "MANIFEST.json").write_text(json.dumps(man, indent=1) + "\n")
    print(f"claimed {len(checks)}, not claimed {len(na)}")


if __name__ == "__main__":
    main()
