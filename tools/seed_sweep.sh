#!/bin/bash
# runs every claimed quick check under several seeds (false-alarm hunt); usage: seed_sweep.sh "1 2 3" [ids...]
cd "$(dirname "$0")/.."
SEEDS=${1:-"1 2 3 4 5"}; shift
IDS=${@:-$(python3 -c "import json; print(' '.join(c['property_id'] for c in json.load(open('MANIFEST.json'))['checks']))")}
export VERIF_EVIDENCE_DIR=$PWD/build/sweep_evidence; mkdir -p $VERIF_EVIDENCE_DIR
for id in $IDS; do for s in $SEEDS; do
  echo -n "seed=$s "; VERIF_SEED=$s ./check $id --tier quick 2>&1 | grep -E "^C[0-9]+ \[|VIOLATION|CHECK-ERROR" | tr '\n' ' '; echo
done; done
