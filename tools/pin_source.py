#!/usr/bin/env python3
"""Fingerprints of every function of the library source (AST without docstrings, so comments and formatting do not count).

  pin_source.py write [srcdir]   -> pins/source_functions.json  (run on the unchanged tree after every fix: commit)
  pin_source.py diff  [srcdir]   -> prints the functions whose body differs from the pinned one (one per line)

The check uses the difference only to decide HOW MUCH to run: when functions differ from the pinned tree the quick tier
triples its generated stream (harness/main.py).  A difference is never a verdict by itself."""
import ast, hashlib, json, os, sys, warnings
from pathlib import Path

ROOT = Path(__file__).resolve().parent.parent
PINS = ROOT / "pins" / "source_functions.json"


def _strip_doc(node):
    for n in ast.walk(node):
        if isinstance(n, (ast.FunctionDef, ast.AsyncFunctionDef, ast.ClassDef, ast.Module)):
            b = n.body
            if b and isinstance(b[0], ast.Expr) and isinstance(getattr(b[0], "value", None), ast.Constant) \
                    and isinstance(b[0].value.value, str):
                n.body = b[1:] or [ast.Pass()]
    return node


def fingerprints(srcdir):
    out = {}
    pkg = Path(srcdir) / "compmec" / "nurbs"
    for f in sorted(pkg.glob("*.py")):
        try:
            with warnings.catch_warnings():
                warnings.simplefilter("ignore")
                tree = _strip_doc(ast.parse(f.read_text()))
        except SyntaxError as e:
            out[f.name + ":<syntax>"] = str(e)
            continue

        def visit(node, prefix):
            for ch in ast.iter_child_nodes(node):
                if isinstance(ch, (ast.FunctionDef, ast.AsyncFunctionDef)):
                    out[f"{f.name}:{prefix}{ch.name}"] = hashlib.sha256(ast.unparse(ch).encode()).hexdigest()[:16]
                    visit(ch, prefix + ch.name + ".")
                elif isinstance(ch, ast.ClassDef):
                    visit(ch, prefix + ch.name + ".")
        visit(tree, "")
        # module-level statements other than defs (constants, tables)
        rest = [ast.unparse(n) for n in tree.body if not isinstance(n, (ast.FunctionDef, ast.AsyncFunctionDef, ast.ClassDef))]
        out[f.name + ":<module>"] = hashlib.sha256("".join(rest).encode()).hexdigest()[:16]
    return out


def changed(srcdir):
    if not PINS.exists():
        return None
    old = json.loads(PINS.read_text())
    if old.pop("<python>", None) != sys.version.split()[0]:
        return None              # pinned under another interpreter: the normalised source may print differently
    new = fingerprints(srcdir)
    return sorted(k for k in set(old) | set(new) if old.get(k) != new.get(k))


if __name__ == "__main__":
    cmd = sys.argv[1] if len(sys.argv) > 1 else "diff"
    src = sys.argv[2] if len(sys.argv) > 2 else os.path.join(os.environ.get("VERIF_REPO", "/repo"), "src")
    if cmd == "write":
        PINS.parent.mkdir(exist_ok=True)
        PINS.write_text(json.dumps(dict(fingerprints(src), **{"<python>": sys.version.split()[0]}), indent=1, sort_keys=True))
        print("pinned", len(fingerprints(src)), "entries")
    else:
        for k in changed(src) or []:
            print(k)
