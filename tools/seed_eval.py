#!/usr/bin/env python3
"""Evaluate one seeded change:  seed_eval.py <PROP> <k> [--checks C03,C15] [--tier quick]
Takes /tmp/wt/<PROP>/out/mut<k>.diff + demo<k>.py + note<k>.txt (written by an independent sub-agent),
confirms in the scratch worktree that the demo passes on the pristine tree, that the existing suite
passes with the change and the demo fails with it; then applies the change to /repo, runs our checks,
reverts /repo, and records everything in /verif/seeded/<PROP>-m<k>/ (patch.diff, demo.py, meta.json)."""
import argparse, json, os, shutil, subprocess, sys, time
from pathlib import Path

ROOT = Path(__file__).resolve().parent.parent


def sh(cmd, cwd=None, env=None, timeout=3600):
    r = subprocess.run(cmd, shell=True, cwd=cwd, env=env, capture_output=True, text=True, timeout=timeout)
    return r.returncode, (r.stdout + r.stderr)


def main():
    ap = argparse.ArgumentParser()
    ap.add_argument("prop"); ap.add_argument("k")
    ap.add_argument("--checks"); ap.add_argument("--tier", default="quick")
    ap.add_argument("--src")
    ap.add_argument("--offset", type=int, default=0)
    a = ap.parse_args()
    prop, k = a.prop, a.k
    wt = Path(a.src or f"/tmp/wt/{prop}")
    out = wt / "out"
    dest = ROOT / "seeded" / f"{prop}-m{int(k) + a.offset}"
    dest.mkdir(parents=True, exist_ok=True)
    if (out / f"mut{k}.diff").exists():
        shutil.copy(out / f"mut{k}.diff", dest / "patch.diff")
        shutil.copy(out / f"demo{k}.py", dest / "demo.py")
        if (out / f"note{k}.txt").exists():
            shutil.copy(out / f"note{k}.txt", dest / "note.txt")
    meta = {"property": prop, "seed_id": f"{prop}-m{int(k) + a.offset}", "evaluated_at": time.strftime("%Y-%m-%d %H:%M:%S")}
    env = dict(os.environ, PYTHONPATH=f"{wt}/src")
    # 1. scratch worktree: pristine demo, suite with change, demo with change
    sh("git checkout -- src", cwd=wt)
    rc, o = sh(f"/venv/bin/python -W ignore {dest}/demo.py", cwd=wt, env=env, timeout=600)
    meta["demo_pristine"] = {"rc": rc, "tail": o[-300:]}
    rc, o = sh(f"git apply {dest}/patch.diff", cwd=wt)
    meta["applies_in_worktree"] = rc == 0
    # the pinned suite has one randomised test (test_knotclean_random) that fails about once in 300 runs on the unchanged
    # tree too: a failing run is repeated (up to 3 runs), every summary line is recorded
    runs = []
    for _ in range(3):
        rc, o = sh("/venv/bin/python -W ignore -m pytest -q -p no:cacheprovider --timeout=900 2>&1 | tail -3", cwd=wt, env=env)
        runs.append(o.strip().splitlines()[-1] if o.strip() else "")
        if "passed" in runs[-1] and "failed" not in runs[-1]:
            break
    meta["suite_with_change"] = runs[-1]
    meta["suite_runs"] = runs
    rc, o = sh(f"/venv/bin/python -W ignore {dest}/demo.py", cwd=wt, env=env, timeout=600)
    meta["demo_mutated"] = {"rc": rc, "tail": o[-600:]}
    sh("git checkout -- src", cwd=wt)
    meta["confirmed"] = (meta["demo_pristine"]["rc"] == 0 and meta["demo_mutated"]["rc"] != 0
                         and "passed" in meta["suite_with_change"] and "failed" not in meta["suite_with_change"])
    # 2. /repo: apply, run checks, revert
    checks = (a.checks.split(",") if a.checks else [prop])
    rc, o = sh("git status --porcelain", cwd="/repo")
    if o.strip():
        print("/repo is not clean; refusing", o); sys.exit(2)
    rc, o = sh(f"git apply {dest}/patch.diff", cwd="/repo")
    meta["applies_in_repo"] = rc == 0
    res = {}
    if rc == 0:
        try:
            evdir = ROOT / "build" / "seed_evidence"
            evdir.mkdir(parents=True, exist_ok=True)
            for c in checks:
                t0 = time.time()
                rc2, o2 = sh(f"./check {c} --tier {a.tier}", cwd=ROOT, env=dict(os.environ, VERIF_EVIDENCE_DIR=str(evdir)))
                lines = [l for l in o2.splitlines() if l.startswith(("VIOLATION", "CHECK-ERROR", "KNOWN-FINDING", c))]
                res[c] = {"rc": rc2, "lines": lines[-6:], "wall_s": round(time.time() - t0, 1)}
                for l in lines:
                    if l.startswith("VIOLATION") and "replay=" in l:
                        rp = l.split("replay=")[1].split()[0]
                        if os.path.exists(rp):
                            shutil.copy(rp, dest / f"replay_{c}.json")
        finally:
            sh("git checkout -- .", cwd="/repo")
    else:
        meta["apply_error"] = o[-300:]
    meta["checks"] = res
    meta["detected_by"] = [c for c, r in res.items() if r["rc"] == 1 and any(l.startswith("VIOLATION") for l in r["lines"])]
    note = (dest / "note.txt").read_text() if (dest / "note.txt").exists() else ""
    meta["needs_to_manifest"] = note.strip()
    meta["what_was_run"] = [f"scratch worktree {wt}: demo on pristine tree, suite and demo with the change",
                            f"/repo: git apply patch.diff; ./check <id> --tier {a.tier} for {checks}; git checkout -- ."]
    (dest / "meta.json").write_text(json.dumps(meta, indent=1))
    print(json.dumps({k_: meta[k_] for k_ in ("seed_id", "confirmed", "applies_in_repo", "detected_by", "checks")}, indent=1))


if __name__ == "__main__":
    main()
