#!/bin/bash
# runs the repository's own suite on a tree (default /repo); prints the summary line
T=${1:-/repo}
cd $T && PYTHONPATH=$T/src timeout 2400 /venv/bin/python -W ignore -m pytest -q -p no:cacheprovider --timeout=900 2>&1 | grep -E "^[0-9]+ (passed|failed)|^FAILED|^ERROR" | cut -c1-200
