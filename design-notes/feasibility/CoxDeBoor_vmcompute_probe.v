From Coq Require Import QArith List Lia Lra Psatz.
Import ListNotations.
Open Scope Q_scope.

Definition nthq (U : list Q) (i : nat) : Q := nth i U 0.
Definition qr (x:Q) := Qred x.

(* Cox-de Boor; x/0 = 0 in Q; right-continuous indicator; [last] = umax closes the last non-empty span *)
Fixpoint N (U : list Q) (umax : Q) (j i : nat) (u : Q) : Q :=
  match j with
  | O => if (Qle_bool (nthq U i) u && negb (Qle_bool (nthq U (S i)) u))
            || (Qeq_bool u umax && negb (Qle_bool u (nthq U i)) && Qle_bool u (nthq U (S i)))
         then 1 else 0
  | S j' =>
      qr ((u - nthq U i) / (nthq U (i + j) - nthq U i) * N U umax j' i u
      + (nthq U (i + j + 1) - u) / (nthq U (i + j + 1) - nthq U (i + 1)) * N U umax j' (S i) u)
  end.

Definition U1 := [0;0;0;0; 1#3; 1#3; 2#3; 1;1;1;1].
Eval vm_compute in map (fun i => N U1 1 3 i (1#2)) (seq 0 7).
Eval vm_compute in map (fun i => N U1 1 3 i 1) (seq 0 7).
Definition U5 := [0;0;0;0;0;0; 1#7; 1#3; 1#3; 2#3; 5#6; 1;1;1;1;1;1].
Time Eval vm_compute in map (fun u => map (fun i => N U5 1 5 i u) (seq 0 11)) [1#9; 1#2; 7#9; 99#100].

Lemma div0 (x : Q) : x / 0 == 0.
Proof. unfold Qdiv. unfold Qinv. simpl. ring. Qed.

Goal forall a b c u n1 n2 : Q, a < b -> b <= c -> a <= u -> u < b -> 0 <= n1 -> 0 <= n2 ->
  0 <= (u - a) / (b - a) * n1 + (c - u) / (c - a) * n2.
Proof.
  intros. 
  assert (0 <= (u - a) / (b - a)). { apply Qle_shift_div_l; lra. }
  assert (0 <= (c - u) / (c - a)). { apply Qle_shift_div_l; lra. }
  nra.
Qed.

Goal forall a b u : Q, a < b -> (u - a) / (b - a) + (b - u) / (b - a) == 1.
Proof. intros. field. lra. Qed.
