From Coq Require Import QArith List Lia Arith Bool.
Import ListNotations.
Open Scope Q_scope.

Definition row := list Q.
Definition mat := list row.
Definition rscale (c : Q) (r : row) : row := map (fun x => Qred (c * x)) r.
Definition rsub (r1 : row) (c : Q) (r2 : row) : row := map (fun xy => Qred (fst xy - c * snd xy)) (combine r1 r2).
Definition qnz (x : Q) : bool := negb (Qeq_bool x 0).

(* find first row at index >= 0 of the list whose k-th entry is non-zero; return it and the rest *)
Fixpoint pick (k : nat) (rs : mat) : option (row * mat) :=
  match rs with
  | [] => None
  | r :: rs' => if qnz (nth k r 0) then Some (r, rs')
                else match pick k rs' with Some (p, rest) => Some (p, r :: rest) | None => None end
  end.

(* Gauss-Jordan on augmented rows: done = already reduced rows (pivot cols < k), todo = remaining *)
Fixpoint gj (fuel k : nat) (done todo : mat) : option mat :=
  match fuel with
  | O => match todo with [] => Some done | _ => None end
  | S f =>
    match todo with
    | [] => Some done
    | _ => match pick k todo with
           | None => None
           | Some (p, rest) =>
               let p' := rscale (/ nth k p 0) p in
               let elim r := rsub r (nth k r 0) p' in
               gj f (S k) (map elim done ++ [p']) (map elim rest)
           end
    end
  end.

Definition ident (n : nat) : mat := map (fun i => map (fun j => if Nat.eqb i j then 1 else 0) (seq 0 n)) (seq 0 n).
Definition transpose (n : nat) (m : mat) : mat := map (fun j => map (fun r => nth j r 0) m) (seq 0 n).
Definition dot (a b : row) : Q := fold_left (fun acc xy => Qred (acc + fst xy * snd xy)) (combine a b) 0.
Definition mmul (nb : nat) (a b : mat) : mat := let bt := transpose nb b in map (fun r => map (dot r) bt) a.
Definition meq (a b : mat) : bool :=
  Nat.eqb (length a) (length b) &&
  forallb (fun rr => Nat.eqb (length (fst rr)) (length (snd rr)) && forallb (fun xy => Qeq_bool (fst xy) (snd xy)) (combine (fst rr) (snd rr))) (combine a b).

Inductive res := OkM (m : mat) | Singular | Uncertified.
Definition invert (m : mat) : res :=
  let n := length m in
  let aug := map (fun ri => fst ri ++ snd ri) (combine m (ident n)) in
  match gj n 0 [] aug with
  | None => Singular
  | Some red => let inv := map (skipn n) red in
                if meq (mmul n inv m) (ident n) && meq (mmul n m inv) (ident n) then OkM inv else Uncertified
  end.

Definition hilb (n : nat) : mat := map (fun i => map (fun j => 1 # (Pos.of_nat (i + j + 1))) (seq 0 n)) (seq 0 n).
Definition isok r := match r with OkM _ => true | _ => false end.
Time Eval vm_compute in isok (invert (hilb 6)).
Time Eval vm_compute in isok (invert (hilb 10)).
Time Eval vm_compute in isok (invert (hilb 14)).
Time Eval vm_compute in isok (invert (hilb 20)).
Eval vm_compute in invert [[1;2];[2;4]].
Eval vm_compute in invert [[0;1];[1;0]].
