import random, sys, warnings; warnings.filterwarnings("ignore")
from fractions import Fraction as F
from compmec.nurbs import heavy
rnd = random.Random(1)
def q(x): x=F(x); return f"({x.numerator}#{x.denominator})"
def ql(l): return "[" + ";".join(q(x) for x in l) + "]"
cases=[]
for _ in range(300):
    p = rnd.randint(0,4); m = rnd.randint(0,3)
    ks = sorted(rnd.sample([F(a,b) for b in (1,2,3,5,7,12) for a in range(-2*b+1, 3*b) if F(a,b)>-2 and F(a,b)<3], m))
    U = [F(-2)]*(p+1)
    for kx in ks: U += [kx]*rnd.randint(1,p+1)
    U += [F(3)]*(p+1)
    kv = heavy.ImmutableKnotVector(U)
    j = rnd.randint(0,p)
    M = heavy.BasisFunction.speval_matrix(kv, j)
    spans = kv.span(kv.knots)
    for z, sz in enumerate(spans[:-1]):
        tab = [[F(c) for c in row] for row in M[z]]
        cases.append((U, sz, j, tab))
with open("Cases.v","w") as f:
    f.write("From Coq Require Import QArith List Bool.\nImport ListNotations.\nOpen Scope Q_scope.\nRequire Import Table.\n")
    f.write("Definition eqrow (a b : list Q) := (Nat.eqb (length a) (length b)) && forallb (fun xy => Qeq_bool (fst xy) (snd xy)) (combine a b).\n")
    f.write("Definition eqtab (a b : list (list Q)) := (Nat.eqb (length a) (length b)) && forallb (fun xy => eqrow (fst xy) (snd xy)) (combine a b).\n")
    f.write("Definition cases : list (list Q * nat * nat * list (list Q)) := [\n")
    f.write(";\n".join(f"({ql(U)}, {sz}%nat, {j}%nat, [{';'.join(ql(r) for r in tab)}])" for U,sz,j,tab in cases))
    f.write("].\n")
    f.write("Definition bad := filter (fun k => negb (let '(U,s,j,t) := nth k cases ([],0,0,[])%nat in eqtab (rows U s j) t)) (seq 0 (length cases)).\n")
    f.write("Eval vm_compute in (length cases, bad).\n")
print(len(cases))
