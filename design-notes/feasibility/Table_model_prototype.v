From Coq Require Import QArith List Lia Lra Arith Bool.
Import ListNotations.
Open Scope Q_scope.
Require Import Boehm.

Definition nthq (U : list Q) (i : nat) : Q := nth i U 0.

Fixpoint padd (p q : list Q) : list Q :=
  match p, q with
  | [], _ => q
  | _, [] => p
  | a :: p', b :: q' => Qred (a + b) :: padd p' q'
  end.
Definition linmul (c0 c1 : Q) (p : list Q) : list Q :=
  padd (map (fun c => Qred (c0 * c)) p ++ [0]) (0 :: map (fun c => Qred (c1 * c)) p).
Fixpoint horner (p : list Q) (t : Q) : Q :=
  match p with [] => 0 | a :: p' => a + t * horner p' t end.

(* closed form of the loop nest of heavy.BasisFunction.speval_matrix, one span *)
Fixpoint rows (U : list Q) (s j : nat) : list (list Q) :=
  match j with
  | O => [[1]]
  | S j' =>
      let prev := rows U s j' in
      let ul := nthq U s in
      let h := nthq U (S s) - ul in
      let scaled y := map (fun c => Qred (c / (nthq U (s + y - j' + j)%nat - nthq U (s + y - j')%nat)))
                          (nth y prev []) in
      let cB y := linmul (nthq U (s + y - j' + j)%nat - ul) (- h) (scaled y) in
      let cA y := linmul (ul - nthq U (s + y - j')%nat) h (scaled y) in
      map (fun y' => padd (if (y' <? j)%nat then cB y' else [])
                          (if (0 <? y')%nat then cA (y' - 1)%nat else []))
          (seq 0 (S j))
  end.

Definition U1 := [0;0;0; 1#3; 1#3; 1;1;1].
Eval vm_compute in rows U1 2 2.
Eval vm_compute in rows U1 4 2.
