import warnings; warnings.filterwarnings("ignore")
from fractions import Fraction as F
from copy import copy
import numpy as np
from compmec.nurbs import Curve
from compmec.nurbs import heavy
def N(U,i,j,u, last):
    if j==0:
        if U[i]<=u<U[i+1]: return F(1)
        if u==last and U[i]<u<=U[i+1]: return F(1)
        return F(0)
    r=F(0)
    d=U[i+j]-U[i]
    if d!=0: r+= (u-U[i])/d*N(U,i,j-1,u,last)
    d=U[i+j+1]-U[i+1]
    if d!=0: r+= (U[i+j+1]-u)/d*N(U,i+1,j-1,u,last)
    return r
def ev(U,p,P,u): return sum(N(U,i,p,u,U[-1])*P[i] for i in range(len(P)))
def solve(A,b):
    n=len(A); A=[row[:]+[b[i]] for i,row in enumerate(A)]
    for k in range(n):
        piv=next(i for i in range(k,n) if A[i][k]!=0); A[k],A[piv]=A[piv],A[k]
        for i in range(n):
            if i!=k and A[i][k]!=0:
                f=A[i][k]/A[k][k]; A[i]=[x-f*y for x,y in zip(A[i],A[k])]
    return [A[i][n]/A[i][i] for i in range(n)]
def integ_poly_piece(f,a,b,deg):
    xs=[a+(b-a)*F(k,deg+1) for k in range(deg+1)]  # deg+1 points in [a,b) avoid right end
    V=[[x**k for k in range(deg+1)] for x in xs]
    c=solve(V,[f(x) for x in xs])
    return sum(ck*(b**(k+1)-a**(k+1))/(k+1) for k,ck in enumerate(c))
def integ(f, breaks, deg): return sum(integ_poly_piece(f,a,b,deg) for a,b in zip(breaks[:-1],breaks[1:]))
S = Curve([F(0),F(0),F(1,3),F(1),F(1)])
src = Curve([F(0),F(0),F(0),F(1,2),F(1),F(1),F(1)], [F(1),F(2),F(-1),F(3)])
err = S.fit_curve(src)
US=list(S.knotvector); UC=list(src.knotvector)
breaks=[F(0),F(1,3),F(1,2),F(1)]
res=lambda u: ev(UC,2,src.ctrlpoints,u)-ev(US,1,S.ctrlpoints,u)
print("model vs impl eval", all(ev(UC,2,src.ctrlpoints,u)==src(u) for u in [F(k,24) for k in range(24)]))
for i in range(3):
    print(" <res,N%d>"%i, integ(lambda u: res(u)*N(US,i,1,u,F(1)), breaks, 4))
print(" int res^2", integ(lambda u: res(u)**2, breaks, 5), " returned err", err)
# Look at Gram matrices
T,E = heavy.LeastSquare.spline2spline(tuple(UC), tuple(US))
print("T", T); 
GG=[[integ(lambda u: N(US,i,1,u,F(1))*N(US,j,1,u,F(1)), breaks, 3) for j in range(3)] for i in range(3)]
GF=[[integ(lambda u: N(US,i,1,u,F(1))*N(UC,j,2,u,F(1)), breaks, 4) for j in range(4)] for i in range(3)]
Tref=[solve(GG,[GF[i][j] for i in range(3)]) for j in range(4)]
print("Tref^T", Tref)
