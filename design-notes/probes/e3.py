import warnings; warnings.filterwarnings("ignore")
from fractions import Fraction as F
from copy import copy, deepcopy
import numpy as np
from compmec.nurbs import KnotVector, GeneratorKnotVector, Curve, Function
def t(label, f):
    try:
        r = f()
        print(label, "->", repr(r))
    except Exception as e:
        print(label, "RAISED", type(e).__name__, e)
def snap(c): return (tuple(map(str,c.knotvector)), tuple(map(str,c.ctrlpoints)) if c.ctrlpoints is not None else None, tuple(map(str,c.weights)) if c.weights is not None else None)
# C05 removal
c = Curve([F(0),F(0),F(0),F(1,3),F(1),F(1),F(1)], [F(1),F(2),F(-1),F(3)])
orig = snap(c)
c.knot_insert([F(1,2)]); 
t("remove inserted", lambda: (c.knot_remove([F(1,2)]), snap(c)==orig, snap(c))[1:])
t("remove non-removable", lambda: c.knot_remove([F(1,3)])); print("  unchanged:", snap(c)==orig)
t("remove absent", lambda: c.knot_remove([F(1,5)])); print("  unchanged:", snap(c)==orig)
t("remove tol None", lambda: (c.knot_remove([F(1,3)], None), snap(c))[1])
# rational removal
c = Curve([F(0),F(0),F(0),F(1),F(1),F(1)], [F(1),F(2),F(-1)], [F(1),F(2),F(1)])
orig = snap(c)
c.knot_insert([F(1,2)]); print(snap(c))
t("rational remove inserted", lambda: (c.knot_remove([F(1,2)]), snap(c)==orig, snap(c))[1:])
# C06 degree
c = Curve([F(0),F(0),F(0),F(1,3),F(1,3),F(2,3),F(1),F(1),F(1)], [F(1),F(2),F(-1),F(3),F(0),F(2)])
orig = snap(c)
t("deg inc 1", lambda: (c.degree_increase(1), snap(c))[1])
t("deg dec 1", lambda: (c.degree_decrease(1), snap(c)==orig)[1])
t("deg inc 2", lambda: (c.degree_increase(2), snap(c))[1])
t("deg dec 2", lambda: (c.degree_decrease(2), snap(c)==orig)[1])
t("deg dec impossible", lambda: c.degree_decrease(1)); print("  unchanged:", snap(c)==orig)
t("deg dec None", lambda: (c.degree_decrease(1, None), snap(c))[1])
cr = Curve([F(0),F(0),F(0),F(1,2),F(1),F(1),F(1)], [F(1),F(2),F(-1),F(4)], [F(1),F(2),F(1),F(3)])
orig = snap(cr)
t("rat deg inc 1", lambda: (cr.degree_increase(1), snap(cr))[1])
t("rat deg dec 1", lambda: (cr.degree_decrease(1), snap(cr)==orig, snap(cr))[1:])
c = Curve([F(0),F(1,2),F(1)], [F(3),F(7)])
t("deg0 inc", lambda: (c.degree_increase(1), snap(c))[1])
t("deg setter", lambda: (setattr(c,'degree',3), snap(c))[1])
t("deg setter down", lambda: (setattr(c,'degree',0), snap(c))[1])
