import warnings; warnings.filterwarnings("ignore")
from fractions import Fraction as F
from copy import copy, deepcopy
import numpy as np
from compmec.nurbs import KnotVector, GeneratorKnotVector, Curve, Function, Derivate, Integrate, Projection, Intersection
from compmec.nurbs import heavy
def t(label, f):
    try:
        r = f()
        print(label, "->", repr(r))
    except Exception as e:
        print(label, "RAISED", type(e).__name__, e)
def snap(c): return (tuple(map(str,c.knotvector)), tuple(map(str,c.ctrlpoints)) if c.ctrlpoints is not None else None, tuple(map(str,c.weights)) if c.weights is not None else None)
us = [F(i,12) for i in range(13)]
# C13 eq
A = Curve([F(0),F(0),F(0),F(1),F(1),F(1)], [F(1),F(2),F(-1)])
Ar = copy(A); Ar.knot_insert([F(1,2)])
print("A==Ar", A==Ar, "Ar==A", Ar==A, "A!=Ar", A!=Ar)
Ae = copy(A); Ae.degree_increase(1)
print("A==Ae", A==Ae, "Ae==A", Ae==A)
B = Curve([F(0),F(0),F(0),F(1),F(1),F(1)], [F(1),F(2),F(0)])
Br = copy(B); Br.knot_insert([F(1,2)])
print("A==Br (different)", A==Br, "Br==A", Br==A)
# coarse left: A pts (1,2,-1), Other refined whose first 3 ctrl = (1,2,-1)?? craft: 
C = Curve([F(0),F(0),F(0),F(1,2),F(1),F(1),F(1)], [F(1),F(2),F(-1),F(7)])
print("A==C (different, zip-trunc)", A==C, "C==A", C==A)
R1 = Curve([F(0),F(0),F(0),F(1),F(1),F(1)], [F(1),F(2),F(-1)], [F(1),F(1),F(1)])
R2 = Curve([F(0),F(0),F(0),F(1),F(1),F(1)], [F(1),F(2),F(-1)], [F(1),F(2),F(1)])
R3 = Curve([F(0),F(0),F(0),F(1),F(1),F(1)], [F(1),F(2),F(-1)], [F(2),F(2),F(2)])
print("R1==R2 (diff weights)", R1==R2, "R1==R3 (scaled weights same fn)", R1==R3, "A==R1 (poly vs rat same)", A==R1, "R1==A", R1==A)
t("A==3", lambda: A==3)
t("A=='x'", lambda: A=="x")
# operands not modified by ==
sa, sar = snap(A), snap(Ar); A==Ar; Ar==A; print("unmodified", sa==snap(A), sar==snap(Ar))
# C14 clean
M = Curve([F(0),F(0),F(0),F(1,3),F(1),F(1),F(1)], [F(1),F(2),F(-1),F(3)])
X = copy(M); X.knot_insert([F(1,2),F(1,3)]); X.degree_increase(2); X.knot_insert([F(3,4)])
t("clean", lambda: (X.clean(), snap(X), snap(X)==snap(M))[1:])
X = copy(M); X.degree_increase(1); 
t("knot_clean then degree_clean", lambda: (X.knot_clean(), X.degree_clean(), snap(X)==snap(M), snap(X))[2:])
# linear curve degree 2 repr with interior knot
L = Curve([F(0),F(0),F(1),F(1)],[F(1),F(3)]); X=copy(L); X.degree_increase(2); X.knot_insert([F(1,2),F(1,2),F(1,4)])
t("clean line", lambda: (X.clean(), snap(X))[1])
# constant curve
K = Curve([F(0),F(0),F(1),F(1)],[F(2),F(2)])
t("clean const", lambda: (K.clean(), snap(K))[1])
# C11 fit_curve
S = Curve([F(0),F(0),F(1,3),F(1),F(1)])
src = Curve([F(0),F(0),F(0),F(1,2),F(1),F(1),F(1)], [F(1),F(2),F(-1),F(3)])
t("fit_curve err", lambda: (S.fit_curve(src), snap(S)))
# residual orthogonality: integrate (src - S)*N_i exactly via product curves
def integ(c):
    kv=list(c.knotvector); p=c.degree
    return sum(P*(kv[i+p+1]-kv[i])/(p+1) for i,P in enumerate(c.ctrlpoints))
def addfix(a,b):
    # a+b via evaluation on common refinement (avoid buggy __add__)
    return None
for i in range(S.npts):
    Ni = Curve(S.knotvector, [F(int(k==i)) for k in range(S.npts)])
    prod1 = src*Ni; prod2 = S*Ni
    print("  <res,N%d> ="%i, integ(prod1)-integ(prod2))
sq = integ(src*src) - 2*integ(src*S) + integ(S*S)
print("  int res^2 =", sq, float(sq))
t("fit nodes", lambda: (S.fit_curve(src, (F(0),F(1))), snap(S), S(F(0))-src(F(0)), S(F(1))-src(F(1))))
sq = integ(src*src) - 2*integ(src*S) + integ(S*S)
print("  int res^2 (constrained) =", sq, float(sq))
# C12
S = Curve([F(0),F(0),F(1,3),F(1),F(1)])
t("fit_points", lambda: (S.fit_points([F(1),F(2),F(0),F(5),F(3)]), snap(S)))
t("fit_points few", lambda: S.fit_points([F(1),F(2)]))
t("fit_function", lambda: (S.fit_function(lambda u: 1+2*u), snap(S)))
Sr = Curve([F(0),F(0),F(1,3),F(1),F(1)], weights=[F(1),F(2),F(1)])
t("fit_points rational", lambda: (Sr.fit_points([F(1),F(2),F(0),F(5),F(3)]), snap(Sr)))
