import warnings; warnings.filterwarnings("ignore")
from fractions import Fraction as F
from copy import copy, deepcopy
import numpy as np
from compmec.nurbs import KnotVector, GeneratorKnotVector, Curve, Function, Derivate, Integrate
def t(label, f):
    try:
        r = f()
        print(label, "->", repr(r))
    except Exception as e:
        print(label, "RAISED", type(e).__name__, e)
def snap(c): return (tuple(map(str,c.knotvector)), tuple(map(str,c.ctrlpoints)) if c.ctrlpoints is not None else None, tuple(map(str,c.weights)) if c.weights is not None else None)
us = [F(i,12) for i in range(13)]
def cmp(c, f, us=us):
    bad = [(str(u), str(c(u)), str(f(u))) for u in us if c(u)!=f(u)]
    return "OK" if not bad else bad[:3]
A = Curve([F(0),F(0),F(0),F(1,3),F(1,3),F(1),F(1),F(1)], [F(1),F(2),F(-1),F(3),F(5)])
B = Curve([F(0),F(0),F(1,3),F(1,2),F(1),F(1)], [F(2),F(-1),F(4),F(1)])
t("A+B", lambda: (snap(A+B), cmp(A+B, lambda u: A(u)+B(u))))
t("A-B", lambda: cmp(A-B, lambda u: A(u)-B(u)))
t("A*B", lambda: (snap(A*B)[0], cmp(A*B, lambda u: A(u)*B(u))))
Bp = Curve([F(0),F(0),F(0),F(1,3),F(1,2),F(1),F(1),F(1)], [F(2),F(1),F(4),F(1),F(3)])
t("A/Bp", lambda: (snap(A/Bp), cmp(A/Bp, lambda u: A(u)/Bp(u))))
t("1/Bp", lambda: cmp(1/Bp, lambda u: 1/Bp(u)))
t("3/Bp", lambda: cmp(3/Bp, lambda u: 3/Bp(u)))
t("F(3)/Bp", lambda: cmp(F(3)/Bp, lambda u: 3/Bp(u)))
R = A/Bp
t("R+A", lambda: cmp(R+A, lambda u: R(u)+A(u)))
t("R*R", lambda: cmp(R*R, lambda u: R(u)*R(u)))
t("R/R", lambda: cmp(R/R, lambda u: 1))
t("2/R", lambda: cmp(2/R, lambda u: 2/R(u)))
t("-A", lambda: cmp(-A, lambda u: -A(u)))
t("2+A", lambda: cmp(2+A, lambda u: 2+A(u)))
t("2-A", lambda: cmp(2-A, lambda u: 2-A(u)))
t("A-2", lambda: cmp(A-2, lambda u: A(u)-2))
t("A/2", lambda: cmp(A/2, lambda u: A(u)/2))
t("diff interval", lambda: A + Curve([F(0),F(0),F(2),F(2)],[F(1),F(2)]))
# vector ctrl points
V = Curve([F(0),F(0),F(1,2),F(1),F(1)], [np.array([F(1),F(2)]), np.array([F(0),F(3)]), np.array([F(2),F(2)])])
W = Curve([F(0),F(0),F(0),F(1),F(1),F(1)], [np.array([F(1),F(0)]), np.array([F(1),F(1)]), np.array([F(-1),F(2)])])
t("V@W", lambda: cmp(V@W, lambda u: V(u)@W(u)))
t("V+W", lambda: [tuple(map(str,(V+W)(u)-V(u)-W(u))) for u in us[:3]])
M = np.array([[F(1),F(2)],[F(0),F(1)]])
t("V@M", lambda: [tuple(map(str,(V@M)(u)-V(u)@M)) for u in us[:3]])
t("M@V", lambda: [tuple(map(str,(M@V)(u)-M@V(u))) for u in us[:3]])
t("A*V scalar*vector curves", lambda: [tuple(map(str,(B*V)(u)-B(u)*V(u))) for u in us[:3]])
# C09 derivative
t("dA", lambda: snap(Derivate(A)))
t("dB", lambda: snap(Derivate(B)))
c0 = Curve([F(0),F(1,2),F(1)], [F(3),F(7)])
t("d deg0", lambda: snap(Derivate(c0)))
t("dBez", lambda: snap(Derivate(Curve([F(0),F(0),F(0),F(2),F(2),F(2)],[F(1),F(3),F(2)]))))
t("dR", lambda: snap(Derivate(R))[0])
Rb = Curve([F(0),F(0),F(0),F(1),F(1),F(1)], [F(1),F(2),F(-1)], [F(1),F(2),F(1)])
t("dRb", lambda: snap(Derivate(Rb)))
