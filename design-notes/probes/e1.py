import warnings; warnings.filterwarnings("ignore")
from fractions import Fraction as F
from compmec.nurbs import KnotVector, GeneratorKnotVector, Curve, Function
from compmec.nurbs.heavy import ImmutableKnotVector
def t(label, f):
    try:
        r = f()
        print(label, "->", repr(r) if not isinstance(r, KnotVector) else (list(r), r.degree, r.npts))
    except Exception as e:
        print(label, "RAISED", type(e).__name__, e)
t("tail [0,0,1,1,2]", lambda: KnotVector([0,0,1,1,2]))
t("tail [0,0,1,1,2,3]", lambda: KnotVector([0,0,1,1,2,3]))
t("unclamped deg=1 [0,1,2,3]", lambda: KnotVector([0,1,2,3], 1))
t("[0,0,1,1] deg=0", lambda: KnotVector([0,0,1,1], 0))
t("insert outside", lambda: KnotVector([0,0,1,1]).insert([2]))
t("insert outside neg", lambda: KnotVector([0,0,1,1]).insert([-1]))
t("insert ends", lambda: KnotVector([0,0,1,1]).insert([0,1]))
t("insert one end", lambda: KnotVector([0,0,1,1]).insert([0]))
t("remove ends", lambda: KnotVector([0,0,1,1]).remove([0,1]))
t("remove one end", lambda: KnotVector([0,0,1,1]).remove([0]))
t("const [1,1]", lambda: KnotVector([1,1]))
t("const [1,1,1,1]", lambda: KnotVector([1,1,1,1]))
t("[0,1] ", lambda: KnotVector([0,1]))
t("[0,0.5,0.5,1] deg0 mult2", lambda: KnotVector([0,0.5,0.5,1]))
t("[0,0,0.5,0.5,0.5,1,1]", lambda: KnotVector([0,0,0.5,0.5,0.5,1,1]))
kv = KnotVector([0,0,1,1,2])
t("tail span(1.5)", lambda: kv.span(1.5))
t("tail limits", lambda: kv.limits)
t("tail knots", lambda: kv.knots)
t("mult near", lambda: KnotVector([0,0,F(1,10**10),1,1]).mult(0))
t("knots near 1e-7", lambda: KnotVector([0,0,F(1,10**7),1,1]).knots)
t("valid near-dup mult", lambda: KnotVector([0,0,F(1,2),F(1,2)+F(1,10**7),F(1,2)+F(2,10**7),1,1]))
t("scale neg", lambda: KnotVector([0,0,1,1]).scale(-1))
t("scale 0", lambda: KnotVector([0,0,1,1]).scale(0))
t("shift str", lambda: KnotVector([0,0,1,1]).shift("a"))
for n in [3,7,11,50,99]:
    kv = GeneratorKnotVector.uniform(1, n)
    print("uniform(1,%d) limits"%n, kv.limits, kv[-1]==1)
import numpy as np
np.random.seed(0)
bad=0
for k in range(2000):
    kv = GeneratorKnotVector.random(2, 7)
    if kv.limits != (0,1): bad+=1
print("random float bad limits", bad, "/2000")
kv = GeneratorKnotVector.uniform(2, 7, F); print(list(kv))
kv = GeneratorKnotVector.random(2, 7, F); print(list(kv))
