import warnings; warnings.filterwarnings("ignore")
from fractions import Fraction as F
from copy import copy, deepcopy
import numpy as np
from compmec.nurbs import KnotVector, GeneratorKnotVector, Curve, Function
def t(label, f):
    try:
        r = f()
        print(label, "->", repr(r))
    except Exception as e:
        print(label, "RAISED", type(e).__name__, e)
def snap(c): return (tuple(map(str,c.knotvector)), tuple(map(str,c.ctrlpoints)) if c.ctrlpoints is not None else None, tuple(map(str,c.weights)) if c.weights is not None else None)
us = [F(i,12) for i in range(13)]
def same(a,b,us=us): return all(a(u)==b(u) for u in us)
# rational remove: how lossy
c = Curve([F(0),F(0),F(0),F(1),F(1),F(1)], [F(1),F(2),F(-1)], [F(1),F(2),F(1)])
o = copy(c)
c.knot_insert([F(1,2)]); print("ins same:", same(c,o))
c.knot_remove([F(1,2)]); print("rem same:", same(c,o), [float(c(u)-o(u)) for u in us])
# C07 split / or
c = Curve([F(0),F(0),F(0),F(1,3),F(1,3),F(2,3),F(1),F(1),F(1)], [F(1),F(2),F(-1),F(3),F(0),F(2)])
ps = c.split([F(1,2), F(1,3), F(0), F(1,2)])
for p in ps: print(" piece", snap(p))
ps = c.split()
for p in ps: print(" bez", snap(p))
t("split 0-valued node", lambda: [snap(p) for p in Curve([F(-1),F(-1),F(1),F(1)],[F(1),F(2)]).split([F(0)])])
t("split int 0-valued node", lambda: [snap(p) for p in Curve([-1,-1,1,1],[1,2]).split([0])])
ps = c.split([F(1,2)])
j = ps[0] | ps[1]
print("join:", snap(j), "same", same(j,c), "eq", j==c)
ps = c.split([F(1,3)])
j = ps[0] | ps[1]
print("join at knot:", snap(j), "same", same(j,c))
ps = c.split()
j = ps[0]
for p in ps[1:]: j = j | p
print("join all:", snap(j), "same", same(j,c))
# join discontinuous
A = Curve([F(0),F(0),F(1),F(1)], [F(0),F(1)]); B = Curve([F(1),F(1),F(2),F(2)],[F(5),F(6)])
t("join discont", lambda: snap(A|B))
t("join discont eval", lambda: (A|B)([F(0),F(1,2),F(1),F(3,2),F(2)]))
A = Curve([F(0),F(0),F(1),F(1)], [F(0),F(1)]); B = Curve([F(1),F(1),F(1),F(2),F(2),F(2)],[F(1),F(6),F(3)])
t("join diff degree", lambda: snap(A|B))
t("join diff degree eval", lambda: ((A|B)([F(0),F(1,2),F(1),F(3,2),F(2)]), A([F(0),F(1,2),F(1)]), B([F(1),F(3,2),F(2)])))
# rational split
cr = Curve([F(0),F(0),F(0),F(1,2),F(1),F(1),F(1)], [F(1),F(2),F(-1),F(4)], [F(1),F(2),F(1),F(3)])
ps = cr.split([F(1,4)])
print("rat split:", [snap(p) for p in ps])
print(" rat split same:", all(ps[0](u)==cr(u) for u in [F(0),F(1,8),F(1,4)]), all(ps[1](u)==cr(u) for u in [F(1,4),F(1,2),F(3,4),F(1)]))
t("rat join", lambda: snap(ps[0]|ps[1]))
