import warnings; warnings.filterwarnings("ignore")
from fractions import Fraction as F
from copy import copy
import numpy as np
from compmec.nurbs import Curve, KnotVector
from compmec.nurbs import heavy
def t(label, f):
    try:
        r = f()
        print(label, "->", repr(r))
    except Exception as e:
        print(label, "RAISED", type(e).__name__, e)
us = [F(i,24) for i in range(25)]
def cmp(c, f, us=us):
    bad = [(str(u), str(c(u)), str(f(u))) for u in us if c(u)!=f(u)]
    return "OK" if not bad else bad[:3]
A = Curve([F(0),F(0),F(0),F(1,3),F(2,3),F(2,3),F(1),F(1),F(1)], [F(1),F(2),F(-1),F(3),F(5),F(2)])
B = Curve([F(0),F(0),F(1),F(1)], [F(2),F(-1)])
t("A*B kv", lambda: tuple(map(str,(A*B).knotvector)))
t("A*B", lambda: cmp(A*B, lambda u: A(u)*B(u)))
t("A*A", lambda: cmp(A*A, lambda u: A(u)*A(u)))
# discontinuous
D = Curve([F(0),F(0),F(1,2),F(1,2),F(1),F(1)], [F(1),F(2),F(5),F(3)])
t("D*B kv", lambda: tuple(map(str,(D*B).knotvector)))
t("D*B", lambda: cmp(D*B, lambda u: D(u)*B(u)))
t("D+B", lambda: cmp(D+B, lambda u: D(u)+B(u)))
t("D+A", lambda: cmp(D+A, lambda u: D(u)+A(u)))
# same degree different knots
A2 = Curve([F(0),F(0),F(0),F(1,2),F(1),F(1),F(1)], [F(1),F(0),F(2),F(1)])
t("A+A2", lambda: (tuple(map(str,(A+A2).knotvector)), cmp(A+A2, lambda u: A(u)+A2(u))))
snapA = (tuple(A.knotvector), A.ctrlpoints)
A+A2; A*B; A/Curve([F(0),F(0),F(1),F(1)], [F(2),F(1)])
print("operand unchanged", snapA == (tuple(A.knotvector), A.ctrlpoints))
# KnotVector | &
U = KnotVector([F(0),F(0),F(0),F(1,3),F(2,3),F(2,3),F(1),F(1),F(1)]); V = KnotVector([F(0),F(0),F(1,3),F(1,2),F(1),F(1)])
t("U|V", lambda: (tuple(map(str, U|V)), (U|V).degree))
t("V|U", lambda: (tuple(map(str, V|U)), (V|U).degree))
t("U&V", lambda: (tuple(map(str, U&V)), (U&V).degree))
W = KnotVector([F(0),F(0),F(0),F(1,3),F(1,3),F(1,2),F(1),F(1),F(1)])
t("U|W", lambda: (tuple(map(str, U|W)), (U|W).degree))
t("U&W", lambda: (tuple(map(str, U&W)), (U&W).degree))
t("U&U", lambda: (tuple(map(str, U&U)), (U&U).degree))
t("U|diff", lambda: U|KnotVector([F(0),F(0),F(2),F(2)]))
Uf = KnotVector([0.,0.,0.3,1.,1.]); Vf = KnotVector([0.,0.,0.1+0.2,1.,1.])
t("float near-equal |", lambda: tuple(Uf|Vf))
t("float near-equal &", lambda: tuple(Uf&Vf))
