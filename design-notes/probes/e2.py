import warnings; warnings.filterwarnings("ignore")
from fractions import Fraction as F
from copy import copy, deepcopy
import numpy as np
from compmec.nurbs import KnotVector, GeneratorKnotVector, Curve, Function
def t(label, f):
    try:
        r = f()
        print(label, "->", repr(r))
    except Exception as e:
        print(label, "RAISED", type(e).__name__, e)
def snap(c): return (tuple(c.knotvector), c.ctrlpoints, c.weights)
# C01 eval
c = Curve([F(0),F(0),F(0),F(1,3),F(1,3),F(1),F(1),F(1)], [F(1),F(2),F(-1),F(3),F(5)])
t("eval knots", lambda: c([F(0),F(1,3),F(1,2),F(1)]))
t("eval outside", lambda: c(F(3,2)))
t("eval int node 0", lambda: c(0))
t("eval int node 1", lambda: c(1))
t("eval float", lambda: c(0.25))
# degree 0
c0 = Curve([F(0),F(1,2),F(1)], [F(3),F(7)])
t("deg0 eval", lambda: c0([F(0),F(1,4),F(1,2),F(3,4),F(1)]))
# full mult interior knot (discontinuity)
cd = Curve([F(0),F(0),F(1,2),F(1,2),F(1),F(1)], [F(1),F(2),F(5),F(3)])
t("disc eval", lambda: cd([F(0),F(1,4),F(1,2),F(3,4),F(1)]))
# rational
cr = Curve([F(0),F(0),F(0),F(1),F(1),F(1)], [F(1),F(2),F(-1)], [F(1),F(2),F(1)])
t("rat eval", lambda: cr([F(0),F(1,2),F(1)]))
# C04 knot insert
c = Curve([F(0),F(0),F(0),F(1,3),F(1),F(1),F(1)], [F(1),F(2),F(-1),F(3)])
before = snap(c)
t("insert 0-valued... at knot 1/3 twice", lambda: (c.knot_insert([F(1,3),F(1,3)]), snap(c))[1])
c = Curve([F(-1),F(-1),F(0),F(1),F(1)], [F(1),F(2),F(-1)])
t("insert 0 node", lambda: (c.knot_insert([F(0)]), snap(c))[1])
c = Curve([F(-1),F(-1),F(1),F(1)], [F(1),F(2)])
t("insert 0 node new", lambda: (c.knot_insert([F(0)]), snap(c))[1])
c = Curve([F(-1),F(-1),F(1),F(1)], [F(1),F(2)])
t("insert int 0 node new", lambda: (c.knot_insert([0]), snap(c))[1])
c = Curve([F(0),F(0),F(1),F(1)], [F(1),F(2)])
t("insert outside", lambda: c.knot_insert([F(2)])); print(" after:", snap(c))
c = Curve([F(0),F(0),F(1),F(1)], [F(1),F(2)])
t("insert too many", lambda: c.knot_insert([F(1,2)]*3)); print(" after:", snap(c))
c = Curve([F(0),F(0),F(1),F(1)], [F(1),F(2)])
t("insert end 0", lambda: c.knot_insert([F(0)])); print(" after:", snap(c))
c = Curve([F(0),F(0),F(1),F(1)], [F(1),F(2)])
t("insert ends 0,1", lambda: c.knot_insert([F(0), F(1)])); print(" after:", snap(c))
c = Curve([F(0),F(0),F(1),F(1)], [F(1),F(2)], [F(1), F(3)])
t("rational insert", lambda: (c.knot_insert([F(1,2)]), snap(c))[1])
