import warnings; warnings.filterwarnings("ignore")
from fractions import Fraction as F
from copy import copy, deepcopy
import numpy as np
from compmec.nurbs import Curve, KnotVector, Derivate, Integrate
from compmec.nurbs import heavy
def t(label, f):
    try:
        r = f()
        print(label, "->", repr(r))
    except Exception as e:
        print(label, "RAISED", type(e).__name__, e)
class Pt:
    def __init__(s, x, y): s.x, s.y = x, y
    def __add__(s, o): return Pt(s.x+o.x, s.y+o.y)
    def __rmul__(s, k): return Pt(k*s.x, k*s.y)
    def __mul__(s, k): return Pt(k*s.x, k*s.y)
    def __repr__(s): return f"Pt({s.x},{s.y})"
pts = [Pt(F(0),F(0)), Pt(F(1),F(2)), Pt(F(3),F(1)), Pt(F(4),F(4))]
t("custom build", lambda: Curve([F(0),F(0),F(0),F(1,2),F(1),F(1),F(1)], pts))
c = Curve([F(0),F(0),F(0),F(1,2),F(1),F(1),F(1)], pts)
t("custom eval", lambda: c(F(1,4)))
t("custom eval many", lambda: c([F(0),F(1,4),F(1)]))
t("custom insert", lambda: (c.knot_insert([F(1,4)]), c.ctrlpoints)[1])
t("custom elevate", lambda: (c.degree_increase(1), c.ctrlpoints)[1])
t("custom split", lambda: [p.ctrlpoints for p in c.split([F(1,3)])])
# big rationals
big = F(10**30+7, 10**30+9)
cb = Curve([F(0),F(0),F(0),big/2,F(1),F(1),F(1)], [F(1),big,F(-1),F(3)])
t("big eval", lambda: cb(big/3))
t("big insert/remove", lambda: (cb.knot_insert([big/3]), cb.knot_remove([big/3]), cb.ctrlpoints)[2])
# int knots
ci = Curve([0,0,0,1,2,2,2],[1,2,-1,3])
t("int eval", lambda: (ci(1), type(ci(1)), ci(F(1,2)), ci(0.5)))
t("int insert", lambda: (ci.knot_insert([1]), ci.ctrlpoints, [type(x) for x in ci.ctrlpoints])[1:])
ci = Curve([0,0,0,1,2,2,2],[1,2,-1,3])
t("int elevate", lambda: (ci.degree_increase(1), ci.ctrlpoints)[1])
t("int integrate", lambda: Integrate.scalar(Curve([0,0,0,1,2,2,2],[1,2,-1,3])))
# numpy float64 knots
cn = Curve(np.array([0,0,0,.5,1,1,1]), np.array([1.,2.,-1.,3.]))
t("np eval", lambda: (cn(0.25), type(cn(0.25))))
