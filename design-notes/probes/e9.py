import warnings; warnings.filterwarnings("ignore")
from fractions import Fraction as F
from copy import copy
import numpy as np
from compmec.nurbs import Curve, Projection, Intersection, KnotVector, Function
def t(label, f):
    try:
        r = f()
        print(label, "->", repr(r))
    except Exception as e:
        print(label, "RAISED", type(e).__name__, e)
seg = lambda a,b,p,q: Curve([a,a,b,b],[np.array(p,dtype=float),np.array(q,dtype=float)])
A = seg(0.,1.,(0,0),(1,1)); B = seg(0.,1.,(0,1),(1,0))
t("cross", lambda: Intersection.curve_and_curve(A,B))
C = seg(0.,1.,(0,0.2),(1,1.2))
t("parallel overlapping bbox", lambda: Intersection.curve_and_curve(A,C))
D = seg(0.,1.,(5,5),(6,7))
t("disjoint bbox", lambda: Intersection.curve_and_curve(A,D))
E = seg(0.,1.,(0.6,0.5),(1,0.5))   # near but not touching? A passes (0.5,0.5) ; E starts at 0.6
t("near miss", lambda: Intersection.curve_and_curve(A,E))
poly = Curve([0.,0.,1.,2.,3.,3.],[np.array(p,dtype=float) for p in [(0,0),(1,2),(2,0),(3,2)]])
line = seg(0.,1.,(0,1),(3,1))
t("polyline x line", lambda: Intersection.curve_and_curve(poly,line))
t("touching end", lambda: Intersection.curve_and_curve(A, seg(0.,1.,(1,1),(2,0))))
# Projection
t("proj on polyline", lambda: Projection.point_on_curve((1.5,3), poly))
t("proj on polyline 2", lambda: Projection.point_on_curve((1.0,-1), poly))
t("proj pt on curve", lambda: Projection.point_on_curve(tuple(poly(0.7)), poly))
t("proj far", lambda: Projection.point_on_curve((10,10), poly))
bez = Curve([0.,0.,0.,1.,1.,1.],[np.array(p,dtype=float) for p in [(0,0),(1,2),(2,0)]])
t("proj bezier", lambda: Projection.point_on_curve((1.,0.), bez))
t("proj bezier sym", lambda: Projection.point_on_curve((1.,5.), bez))
# Function indexing
f = Function([F(0),F(0),F(0),F(1,2),F(1),F(1),F(1)])
t("f(1/4)", lambda: f(F(1,4)))
t("f[1,1](1/4)", lambda: f[1,1](F(1,4)))
t("f[:,1](1/4)", lambda: f[:,1](F(1,4)))
t("f[:,0]([0,1/2,1])", lambda: f[:,0]([F(0),F(1,2),F(1)]))
t("f[-1](1)", lambda: f[-1](F(1)))
t("f[1:3](1/4)", lambda: f[1:3](F(1,4)))
t("f[0,3]", lambda: f[0,3])
t("f[4]", lambda: f[4])
f.weights=[F(1),F(2),F(1),F(3)]
t("rat f(1/4)", lambda: f(F(1,4)))
t("rat f[:,1](1/4)", lambda: f[:,1](F(1,4)))
