import warnings; warnings.filterwarnings("ignore")
from fractions import Fraction as F
from copy import copy, deepcopy
import numpy as np
from compmec.nurbs import KnotVector, GeneratorKnotVector, Curve, Function, Derivate, Integrate, Projection, Intersection
from compmec.nurbs import heavy
def t(label, f):
    try:
        r = f()
        print(label, "->", repr(r))
    except Exception as e:
        print(label, "RAISED", type(e).__name__, e)
def snap(c): return (tuple(map(str,c.knotvector)), tuple(map(str,c.ctrlpoints)) if c.ctrlpoints is not None else None, tuple(map(str,c.weights)) if c.weights is not None else None)
# C10 quadrature exactness
def exact_order(nodes, w):
    k=0
    while True:
        s = sum(wi*ni**k for wi,ni in zip(w,nodes))
        if isinstance(s, F):
            ok = s == F(1,k+1)
        else: ok = abs(float(s)-1/(k+1))<1e-11
        if not ok: return k
        k+=1
        if k>60: return k
for n in range(1,10):
    row=[n]
    if n>1: row.append(("closed", exact_order(heavy.NodeSample.closed_linspace(n), heavy.IntegratorArray.closed_newton_cotes(n))))
    row.append(("open", exact_order(heavy.NodeSample.open_linspace(n), heavy.IntegratorArray.open_newton_cotes(n))))
    row.append(("cheb", exact_order(heavy.NodeSample.chebyshev(n), heavy.IntegratorArray.chebyshev(n))))
    row.append(("gauss", exact_order(heavy.NodeSample.gauss_legendre(n), heavy.IntegratorArray.gauss_legendre(n))))
    print(row)
print("cheb(3) w", heavy.IntegratorArray.chebyshev(3), "cheb(4)", heavy.IntegratorArray.chebyshev(4))
print("gauss(3) w", heavy.IntegratorArray.gauss_legendre(3), heavy.NodeSample.gauss_legendre(3))
print("gauss(1) ", heavy.IntegratorArray.gauss_legendre(1), heavy.NodeSample.gauss_legendre(1))
print("types cheby nodes", [type(x) for x in heavy.NodeSample.chebyshev(1)], [type(x) for x in heavy.NodeSample.chebyshev(2)])
A = Curve([F(0),F(0),F(0),F(1,3),F(1,3),F(1),F(1),F(1)], [F(1),F(2),F(-1),F(3),F(5)])
kv = list(A.knotvector); p=2
exact = sum(P*(kv[i+p+1]-kv[i])/(p+1) for i,P in enumerate(A.ctrlpoints))
t("Integrate.scalar", lambda: (Integrate.scalar(A), exact))
for m in ["closed-newton-cotes","open-newton-cotes","chebyshev","gauss-legendre"]:
    t("Integrate.scalar "+m, lambda: (Integrate.scalar(A, method=m), float(exact)))
t("Integrate.function x^2 deg2 kv", lambda: Integrate.function(A.knotvector, lambda x: x*x))
poly = Curve([F(0),F(0),F(1),F(3),F(3)], [np.array([F(0),F(0)]), np.array([F(3),F(4)]), np.array([F(3),F(0)])])
t("lenght polyline", lambda: Integrate.lenght(poly))
polyf = Curve([0.,0.,1.,3.,3.], [np.array([0.,0.]), np.array([3.,4.]), np.array([3.,0.])])
t("lenght polyline float", lambda: Integrate.lenght(polyf))
