import warnings; warnings.filterwarnings("ignore")
from fractions import Fraction as F
from copy import copy, deepcopy
import numpy as np
from compmec.nurbs import Curve, KnotVector, Derivate, Integrate, Projection, Intersection
from compmec.nurbs import heavy
def t(label, f):
    try:
        r = f()
        print(label, "->", repr(r))
    except Exception as e:
        print(label, "RAISED", type(e).__name__, e)
def snap(c): return (tuple(map(str,c.knotvector)), tuple(map(str,c.ctrlpoints)) if c.ctrlpoints is not None else None, tuple(map(str,c.weights)) if c.weights is not None else None)
A = Curve([F(0),F(0),F(1),F(1)], [F(1),F(2)])
Bz = Curve([F(0),F(0),F(0),F(1),F(1),F(1)], [F(1),F(0),F(1)])
t("A/Bz zero ctrl pt", lambda: snap(A/Bz))
Bn = Curve([F(0),F(0),F(0),F(1),F(1),F(1)], [F(1),F(-1,2),F(1)])   # min of fn: (1-t)^2 - t(1-t) + t^2 = 1-3t+3t^2 >= 1/4 >0
t("A/Bn negative ctrl pt", lambda: (snap(A/Bn), [(A/Bn)(u)==A(u)/Bn(u) for u in [F(0),F(1,3),F(1,2),F(1)]]))
t("1/Bn", lambda: snap(1/Bn))
# weights setter with zero exactly at a sample point
t("weights with root at sample", lambda: Curve([F(0),F(0),F(1),F(1)], [F(1),F(2)], [F(-1),F(1)]))
t("weights negative all", lambda: snap(Curve([F(0),F(0),F(1),F(1)], [F(1),F(2)], [F(-1),F(-2)])))
t("weights wrong len", lambda: snap(Curve([F(0),F(0),F(1),F(1)], [F(1),F(2)], [F(1),F(2),F(3)])))
# shared kv object
kv = KnotVector([F(0),F(0),F(1),F(1)])
c1 = Curve(kv,[F(1),F(2)]); c2 = Curve(kv,[F(3),F(4)])
print("shared kv object:", c1.knotvector is c2.knotvector)
c1.knot_insert([F(1,2)]); print(" after c1.knot_insert: c2", snap(c2), "kv", list(map(str,kv)))
c1.degree_increase(1); print(" after c1.degree_increase: c2", snap(c2))
c3 = copy(c2); c3.knot_insert([F(1,3)]); print(" copy independent:", snap(c2))
# update via knotvector setter with shared KV object
kv2 = KnotVector([F(0),F(0),F(1,2),F(1),F(1)])
c2.knotvector = kv2; c4 = Curve(kv2); print(" c2.knotvector is kv2:", c2.knotvector is kv2)
c4.knot_insert([F(1,4)]); print(" c4 insert (no ctrlpts) -> c2:", snap(c2), c2.npts, len(c2.ctrlpoints))
# ctrlpoints wrong number leaves unchanged
c = Curve([F(0),F(0),F(1),F(1)], [F(1),F(2)])
t("set wrong ctrlpoints", lambda: setattr(c,'ctrlpoints',[F(1)])); print(" after", snap(c))
t("set knotvector diff limits", lambda: setattr(c,'knotvector',[F(0),F(0),F(2),F(2)])); print(" after", snap(c))
t("set knotvector coarser impossible", lambda: setattr(c,'knotvector',[F(0),F(1)])); print(" after", snap(c))
# rational curve ops atomicity: knot_insert making weights fn... 
cr = Curve([F(0),F(0),F(0),F(1),F(1),F(1)], [F(1),F(2),F(-1)], [F(1),F(2),F(1)])
t("rational degree_increase", lambda: (cr.degree_increase(1), snap(cr))[1])
cr = Curve([F(0),F(0),F(0),F(1),F(1),F(1)], [F(1),F(2),F(-1)], [F(1),F(2),F(1)])
t("rational clean", lambda: (cr.clean(), snap(cr))[1])
cr1 = Curve([F(0),F(0),F(0),F(1),F(1),F(1)], [F(1),F(2),F(-1)], [F(2),F(2),F(2)])
t("rational clean const weights", lambda: (cr1.clean(), snap(cr1))[1])
# derivative multi-span C0 and disc
D = Curve([F(0),F(0),F(0),F(1,2),F(1,2),F(1,2),F(1),F(1),F(1)], [F(1),F(2),F(5),F(3),F(0),F(1)])
t("deriv disc", lambda: snap(Derivate(D)))
t("deriv disc eval", lambda: Derivate(D)([F(0),F(1,4),F(1,2),F(3,4),F(1)]))
