"""C19 - projection returns nearest-point parameters (polylines)."""
import random

from common import F, cq, cql, cqll, cres, ctuple, fsl, fs, pts_json

PREWARM = False      # see impl_runner: no float pre-run for this stream
COQ_MODULE = "NurbsV.Check.C19"
CHECK_FN = "check_case"
CASE_TYPE = "case"
SHARD = 150
RULE = ("polylines (degree 1, simple knots) with 1-8 segments, dyadic vertices in the plane or in space and dyadic "
        "non-uniform knots (so the float computation is exact or within rounding of the exact model); points on the "
        "curve (vertices, interior points of a segment), off the curve, beyond the ends, and configurations with ties "
        "(equidistant from two pieces); non-trivial = at least 2 segments")


def polyline(rnd, nseg, dim):
    while True:
        P = [[F(rnd.randint(-32, 32), 8) for _ in range(dim)] for _ in range(nseg + 1)]
        if all(P[i] != P[i + 1] for i in range(nseg)):
            break
    ks = [F(0)]
    for _ in range(nseg):
        ks.append(ks[-1] + F(rnd.randint(1, 16), 8))
    off = F(rnd.randint(-16, 16), 8)
    return [k + off for k in ks], P


def gen(tier, seed):
    rnd = random.Random(seed)
    cases = []
    for i in range(260 if tier == "quick" else 5000):
        nseg = rnd.randint(1, 8)
        dim = rnd.choice((2, 2, 3))
        ks, P = polyline(rnd, nseg, dim)
        mode = rnd.choice(["off", "off", "vertex", "interior", "tie", "far", "thin"])
        k = rnd.randrange(nseg)
        if mode == "vertex":
            x = list(P[rnd.randrange(nseg + 1)])
        elif mode == "interior":
            lam = F(rnd.randint(1, 7), 8)
            x = [a + lam * (b - a) for a, b in zip(P[k], P[k + 1])]
        elif mode == "tie" and dim == 2:
            # an L-shaped polyline and a point on the bisector
            h = F(rnd.randint(1, 8), 4)
            P = [[F(0), F(0)], [h, F(0)], [h, h]] + [[h + F(j + 1), h + F(rnd.randint(3, 9))] for j in range(rnd.randint(0, 2))]
            ks = [F(j) for j in range(len(P))]
            d = F(rnd.randint(1, 3), 4) * h
            x = [h - d, d] if d < h else [h / 2, h / 2]
        elif mode == "thin":
            # a thin V: the second leg passes within about 5e-4 of a point of the first leg (distances that differ by
            # more than 1e-6 although their squares differ by less)
            h = rnd.choice([F(1, 1024), F(1, 2048), F(3, 4096)])
            L = F(rnd.randint(1, 4))
            P = [[F(0), F(0)], [L, F(0)], [F(0), h * L]] + ([[F(-1), F(2)]] if rnd.random() < 0.5 else [])
            ks = [F(0), F(1), F(3)] + ([F(4)] if len(P) == 4 else [])
            x = [L * F(rnd.randint(1, 7), 8), F(0)]
        elif mode == "far":
            x = [F(rnd.randint(-400, 400), 4) for _ in range(dim)]
        else:
            x = [F(rnd.randint(-40, 40), 8) for _ in range(dim)]
        cases.append({"ks": fsl(ks), "P": pts_json(P), "x": fsl(x), "mode": mode, "nseg": len(P) - 1, "dim": len(x),
                      "elevate": rnd.random() < 0.25})
    return cases


def impl(case):
    import numpy as np
    from compmec.nurbs import Curve
    from compmec.nurbs.advanced import Projection
    from implib import capture, nums, out_num
    ks = [float(k) for k in nums(case["ks"])]
    P = [np.array([float(v) for v in nums(pt)]) for pt in case["P"]]
    U = [ks[0]] + ks + [ks[-1]]
    curve = Curve(U, P)
    if case.get("elevate"):
        curve.degree_increase(1)        # the same polyline stored with a higher degree
    before = (tuple(curve.knotvector), tuple(map(tuple, curve.ctrlpoints)))
    x = [float(v) for v in nums(case["x"])]
    r = capture(lambda: [out_num(t) for t in Projection.point_on_curve(x, curve)], seconds=case.get("timeout", 20))
    same = before == (tuple(curve.knotvector), tuple(map(tuple, curve.ctrlpoints)))
    return {"r": r, "same": same}


def emit(case, out):
    return ctuple(cql(case["ks"]), cqll(case["P"]), cql(case["x"]), cres(out["r"], cql),
                  "true" if out["same"] else "false")


def describe(case):
    return {"mode": case["mode"], "segments": case["nseg"], "dim": case["dim"]}


def nontrivial(case):
    return case["nseg"] >= 2
