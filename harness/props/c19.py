"""C19 - projection returns nearest-point parameters (polylines)."""
import random

from common import F, copt, cq, cql, cqll, cres, ctuple, fsl, fs, pts_json

PREWARM = False      # see impl_runner: no float pre-run for this stream
COQ_MODULE = "NurbsV.Check.C19"
CHECK_FN = "check_case"
CASE_TYPE = "case"
SHARD = 150
RULE = ("polylines (degree 1, simple knots) with 1-8 segments, dyadic vertices in the plane or in space and dyadic "
        "non-uniform knots (so the float computation is exact or within rounding of the exact model); points on the "
        "curve (vertices, interior points of a segment), off the curve, beyond the ends, and configurations with ties "
        "(equidistant from two pieces); the same polylines stored as degree-1 NURBS with random positive weights (same "
        "geometry, warped parameter - the exact model maps the foot parameter through the weights), curves that were "
        "projected on before their control points were replaced, and polylines with a piece of zero length (the point "
        "nearest to another piece); non-trivial = at least 2 segments")


def polyline(rnd, nseg, dim):
    while True:
        P = [[F(rnd.randint(-32, 32), 8) for _ in range(dim)] for _ in range(nseg + 1)]
        if all(P[i] != P[i + 1] for i in range(nseg)):
            break
    ks = [F(0)]
    for _ in range(nseg):
        ks.append(ks[-1] + F(rnd.randint(1, 16), 8))
    off = F(rnd.randint(-16, 16), 8)
    return [k + off for k in ks], P


def gen(tier, seed):
    rnd = random.Random(seed)
    cases = []
    for i in range(260 if tier == "quick" else 20000):
        nseg = rnd.randint(1, 8)
        dim = rnd.choice((2, 2, 3))      # points in the plane or in space (the property does not speak of scalar-valued curves)
        ks, P = polyline(rnd, nseg, dim)
        mode = rnd.choice(["off", "off", "vertex", "interior", "tie", "far", "thin"])
        k = rnd.randrange(nseg)
        if mode == "vertex":
            x = list(P[rnd.randrange(nseg + 1)])
        elif mode == "interior":
            lam = F(rnd.randint(1, 7), 8)
            x = [a + lam * (b - a) for a, b in zip(P[k], P[k + 1])]
        elif mode == "tie" and dim == 2:
            # an L-shaped polyline and a point on the bisector
            h = F(rnd.randint(1, 8), 4)
            P = [[F(0), F(0)], [h, F(0)], [h, h]] + [[h + F(j + 1), h + F(rnd.randint(3, 9))] for j in range(rnd.randint(0, 2))]
            ks = [F(j) for j in range(len(P))]
            d = F(rnd.randint(1, 3), 4) * h
            x = [h - d, d] if d < h else [h / 2, h / 2]
        elif mode == "thin":
            # a thin V: the second leg passes within about 5e-4 of a point of the first leg (distances that differ by
            # more than 1e-6 although their squares differ by less)
            h = rnd.choice([F(1, 1024), F(1, 2048), F(3, 4096)])
            L = F(rnd.randint(1, 4))
            P = [[F(0), F(0)], [L, F(0)], [F(0), h * L]] + ([[F(-1), F(2)]] if rnd.random() < 0.5 else [])
            ks = [F(0), F(1), F(3)] + ([F(4)] if len(P) == 4 else [])
            x = [L * F(rnd.randint(1, 7), 8), F(0)]
        elif mode == "far":
            x = [F(rnd.randint(-400, 400), 4) for _ in range(dim)]
        else:
            x = [F(rnd.randint(-40, 40), 8) for _ in range(dim)]
        case = {"ks": fsl(ks), "P": pts_json(P), "x": fsl(x), "mode": mode, "nseg": len(P) - 1, "dim": len(x),
                "elevate": rnd.random() < 0.25, "W": None, "pre": None}
        r = rnd.random()
        if r < 0.25 and mode != "thin":
            # degree-1 NURBS: same geometry, the parameter of the foot point is warped by the weights
            case["W"] = fsl([F(rnd.randint(1, 8), rnd.choice((1, 2, 4))) for _ in P])
            case["elevate"] = False
            case["mode"] = mode + "+weights"
        elif r < 0.45:
            # the curve had another geometry when it was first projected on (control points replaced afterwards)
            case["pre"] = pts_json([[F(rnd.randint(-32, 32), 8) for _ in range(len(x))] for _ in P])
            case["elevate"] = False
            case["mode"] = mode + "+moved"
        elif r < 0.49 and mode != "thin":
            # geometry far from the origin with small pieces (steps of 1/8 .. 8 around (2^20, -2^19, ..)): sizes are absolute
            off = [F(2 ** 20), F(-2 ** 19), F(2 ** 21)][:len(x)]
            case["P"] = pts_json([[v + o for v, o in zip(pt, off)] for pt in P])
            case["x"] = fsl([v + o for v, o in zip(x, off)])
            case["elevate"] = False
            case["mode"] = mode + "+far-geometry"
        elif r < 0.52:
            # slow parametrisation: knot spans tens of thousands of times longer than the pieces (|C'|^2 of about 1e-9)
            sc = rnd.choice((50000, 200000))
            case["ks"] = fsl([k * sc for k in ks])
            case["elevate"] = False
            case["mode"] = mode + "+slow"
        elif r < 0.60 and mode in ("off", "far", "interior") and len(P) >= 3:
            # a piece of zero length (two equal consecutive vertices); kept only when the nearest point is elsewhere
            j = rnd.randrange(1, len(P))
            Q = [list(v) for v in P]
            Q[j] = list(Q[j - 1])
            if all(Q[i] != Q[i + 1] for i in range(len(Q) - 1) if i != j - 1) and _nearest_not_at(Q, x, Q[j]):
                case["P"] = pts_json(Q)
                case["elevate"] = False
                case["mode"] = mode + "+degenerate"
        cases.append(case)
    return cases


def _nearest_not_at(P, x, v):
    """exact: the minimum of the squared distance over the polyline is strictly smaller than the distance to vertex v"""
    def d2(a, b):
        return sum((s - t) ** 2 for s, t in zip(a, b))
    best = None
    for p, q in zip(P[:-1], P[1:]):
        d = [b - a for a, b in zip(p, q)]
        dd = sum(t * t for t in d)
        lam = F(0) if dd == 0 else max(F(0), min(F(1), sum((s - a) * t for s, a, t in zip(x, p, d)) / dd))
        c = [a + lam * t for a, t in zip(p, d)]
        best = d2(c, x) if best is None else min(best, d2(c, x))
    return best + F(1, 100) < d2(v, x)


def impl(case):
    import numpy as np
    from compmec.nurbs import Curve
    from compmec.nurbs.advanced import Projection
    from implib import capture, nums, out_num
    ks = [float(k) for k in nums(case["ks"])]
    scalar = len(case["x"]) == 1            # a piecewise linear FUNCTION: control points and the point are plain floats
    P = [float(nums(pt)[0]) if scalar else np.array([float(v) for v in nums(pt)]) for pt in case["P"]]
    U = [ks[0]] + ks + [ks[-1]]
    if case.get("pre"):
        curve = Curve(U, [float(nums(pt)[0]) if scalar else np.array([float(v) for v in nums(pt)]) for pt in case["pre"]])
        capture(lambda: Projection.point_on_curve(float(nums(case["x"])[0]) if scalar else [float(v) for v in nums(case["x"])], curve), seconds=60)
        curve.ctrlpoints = P
    else:
        curve = Curve(U, P)
    if case.get("W"):
        curve.weights = [float(w) for w in nums(case["W"])]
    if case.get("elevate"):
        curve.degree_increase(1)        # the same polyline stored with a higher degree
    tup = (lambda pts: tuple(pts)) if scalar else (lambda pts: tuple(map(tuple, pts)))
    before = (tuple(curve.knotvector), tup(curve.ctrlpoints))
    x = float(nums(case["x"])[0]) if scalar else [float(v) for v in nums(case["x"])]
    r = capture(lambda: [out_num(t) for t in Projection.point_on_curve(x, curve)], seconds=case.get("timeout", 60))
    same = before == (tuple(curve.knotvector), tup(curve.ctrlpoints))
    return {"r": r, "same": same}


def emit(case, out):
    return ctuple(cql(case["ks"]), cqll(case["P"]), copt(case.get("W"), cql), cql(case["x"]), cres(out["r"], cql),
                  "true" if out["same"] else "false")


def describe(case):
    return {"mode": case["mode"], "segments": case["nseg"], "dim": case["dim"]}


def nontrivial(case):
    return case["nseg"] >= 2
