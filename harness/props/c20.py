"""C20 - intersection returns exactly the parameter pairs where the curves meet (segments and polylines)."""
import random

from common import F, cq, cql, cqll, cres, clist, ctuple, fsl, fs, pts_json

PREWARM = False      # see impl_runner: no float pre-run for this stream
COQ_MODULE = "NurbsV.Check.C20"
CHECK_FN = "check_case"
CASE_TYPE = "case"
SHARD = 120
RULE = ("pairs of planar polylines (1-4 segments each, dyadic vertices and knots): transversal crossings inside the pieces, "
        "several crossings, crossings at vertices, disjoint curves (far apart, near misses, parallel pieces) and curves "
        "with overlapping bounding boxes that do not meet; non-trivial = at least one crossing or a near miss")


def cross(o, a, b):
    return (a[0] - o[0]) * (b[1] - o[1]) - (a[1] - o[1]) * (b[0] - o[0])


def collinear_overlap(p, q, v, w):
    if cross(p, q, v) != 0 or cross(p, q, w) != 0:
        return False
    k = 0 if p[0] != q[0] else 1
    lo1, hi1 = sorted((p[k], q[k]))
    lo2, hi2 = sorted((v[k], w[k]))
    return max(lo1, lo2) <= min(hi1, hi2)


def poly(rnd, nseg, box=16):
    while True:
        P = [[F(rnd.randint(-box, box), 4), F(rnd.randint(-box, box), 4)] for _ in range(nseg + 1)]
        if all(P[i] != P[i + 1] for i in range(nseg)):
            break
    ks = [F(0)]
    for _ in range(nseg):
        ks.append(ks[-1] + F(rnd.randint(1, 8), 4))
    return ks, P


def meets(Pa, Pb):
    """exact classification: list of (min squared gap) is not needed; returns True when some pair of pieces meets"""
    for i in range(len(Pa) - 1):
        for j in range(len(Pb) - 1):
            p, q, v, w = Pa[i], Pa[i + 1], Pb[j], Pb[j + 1]
            d1, d2 = cross(p, q, v), cross(p, q, w)
            d3, d4 = cross(v, w, p), cross(v, w, q)
            if ((d1 > 0) != (d2 > 0) or d1 == 0 or d2 == 0) and ((d3 > 0) != (d4 > 0) or d3 == 0 or d4 == 0):
                if not (d1 == 0 and d2 == 0):
                    if (d1 * d2 <= 0) and (d3 * d4 <= 0):
                        return True
    return False


def seg_gap2(p, q, v, w):
    """squared distance between two segments that do not meet (endpoint-to-segment distances)"""
    def pd(x, a, b):
        d = [b[0] - a[0], b[1] - a[1]]
        t = ((x[0] - a[0]) * d[0] + (x[1] - a[1]) * d[1]) / (d[0] * d[0] + d[1] * d[1])
        t = max(F(0), min(F(1), t))
        c = [a[0] + t * d[0], a[1] + t * d[1]]
        return (x[0] - c[0]) ** 2 + (x[1] - c[1]) ** 2
    return min(pd(p, v, w), pd(q, v, w), pd(v, p, q), pd(w, p, q))


def gen(tier, seed):
    rnd = random.Random(seed)
    cases = []
    tries = 0
    want = 200 if tier == "quick" else 4000
    while len(cases) < want and tries < 50 * want:
        tries += 1
        na, nb = rnd.randint(1, 4), rnd.randint(1, 4)
        ka, Pa = poly(rnd, na)
        kb, Pb = poly(rnd, nb)
        mode = rnd.choice(["random", "random", "apart", "parallel", "vertex"])
        if mode == "apart":
            Pb = [[x + F(40), y] for x, y in Pb]
        elif mode == "parallel":
            Pb = [[x, y + F(rnd.randint(1, 6), 4)] for x, y in Pa]
            kb = list(ka)
        elif mode == "vertex":
            Pb[rnd.randrange(len(Pb))] = list(Pa[rnd.randrange(len(Pa))])
            if any(Pb[i] == Pb[i + 1] for i in range(len(Pb) - 1)):
                continue
        bad = False
        gaps = []
        for i in range(len(Pa) - 1):
            for j in range(len(Pb) - 1):
                if collinear_overlap(Pa[i], Pa[i + 1], Pb[j], Pb[j + 1]):
                    bad = True
        if bad:
            continue
        m = meets(Pa, Pb)
        if not m:
            g = min(seg_gap2(Pa[i], Pa[i + 1], Pb[j], Pb[j + 1]) for i in range(len(Pa) - 1) for j in range(len(Pb) - 1))
            if g < F(1, 10 ** 6):
                continue          # not a clear miss
            near = g < 1
        else:
            near = False
        cases.append({"ka": fsl(ka), "Pa": pts_json(Pa), "kb": fsl(kb), "Pb": pts_json(Pb), "mode": mode,
                      "elevate": rnd.choice((0, 0, 0, 1, 2, 3)),
                      "meets": m, "near_miss": near})
    return cases


def impl(case):
    import numpy as np
    from compmec.nurbs import Curve
    from compmec.nurbs.advanced import Intersection
    from implib import capture, nums, out_num

    def build(ks, P):
        ks = [float(k) for k in nums(ks)]
        return Curve([ks[0]] + ks + [ks[-1]], [np.array([float(v) for v in nums(pt)]) for pt in P])
    A, B = build(case["ka"], case["Pa"]), build(case["kb"], case["Pb"])
    # the same curves stored in a non-minimal form (degree raised): the answer must not change and the operands stay as they are
    if case.get("elevate", 0) & 1:
        A.degree_increase(1)
    if case.get("elevate", 0) & 2:
        B.degree_increase(1)
    snap = lambda c: (tuple(c.knotvector), tuple(map(tuple, c.ctrlpoints)))
    before = (snap(A), snap(B))
    r = capture(lambda: [[out_num(t), out_num(u)] for t, u in Intersection.curve_and_curve(A, B)], seconds=30)
    return {"r": r, "same": before == (snap(A), snap(B))}


def emit(case, out):
    return ctuple(cql(case["ka"]), cqll(case["Pa"]), cql(case["kb"]), cqll(case["Pb"]),
                  cres(out["r"], lambda ps: clist(ps, lambda p: ctuple(cq(p[0]), cq(p[1])))),
                  "true" if out["same"] else "false")


def describe(case):
    return {"mode": case["mode"], "meets": case["meets"], "near_miss": case["near_miss"],
            "segments": (len(case["Pa"]) - 1, len(case["Pb"]) - 1)}


def nontrivial(case):
    return case["meets"] or case["near_miss"]
