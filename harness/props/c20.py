"""C20 - intersection returns exactly the parameter pairs where the curves meet (segments and polylines)."""
import random

from common import F, cnat, copt, cq, cql, cqll, cres, clist, ctuple, fsl, fs, pts_json

PREWARM = False      # see impl_runner: no float pre-run for this stream
COQ_MODULE = "NurbsV.Check.C20"
CHECK_FN = "check_case"
CASE_TYPE = "case"
SHARD = 120
RULE = ("pairs of planar polylines (1-4 segments each, dyadic vertices and knots): transversal crossings inside the pieces, "
        "several crossings, crossings at vertices, disjoint curves (far apart, near misses, parallel pieces) and curves "
        "with overlapping bounding boxes that do not meet, misses by 3e-6 .. 5e-4 (an end of B just off a piece of A); a "
        "straight segment A stored as a rational quadratic with an interior knot, collinear control points and random "
        "positive weights (same point set, monotone parameter); parameter intervals shifted to about 1e6; curves that were "
        "intersected once before their control points were replaced; non-trivial = at least one crossing or a near miss")


def cross(o, a, b):
    return (a[0] - o[0]) * (b[1] - o[1]) - (a[1] - o[1]) * (b[0] - o[0])


def collinear_overlap(p, q, v, w):
    if cross(p, q, v) != 0 or cross(p, q, w) != 0:
        return False
    k = 0 if p[0] != q[0] else 1
    lo1, hi1 = sorted((p[k], q[k]))
    lo2, hi2 = sorted((v[k], w[k]))
    return max(lo1, lo2) <= min(hi1, hi2)


def poly(rnd, nseg, box=16):
    while True:
        P = [[F(rnd.randint(-box, box), 4), F(rnd.randint(-box, box), 4)] for _ in range(nseg + 1)]
        if all(P[i] != P[i + 1] for i in range(nseg)):
            break
    ks = [F(0)]
    for _ in range(nseg):
        ks.append(ks[-1] + F(rnd.randint(1, 8), 4))
    return ks, P


def meets(Pa, Pb):
    """exact classification: list of (min squared gap) is not needed; returns True when some pair of pieces meets"""
    for i in range(len(Pa) - 1):
        for j in range(len(Pb) - 1):
            p, q, v, w = Pa[i], Pa[i + 1], Pb[j], Pb[j + 1]
            d1, d2 = cross(p, q, v), cross(p, q, w)
            d3, d4 = cross(v, w, p), cross(v, w, q)
            if ((d1 > 0) != (d2 > 0) or d1 == 0 or d2 == 0) and ((d3 > 0) != (d4 > 0) or d3 == 0 or d4 == 0):
                if not (d1 == 0 and d2 == 0):
                    if (d1 * d2 <= 0) and (d3 * d4 <= 0):
                        return True
    return False


def seg_gap2(p, q, v, w):
    """squared distance between two segments that do not meet (endpoint-to-segment distances)"""
    def pd(x, a, b):
        d = [b[0] - a[0], b[1] - a[1]]
        t = ((x[0] - a[0]) * d[0] + (x[1] - a[1]) * d[1]) / (d[0] * d[0] + d[1] * d[1])
        t = max(F(0), min(F(1), t))
        c = [a[0] + t * d[0], a[1] + t * d[1]]
        return (x[0] - c[0]) ** 2 + (x[1] - c[1]) ** 2
    return min(pd(p, v, w), pd(q, v, w), pd(v, p, q), pd(w, p, q))


def gen(tier, seed):
    rnd = random.Random(seed)
    cases = []
    tries = 0
    want = 200 if tier == "quick" else 8000
    while len(cases) < want and tries < 50 * want:
        tries += 1
        na, nb = rnd.randint(1, 4), rnd.randint(1, 4)
        ka, Pa = poly(rnd, na)
        kb, Pb = poly(rnd, nb)
        mode = rnd.choice(["random", "random", "apart", "parallel", "vertex", "tiny_gap", "rational_line"])
        ra = None
        if mode == "tiny_gap":
            # B starts just off an interior point of a piece of A, on its normal, and walks away from it
            i = rnd.randrange(na)
            p, q = Pa[i], Pa[i + 1]
            d = [q[0] - p[0], q[1] - p[1]]
            n = [-d[1], d[0]]
            t = F(rnd.randint(1, 3), 4)
            foot = [p[0] + t * d[0], p[1] + t * d[1]]
            nn = n[0] * n[0] + n[1] * n[1]
            eps = None
            for k in rnd.sample(range(8, 24), 16):
                e = F(1, 2 ** k)
                if F(9, 10 ** 12) < e * e * nn < F(25, 10 ** 8):
                    eps = e
                    break
            if eps is None:
                continue
            v = [foot[0] + eps * n[0], foot[1] + eps * n[1]]
            w = [v[0] + n[0] * F(rnd.randint(1, 4), 4) + d[0] * F(rnd.randint(-2, 2), 4),
                 v[1] + n[1] * F(rnd.randint(1, 4), 4) + d[1] * F(rnd.randint(-2, 2), 4)]
            Pb = [v, w]
            kb = [F(0), F(rnd.randint(1, 8), 4)]
            if rnd.random() < 0.5:
                Pb, kb = [w, v], kb
        elif mode == "rational_line":
            ka, Pa = poly(rnd, 1)
            lam = sorted(rnd.sample([F(j, 8) for j in range(1, 8)], 2))
            p, q = Pa
            ctrl = [p] + [[p[0] + l * (q[0] - p[0]), p[1] + l * (q[1] - p[1])] for l in lam] + [q]
            mid = ka[0] + (ka[1] - ka[0]) * F(rnd.randint(1, 3), 4)
            ra = {"U": fsl([ka[0]] * 3 + [mid] + [ka[1]] * 3), "p": 2, "P": pts_json(ctrl),
                  "W": fsl([F(rnd.randint(1, 6), rnd.choice((1, 2))) for _ in range(4)])}
        if mode == "apart":
            Pb = [[x + F(40), y] for x, y in Pb]
        elif mode == "parallel":
            Pb = [[x, y + F(rnd.randint(1, 6), 4)] for x, y in Pa]
            kb = list(ka)
        elif mode == "vertex":
            Pb[rnd.randrange(len(Pb))] = list(Pa[rnd.randrange(len(Pa))])
            if any(Pb[i] == Pb[i + 1] for i in range(len(Pb) - 1)):
                continue
        if any(Pa[i] == Pa[i + 1] for i in range(len(Pa) - 1)) or any(Pb[i] == Pb[i + 1] for i in range(len(Pb) - 1)):
            continue          # no pieces of zero length in this stream
        bad = False
        gaps = []
        for i in range(len(Pa) - 1):
            for j in range(len(Pb) - 1):
                if collinear_overlap(Pa[i], Pa[i + 1], Pb[j], Pb[j + 1]):
                    bad = True
        if bad:
            continue
        m = meets(Pa, Pb)
        if not m:
            g = min(seg_gap2(Pa[i], Pa[i + 1], Pb[j], Pb[j + 1]) for i in range(len(Pa) - 1) for j in range(len(Pb) - 1))
            if g < F(9, 10 ** 12):
                continue          # not a clear miss (closer than 3e-6)
            if mode != "tiny_gap" and g < F(1, 10 ** 6):
                continue
            near = g < 1
        else:
            near = False
        case = {"ka": fsl(ka), "Pa": pts_json(Pa), "kb": fsl(kb), "Pb": pts_json(Pb), "mode": mode, "ra": ra,
                "elevate": rnd.choice((0, 0, 0, 1, 2, 3)) if ra is None else rnd.choice((0, 2)),
                "meets": m, "near_miss": near, "pre": None}
        r = rnd.random()
        if ra is None and r < 0.15:
            # parameter intervals far from the origin (around 1e6): distinct crossings stay distinct, relative to nothing
            off = F(rnd.choice((10 ** 6, 2 * 10 ** 6 + 1)))
            case["ka"], case["kb"] = fsl([k + off for k in ka]), fsl([k + off / 2 for k in kb])
            case["mode"] = mode + "+far-knots"
        elif ra is None and r < 0.30:
            # A had another geometry when it was first intersected; its control points were replaced afterwards
            case["pre"] = pts_json([[F(rnd.randint(-16, 16), 4), F(rnd.randint(-16, 16), 4)] for _ in Pa])
            case["elevate"] = case["elevate"] & 2
            case["mode"] = mode + "+moved"
        cases.append(case)
    return cases


def impl(case):
    import numpy as np
    from compmec.nurbs import Curve
    from compmec.nurbs.advanced import Intersection
    from implib import capture, nums, out_num

    def build(ks, P):
        ks = [float(k) for k in nums(ks)]
        return Curve([ks[0]] + ks + [ks[-1]], [np.array([float(v) for v in nums(pt)]) for pt in P])
    A, B = build(case["ka"], case["Pa"]), build(case["kb"], case["Pb"])
    if case.get("pre"):
        A = build(case["ka"], case["pre"])
        capture(lambda: Intersection.curve_and_curve(A, B), seconds=90)
        A.ctrlpoints = [np.array([float(v) for v in nums(pt)]) for pt in case["Pa"]]
    if case.get("ra"):
        ra = case["ra"]
        A = Curve([float(k) for k in nums(ra["U"])], [np.array([float(v) for v in nums(pt)]) for pt in ra["P"]])
        A.weights = [float(w) for w in nums(ra["W"])]
    # the same curves stored in a non-minimal form (degree raised): the answer must not change and the operands stay as they are
    if case.get("elevate", 0) & 1:
        A.degree_increase(1)
    if case.get("elevate", 0) & 2:
        B.degree_increase(1)
    snap = lambda c: (tuple(c.knotvector), tuple(map(tuple, c.ctrlpoints)))
    before = (snap(A), snap(B))
    r = capture(lambda: [[out_num(t), out_num(u)] for t, u in Intersection.curve_and_curve(A, B)], seconds=90)
    return {"r": r, "same": before == (snap(A), snap(B))}


def emit(case, out):
    ra = copt(case.get("ra"), lambda c: ctuple(cql(c["U"]), cnat(c["p"]), cqll(c["P"]), copt(c["W"], cql)))
    return ctuple(cql(case["ka"]), cqll(case["Pa"]), ra, cql(case["kb"]), cqll(case["Pb"]),
                  cres(out["r"], lambda ps: clist(ps, lambda p: ctuple(cq(p[0]), cq(p[1])))),
                  "true" if out["same"] else "false")


def describe(case):
    return {"mode": case["mode"], "meets": case["meets"], "near_miss": case["near_miss"],
            "segments": (len(case["Pa"]) - 1, len(case["Pb"]) - 1)}


def nontrivial(case):
    return case["meets"] or case["near_miss"]
