"""C13 - curve equality means equality as functions, independent of representation."""
import random

from common import (F, cnat, copt, cq, cql, cqll, cres, ctuple, fsl, fs, distinct, npts_of, pts_json,
                    rand_points, rand_weights, random_vector, shape_vectors)

COQ_MODULE = "NurbsV.Check.C13"
CHECK_FN = "check_case"
CASE_TYPE = "case"
SHARD = 8
RULE = ("pairs: a curve and a copy refined by knot insertion and/or degree elevation (done by the implementation), compared "
        "in both operand orders; the same with one refined control point moved (by 1e-3, by 1e-7, by 1/2 on coordinates of size 1e5: different; by 1e-12: equal "
        "within the tolerance); independent curves on the same interval and on different intervals; non-curve right "
        "operands; non-trivial = degree >= 1 and the two operands have different knot vectors")


def gen(tier, seed):
    rnd = random.Random(seed)
    vecs = shape_vectors(3, 2) if tier == "quick" else shape_vectors(3, 3)
    vecs += [random_vector(rnd, pmax=3, mmax=2) for i in range(8 if tier == "quick" else 150)]
    cases = []
    for v in vecs:
        U, p = v["U"], v["p"]
        n = npts_of(U, p)
        if n > (6 if tier == "quick" else 8):
            continue
        if tier == "quick" and rnd.random() < (0.4 if v["kind"] == "uniform" else 0.1):
            continue
        ks = distinct(U)
        mids = [(x + y) / 2 for x, y in zip(ks[:-1], ks[1:])]
        dim = rnd.choice((1, 1, 2))
        base = {"U": fsl(U), "p": p, "kind": v["kind"], "mults": v["mults"], "scalar": dim == 1,
                "P": pts_json(rand_points(rnd, n, dim))}
        modes = ["same", "refined", "refined", "moved", "tiny", "other", "interval", "cross", "cross", "cross_other",
                 "line_vs_kink", "moved_small", "moved_big"]
        for mode in (modes if tier != "quick" else rnd.sample(modes, 4)):
            ins = rnd.sample(mids, min(len(mids), rnd.randint(0, 2)))
            elev = rnd.choice((0, 0, 1, 2, 3) if n <= 3 else (0, 0, 1)) if n <= 5 else 0
            if mode in ("refined", "moved", "tiny", "moved_small", "moved_big") and not ins and not elev:
                ins = mids[:1]
            ins2 = []
            if mode in ("cross", "cross_other"):
                # both operands are refinements of the same curve by DIFFERENT multisets over the same knot values
                free = [x for x in ks[1:-1] if U.count(x) <= p]
                if len(free) < 2:
                    continue
                x, y = rnd.sample(free, 2)
                ins, ins2, elev = [x], [y], 0
            cases.append(dict(base, mode=mode, ins=fsl(ins), ins2=fsl(ins2), elev=elev, which=rnd.randint(0, 50),
                              P2=pts_json(rand_points(rnd, n, dim)), P3=pts_json(rand_points(rnd, 2, dim)), swap=rnd.random() < 0.5))
    return cases


def impl(case):
    import numpy as np
    from copy import deepcopy
    from compmec.nurbs import Curve
    from implib import capture, nums, points, curve_state
    A = Curve(nums(case["U"]), points(case["P"], case["scalar"]))
    mode = case["mode"]
    if mode == "other":
        B = Curve(nums(case["U"]), points(case["P2"], case["scalar"]))
    elif mode == "interval":
        B = Curve([u + 1 for u in nums(case["U"])], points(case["P"], case["scalar"]))
    else:
        B = deepcopy(A)
    if mode == "line_vs_kink":
        # a lower-degree curve with a genuine kink / jump against a smooth curve raised by two or three degrees
        U = nums(case["U"])
        B = Curve([U[0]] * 2 + [U[-1]] * 2, points(case["P3"], case["scalar"]))
        B.degree_increase(case["which"] % 2 + 2)
    if mode in ("cross", "cross_other"):
        A.knot_insert(nums(case["ins2"]))
        B.knot_insert(nums(case["ins"]))
        if mode == "cross_other":
            B.ctrlpoints = list(A.ctrlpoints)       # same numbers on a different vector: a different function
    if mode == "moved_big":
        # large coordinates: a difference of 1/2 is small RELATIVE to them, but far beyond the absolute 1e-9
        A.ctrlpoints = [100000 * pt for pt in A.ctrlpoints]
        B = deepcopy(A)
    if mode in ("refined", "moved", "tiny", "moved_small", "moved_big"):
        if case["ins"]:
            B.knot_insert(nums(case["ins"]))
        if case["elev"]:
            B.degree_increase(case["elev"])
    if mode in ("moved", "tiny", "moved_small", "moved_big"):
        from fractions import Fraction
        pts = list(B.ctrlpoints)
        i = case["which"] % len(pts)
        delta = {"moved": Fraction(1, 1000), "tiny": Fraction(1, 10 ** 12), "moved_small": Fraction(1, 10 ** 7),
                 "moved_big": Fraction(1, 2)}[mode]
        pts[i] = pts[i] + delta if case["scalar"] else pts[i] + np.array([delta] + [0] * (len(pts[i]) - 1), dtype=object)
        B.ctrlpoints = pts
    if case["swap"]:
        A, B = B, A
    sa, sb = curve_state(A), curve_state(B)
    out = {"a": sa, "b": sb,
           "eab": capture(lambda: bool(A == B)), "eba": capture(lambda: bool(B == A)),
           "nab": capture(lambda: bool(A != B)), "eaa": capture(lambda: bool(A == A)),
           "enon": capture(lambda: bool((A == 3) or (A == "curve") or (A == None) or (A == tuple(A.knotvector))
                                        or (A != 3) is False))}
    out["a2"], out["b2"] = curve_state(A), curve_state(B)
    return out


def cocurve(s):
    P = s["P"] if s["P"] is not None else []
    return ctuple(cql(s["U"]), cnat(s["p"]), cqll(P), copt(s["W"], cql))


def cb(r):
    return cres(r, lambda b: "true" if b else "false")


def emit(case, out):
    a = out["a"] if not out.get("_floats") else dict(out["a"], U=[])
    return ctuple(cocurve(a), cocurve(out["b"]), "ETrue" if case["mode"] == "tiny" else "EFun",
                  cb(out["eab"]), cb(out["eba"]), cb(out["nab"]), cb(out["eaa"]), cb(out["enon"]),
                  cocurve(out["a2"]), cocurve(out["b2"]))


def describe(case):
    return {"mode": case["mode"], "degree": case["p"], "kind": case["kind"], "swap": case["swap"],
            "elevated": case["elev"] > 0}


def nontrivial(case):
    return case["p"] >= 1 and case["mode"] in ("refined", "moved", "tiny", "cross", "cross_other", "moved_small", "moved_big")
