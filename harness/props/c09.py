"""C09 - Derivate(curve) is the derivative of the curve."""
import random

from common import (F, cnat, copt, cq, cql, cqll, cres, ctuple, fsl, fs, distinct, npts_of, pts_json,
                    rand_points, rand_weights, random_vector, shape_vectors)

COQ_MODULE = "NurbsV.Check.C09"
CHECK_FN = "check_case"
CASE_TYPE = "case"
SHARD = 10
RULE = ("exhaustive shapes of degree 0-4 (Bezier, multi-span, repeated and full-multiplicity knots, non-uniform "
        "positions), dimension 1-2, polynomial and rational (positive weights); the result is checked on every span "
        "against the integral identity int_a^x D = C(x) - C(a) at enough points (polynomial) or against the quotient "
        "rule with exact derivatives of numerator and denominator (rational); non-trivial = degree >= 1 and an "
        "interior knot")


def gen(tier, seed):
    rnd = random.Random(seed)
    vecs = shape_vectors(3, 2) if tier == "quick" else shape_vectors(4, 3)
    vecs += [random_vector(rnd, pmax=4, mmax=3) for i in range(15 if tier == "quick" else 900)]
    cases = []
    for v in vecs:
        U, p = v["U"], v["p"]
        n = npts_of(U, p)
        if n > (8 if tier == "quick" else 11):
            continue
        if tier == "quick" and v["kind"] == "uniform" and rnd.random() < 0.4:
            continue
        for rational in ((False, True) if (tier != "quick" or rnd.random() < 0.35) else (False,)):
            if rational and (n > 5 or p > 2):
                continue
            dim = rnd.choice((1, 1, 2))
            cases.append({"U": fsl(U), "p": p, "kind": v["kind"], "mults": v["mults"], "scalar": dim == 1,
                          "P": pts_json(rand_points(rnd, n, dim)),
                          "W": (fsl([F(rnd.choice((2, 3, 1)), rnd.choice((1, 3)))] * n) if rnd.random() < 0.3
                                else fsl(rand_weights(rnd, n))) if rational else None,
                          # a representation that is NOT minimal (degree raised by the implementation first): the
                          # derivative must not tidy up its operand
                          "elevate": (rnd.choice((1, 2)) if (not rational and p <= 2 and n <= 5 and rnd.random() < 0.5) else 0)})
    # integer knot vectors with non-unit spacing, given as Python ints (coefficients p / (u_(i+p) - u_i) are not integers)
    for i in range(8 if tier == "quick" else 60):
        p = rnd.randint(1, 3)
        m = rnd.randint(1, 3)
        ks = sorted(rnd.sample(range(-3, 12), m + 2))
        U = [F(ks[0])] * (p + 1) + sum(([F(k)] * rnd.randint(1, p) for k in ks[1:-1]), []) + [F(ks[-1])] * (p + 1)
        n = npts_of(U, p)
        dim = rnd.choice((1, 2))
        cases.append({"U": fsl(U), "p": p, "kind": "int-knots", "mults": [U.count(F(k)) for k in ks[1:-1]], "scalar": dim == 1,
                      "P": pts_json(rand_points(rnd, n, dim)), "W": None, "elevate": 0, "intknots": True})
    # integer control points given as Python ints / an integer numpy array (the derivative's coefficients are not integers),
    # and curves far from the origin whose extent is tiny compared with their distance to it (2^24 against 1e-2)
    for i in range(10 if tier == "quick" else 80):
        v = rnd.choice([w for w in vecs if w["p"] >= 1 and npts_of(w["U"], w["p"]) <= 7])
        U, p = v["U"], v["p"]
        n = npts_of(U, p)
        dim = rnd.choice((1, 2))
        if i % 2 == 0:
            P = [[F(rnd.randint(-9, 9)) for _ in range(dim)] for _ in range(n)]
            cases.append({"U": fsl(U), "p": p, "kind": v["kind"] + "-intpoints", "mults": v["mults"], "scalar": dim == 1,
                          "P": pts_json(P), "W": None, "elevate": 0, "intpoints": True})
        else:
            off = [F(2 ** 24), F(-3 * 2 ** 22)][:dim]
            P = [[o + F(rnd.randint(-64, 64), 4096) for o in off] for _ in range(n)]
            cases.append({"U": fsl(U), "p": p, "kind": v["kind"] + "-far-small", "mults": v["mults"], "scalar": dim == 1,
                          "P": pts_json(P), "W": None, "elevate": 0})
    # rational Bezier curves of degree 4 and 5 (products of degree 8 and 10 inside the quotient rule)
    for p in ((4, 5) if tier == "quick" else (4, 5, 4, 5, 6)):
        a, b = rnd.choice(((F(0), F(1)), (F(-1), F(2)), (F(1, 2), F(3))))
        U = [a] * (p + 1) + [b] * (p + 1)
        dim = rnd.choice((1, 2))
        cases.append({"U": fsl(U), "p": p, "kind": "rational-bezier-high", "mults": [], "scalar": dim == 1,
                      "P": pts_json(rand_points(rnd, p + 1, dim)), "W": fsl(rand_weights(rnd, p + 1)), "elevate": 0})
    return cases


def impl(case):
    from compmec.nurbs import Curve
    from compmec.nurbs.calculus import Derivate
    from implib import capture, nums, points, curve_state
    U = nums(case["U"])
    if case.get("intknots"):
        U = [int(u) for u in U]
    pts = points(case["P"], case["scalar"])
    if case.get("intpoints"):
        import numpy as np
        pts = [int(x) for x in pts] if case["scalar"] else [np.array([int(x) for x in pt]) for pt in pts]
    curve = Curve(U, pts)
    if case["W"] is not None:
        curve.weights = nums(case["W"])
    if case.get("elevate"):
        curve.degree_increase(case["elevate"])
    # the same kind of curve on an interval of another length is differentiated first in the same process: results must
    # not depend on what was computed before (anything memoised per degree must not carry the interval along)
    def _other():
        U2 = [3 * (u - nums(case["U"])[0]) + 1 for u in nums(case["U"])]
        c2 = Curve(U2, points(case["P"], case["scalar"]))
        if case["W"] is not None:
            c2.weights = nums(case["W"])
        Derivate(c2)
    capture(_other)
    before = curve_state(curve)
    r = capture(lambda: curve_state(Derivate(curve)))
    return {"c": before, "r": r, "after": curve_state(curve)}


def cocurve(s):
    P = s["P"] if s["P"] is not None else []
    return ctuple(cql(s["U"]), cnat(s["p"]), cqll(P), copt(s["W"], cql))


def emit(case, out):
    return ctuple(cocurve(out["c"]), cres(out["r"], cocurve), cocurve(out["after"]))


def describe(case):
    return {"degree": case["p"], "kind": case["kind"], "n_interior": len(case["mults"]),
            "full_mult": any(m == case["p"] + 1 for m in case["mults"]), "rational": case["W"] is not None,
            "elevated": case.get("elevate", 0)}


def nontrivial(case):
    return case["p"] >= 1 and len(case["mults"]) >= 1
