"""C17 - KnotVector union / intersection."""
import random

from common import (F, cnat, cql, cres, ctuple, fsl, random_vector, shape_vectors, build_vector, shapes)

COQ_MODULE = "NurbsV.Check.C17"
CHECK_FN = "check_case"
CASE_TYPE = "case"
SHARD = 120
RULE = ("pairs of exhaustive shapes (degree <= 2, <= 2 interior knots, all multiplicity vectors) on shared "
        "position sets, both position kinds, plus random pairs and pairs on different intervals; "
        "non-trivial = different degrees or a shared interior knot with different multiplicities")


def gen(tier, seed):
    rnd = random.Random(seed)
    cases = []
    sh = shapes(2, 2)
    pairs = [(a, b) for a in sh for b in sh]
    if tier == "quick":
        pairs = rnd.sample(pairs, 450)
    for (p, ma), (q, mb) in pairs:
        for kind in (("uniform", "nonuniform") if tier != "quick" else (rnd.choice(("uniform", "nonuniform")),)):
            # shared position pool of 3 interior slots: each vector takes a random subset
            from common import NONUNIF_INTERIOR, NONUNIF_ENDS
            if kind == "uniform":
                a, pool, b = F(0), [F(1, 4), F(1, 2), F(3, 4)], F(1)
            else:
                a, pool, b = NONUNIF_ENDS[0], [F(-1, 4), F(0), F(2, 7)], NONUNIF_ENDS[1]
            ka = sorted(rnd.sample(pool, len(ma)))
            kb = sorted(rnd.sample(pool, len(mb)))
            U = [a] * (p + 1) + sum(([k] * m for k, m in zip(ka, ma)), []) + [b] * (p + 1)
            V = [a] * (q + 1) + sum(([k] * m for k, m in zip(kb, mb)), []) + [b] * (q + 1)
            cases.append({"U": fsl(U), "p": p, "V": fsl(V), "q": q, "kind": kind,
                          "shared": len(set(ka) & set(kb))})
    for i in range(40 if tier == "quick" else 3000):
        u, v = random_vector(rnd, pmax=3, mmax=3), random_vector(rnd, pmax=3, mmax=3)
        V = v["U"]
        if i % 5 == 0:
            V = [x + 1 for x in V]          # different interval (overlapping)
        cases.append({"U": fsl(u["U"]), "p": u["p"], "V": fsl(V), "q": v["p"], "kind": "random",
                      "shared": len(set(u["U"]) & set(V)) - 2})
    # pairs on different intervals in every relative position (nested with ends on knots of the other or not, one end shared,
    # overlapping, touching, disjoint), both operand orders are exercised by the case itself: all must raise ValueError
    for i in range(60 if tier == "quick" else 2000):
        u = random_vector(rnd, pmax=3, mmax=3)
        U, p = u["U"], u["p"]
        q = rnd.randint(0, 3)
        inner = sorted(set(U))
        mode = rnd.choice(("nested_on_knots", "nested_free", "share_left", "share_right", "touch", "disjoint", "contains"))
        lo, hi = U[0], U[-1]
        if mode == "nested_on_knots" and len(inner) >= 3:
            a, b = sorted(rnd.sample(inner, 2))
            if (a, b) == (lo, hi):
                a = inner[1]
        elif mode == "share_left":
            a, b = lo, rnd.choice(inner[1:-1] or [lo + F(1, 3)])
        elif mode == "share_right":
            a, b = rnd.choice(inner[1:-1] or [hi - F(1, 3)]), hi
        elif mode == "touch":
            a, b = hi, hi + 2
        elif mode == "disjoint":
            a, b = hi + 1, hi + 3
        elif mode == "contains":
            a, b = lo - rnd.choice((0, 1)), hi + 1
        else:
            a, b = lo + F(1, 7), hi - F(1, 11)
        mid = [k for k in inner if a < k < b]
        ks = sorted(rnd.sample(mid, min(len(mid), rnd.randint(0, 2))))
        V = [a] * (q + 1) + sum(([k] * rnd.randint(1, q + 1) for k in ks), []) + [b] * (q + 1)
        cases.append({"U": fsl(U), "p": p, "V": fsl(V), "q": q, "kind": "intervals-" + mode,
                      "shared": len(set(U) & set(V))})
    # long parameter intervals (1e4 .. 1e6) with two knots 1/200 apart: distinct in absolute terms, whatever the length
    for i in range(12 if tier == "quick" else 150):
        p, q = rnd.randint(0, 3), rnd.randint(0, 3)
        L = F(rnd.choice((10 ** 4, 10 ** 5, 10 ** 6)))
        x = L * F(rnd.randint(1, 7), 8)
        y = x + F(1, rnd.choice((200, 1000)))
        ku = sorted(rnd.sample([x, y, L / 16, L * F(15, 16)], rnd.randint(1, 3)))
        kv_ = sorted(rnd.sample([x, y, L / 16, L * F(15, 16)], rnd.randint(1, 3)))
        U = [F(0)] * (p + 1) + sum(([k] * rnd.randint(1, p + 1) for k in ku), []) + [L] * (p + 1)
        V = [F(0)] * (q + 1) + sum(([k] * rnd.randint(1, q + 1) for k in kv_), []) + [L] * (q + 1)
        cases.append({"U": fsl(U), "p": p, "V": fsl(V), "q": q, "kind": "long-interval", "shared": len(set(ku) & set(kv_))})
    return cases


def impl(case):
    from compmec.nurbs import KnotVector
    from implib import capture, nums, out_nums
    U, V = KnotVector(nums(case["U"])), KnotVector(nums(case["V"]))
    before = (tuple(U), U.degree, tuple(V), V.degree)

    def view(k):
        return {"U": out_nums(list(k)), "p": int(k.degree)}
    r = {
        "uv": capture(lambda: view(U | V)), "vu": capture(lambda: view(V | U)),
        "auv": capture(lambda: view(U & V)), "avu": capture(lambda: view(V & U)),
        "uu": capture(lambda: view(U | U)), "uvv": capture(lambda: view((U | V) | V)),
        # plain lists as right operands must behave the same
        "uv_list": capture(lambda: view(U | list(V))),
    }
    r["unchanged"] = before == (tuple(U), U.degree, tuple(V), V.degree) and r["uv_list"] == r["uv"]
    r["p"], r["q"] = int(U.degree), int(V.degree)
    return r


def _v(x):
    return ctuple(cql(x["U"]), cnat(x["p"]))


def emit(case, out):
    return ctuple(cql(case["U"]), cnat(out["p"]), cql(case["V"]), cnat(out["q"]),
                  *[cres(out[k], _v) for k in ("uv", "vu", "auv", "avu", "uu", "uvv")],
                  "true" if out["unchanged"] else "false")


def describe(case):
    return {"p": case["p"], "q": case["q"], "kind": case["kind"], "shared_interior": case["shared"]}


def nontrivial(case):
    return case["p"] != case["q"] or case["shared"] > 0
