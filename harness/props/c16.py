"""C16 - results do not depend on the number representation."""
import random

from common import (F, cnat, copt, cq, cql, cqll, cres, ctuple, fsl, fs, distinct, npts_of, pts_json,
                    rand_points, rand_weights, random_vector, shape_vectors)

PREWARM = False      # see impl_runner: no float pre-run for this stream
COQ_MODULE = "NurbsV.Check.C16"
CHECK_FN = "check_case"
CASE_TYPE = "case"
SHARD = 60
RULE = ("each logical operation (evaluation, basis functions, knot insertion and its removal, degree elevation and its "
        "reduction, split and join, + - * /, fit_curve, fit_points, default integration) on well-conditioned data (degree <= "
        "3, knot gaps >= 1/16, weights in [1/2, 4]) is executed with Fraction data, with int points where integral, with "
        "Python floats, with numpy.float64 and (evaluation / insertion / elevation / split) with control points of a class "
        "that only supports point + point and scalar * point; rational curves also with int weights and int points on "
        "Fraction knots (one knot inserted once, split at a new and at an existing knot, elevation); a few curves with 18-20 "
        "control points (solves beyond 16 unknowns); non-trivial = degree >= 1 and an interior knot")

OPS = ["eval", "basis", "insert", "insert_remove", "elevate", "elevate_reduce", "split", "split_join", "add", "mul",
       "div", "fit_curve", "fit_points", "integrate", "rational_eval", "rational_insert", "fit_jump", "fit_points_unordered",
       "rational_insert1", "rational_split", "rational_splitknot", "rational_elevate"]
# operations repeated on LARGE curves (18-20 control points: linear systems beyond 16 unknowns)
LARGE_OPS = ["insert_remove", "elevate_reduce", "fit_points", "fit_curve", "split_join"]   # ("mul" of two 20-point cubics takes 20 s per exact run: too close to any time limit)
GENERIC = {"eval", "insert", "elevate", "split"}


def gen(tier, seed):
    rnd = random.Random(seed)
    vecs = [v for v in shape_vectors(3, 2) if v["kind"] == "uniform" and npts_of(v["U"], v["p"]) <= 6]
    if tier != "quick":
        vecs = vecs * 4           # four independent draws of control points and weights per vector and operation
    cases = []
    for v in vecs:
        U, p = v["U"], v["p"]
        n = npts_of(U, p)
        for op in (OPS if tier != "quick" else rnd.sample(OPS, 5)):
            integral = rnd.random() < 0.5
            P = [[F(rnd.randint(-9, 9)) if integral else F(rnd.randint(-36, 36), rnd.choice((2, 4, 3))) for _ in range(2)]
                 for _ in range(n)]
            if op in ("add", "mul", "div", "integrate", "fit_points", "fit_points_unordered", "fit_jump"):
                P = [[pt[0]] for pt in P]
            W = [F(rnd.randint(2, 16), 4) for _ in range(n)]
            if op.startswith("rational") and integral:
                W = [F(rnd.randint(1, 4)) for _ in range(n)]          # int weights too in the int run
            cases.append({"U": fsl(U), "p": p, "kind": v["kind"], "mults": v["mults"], "op": op, "P": pts_json(P),
                          "P2": pts_json([[F(rnd.randint(1, 9))] for _ in range(n)]), "integral": integral,
                          "W": fsl(W), "seed": rnd.randint(0, 10 ** 6)})
    for op in (LARGE_OPS if tier != "quick" else rnd.sample(LARGE_OPS, 3)):
        p = rnd.randint(1, 3)
        n = rnd.randint(18, 20)
        nseg = n - p
        U = [F(0)] * (p + 1) + [F(i, nseg) for i in range(1, nseg)] + [F(1)] * (p + 1)
        integral = rnd.random() < 0.5
        P = [[F(rnd.randint(-9, 9)) if integral else F(rnd.randint(-36, 36), rnd.choice((2, 4, 3)))] for _ in range(n)]
        cases.append({"U": fsl(U), "p": p, "kind": "large", "mults": [1] * (nseg - 1), "op": op, "P": pts_json(P),
                      "P2": pts_json([[F(rnd.randint(1, 9))] for _ in range(n)]), "integral": integral,
                      "W": fsl([F(1)] * n), "seed": rnd.randint(0, 10 ** 6)})
    # single-span curves of degree 7 and 8 (quadrature rules with 8 and more nodes, Bernstein matrices of that size)
    for op in (["integrate", "elevate_reduce", "insert_remove"] if tier != "quick" else ["integrate", rnd.choice(["elevate_reduce", "insert_remove"])]):
        p = rnd.choice((7, 8))
        U = [F(0)] * (p + 1) + [F(1)] * (p + 1)
        P = [[F(rnd.randint(-36, 36), rnd.choice((2, 4, 3)))] for _ in range(p + 1)]
        cases.append({"U": fsl(U), "p": p, "kind": "bezier-high", "mults": [], "op": op, "P": pts_json(P),
                      "P2": pts_json([[F(rnd.randint(1, 9))] for _ in range(p + 1)]), "integral": False,
                      "W": fsl([F(1)] * (p + 1)), "seed": rnd.randint(0, 10 ** 6)})
    return cases


class Pt:
    """a control point that only knows point + point and scalar * point"""
    def __init__(self, *xs):
        self.xs = tuple(xs)

    def __add__(self, o):
        if not isinstance(o, Pt):
            return NotImplemented
        return Pt(*[a + b for a, b in zip(self.xs, o.xs)])

    def __rmul__(self, s):
        if isinstance(s, Pt):
            return NotImplemented
        return Pt(*[s * a for a in self.xs])

    def __mul__(self, s):
        return self.__rmul__(s)


def _flat(x, acc):
    import numpy as np
    if isinstance(x, Pt):
        for y in x.xs:
            _flat(y, acc)
    elif isinstance(x, (list, tuple, np.ndarray)):
        for y in x:
            _flat(y, acc)
    elif hasattr(x, "knotvector"):
        _flat(list(x.knotvector), acc)
        _flat(list(x.ctrlpoints) if x.ctrlpoints is not None else [], acc)
        _flat(list(x.weights) if x.weights is not None else [], acc)
    elif x is None:
        pass
    else:
        acc.append(x)
    return acc


def _run(case, conv, convp, generic=False):
    """executes the operation with knots/parameters through conv and point coordinates through convp"""
    import numpy as np
    from copy import deepcopy
    from compmec.nurbs import Curve, Function
    from compmec.nurbs.calculus import Integrate
    from implib import nums
    U = [conv(u) for u in nums(case["U"])]
    p = case["p"]
    ks = distinct(sorted(nums(case["U"])))
    a, b = ks[0], ks[-1]
    mids = [conv((x + y) / 2) for x, y in zip(ks[:-1], ks[1:])]
    nodes = [conv(a), conv(a + (b - a) * F(3, 16)), conv((a + b) / 2), conv(a + (b - a) * F(13, 16)), conv(b)]

    def mkpts(Pj):
        pts = [[convp(x) for x in nums(pt)] for pt in Pj]
        if generic:
            return [Pt(*pt) for pt in pts]
        return [pt[0] for pt in pts] if len(pts[0]) == 1 else [np.array(pt, dtype=object if conv is F_ID else None) for pt in pts]
    P = mkpts(case["P"])
    c = Curve(U, P)
    op = case["op"]
    if op.startswith("rational"):
        intw = convp is int and all(w.denominator == 1 for w in nums(case["W"]))
        c.weights = [int(w) if intw else conv(w) for w in nums(case["W"])]
        op = op.split("_")[1]
    if op == "insert1":
        c.knot_insert(mids[:1])             # one knot, once
        return c
    if op == "splitknot":
        inner = [conv(k) for k in ks[1:-1]]
        return list(c.split(inner[:1])) if inner else list(c.split(mids[:1]))
    if op == "eval":
        return [c(u) for u in nodes] + [c(tuple(nodes))]
    if op == "basis":
        f = Function(U)
        return [f(u) for u in nodes] + [f[:, max(p - 1, 0)](nodes[1])]
    if op == "insert":
        c.knot_insert(mids[:2])
        return c
    if op == "insert_remove":
        c.knot_insert(mids[:1])
        c.knot_remove(mids[:1])
        return c
    if op == "elevate":
        c.degree_increase(1)
        return c
    if op == "elevate_reduce":
        c.degree_increase(1)
        c.degree_decrease(1)
        return c
    if op == "split":
        return list(c.split(mids[:1]))
    if op == "split_join":
        ps = c.split(mids[:1])
        return ps[0] | ps[1]
    c2 = Curve(U, mkpts(case["P2"]))
    if op == "add":
        return [c + c2, c - c2, -c, c * conv(F(3, 2))]
    if op == "mul":
        return c * c2
    if op == "div":
        return c / c2
    if op == "fit_curve":
        fine = deepcopy(c)
        fine.knot_insert(mids[:1])
        t = Curve(U)
        err = t.fit_curve(fine)
        return [t, err]
    if op == "fit_jump":
        # a source with a jump (interior knot of multiplicity degree + 1) projected onto the space without that knot
        x = mids[0]
        Uj = sorted(U + [x] * (p + 1 - U.count(x)))
        src = Curve(Uj, [conv(F(((7 * i) % 11) - 5, 2)) for i in range(len(Uj) - p - 1)])
        t = Curve(U)
        err = t.fit_curve(src)
        return [t, err]
    if op == "fit_points_unordered":
        t = Curve(U)
        m = len(P)
        zs = [conv(a + (b - a) * F(i, m - 1)) for i in range(m)] if p >= 1 else [conv(a + (b - a) * F(2 * i + 1, 2 * m)) for i in range(m)]
        order = [0, m - 1] + list(range(1, m - 1)) if m > 2 else list(range(m))      # end points first
        vals = [c(z) for z in zs]
        t.fit_points([vals[i] for i in order], [zs[i] for i in order])
        return t
    if op == "fit_points":
        t = Curve(U)
        m = len(P) + 2
        zs = [conv(a + (b - a) * F(i, m - 1)) for i in range(m)]
        t.fit_points([c(z) for z in zs], zs)
        return t
    if op == "integrate":
        val = Integrate.scalar(c)
        if conv is F_ID and convp is F_ID:
            # exact data: the value is the closed form sum_i P_i (u_(i+p+1) - u_i) / (p + 1), exactly
            Pn = [nums(pt)[0] for pt in case["P"]]
            Un = nums(case["U"])
            want = sum(Pn[i] * (Un[i + p + 1] - Un[i]) / (p + 1) for i in range(len(Pn)))
            if val != want:
                raise ArithmeticError(f"exact integral {val} != closed form {want}")
        return [val]
    raise ValueError(op)


def F_ID(x):
    return x


def impl(case):
    import numpy as np
    from fractions import Fraction
    from implib import capture, out_num
    res = {}

    def flat(run):
        vals = _flat(run(), [])
        types = all(isinstance(v, (int, Fraction, np.integer)) and not isinstance(v, bool) for v in vals)
        return {"vals": [out_num(v) for v in vals], "types": types}
    # the float and int-knot twins of the same operation run FIRST in the same process (results discarded): anything the
    # library memoises under keys that compare equal across number classes must not leak into the exact run
    capture(lambda: _run(case, float, float))
    if all(F(*map(int, u.split("/"))).denominator == 1 for u in case["U"]):
        capture(lambda: _run(case, int, float))
    ex = capture(lambda: flat(lambda: _run(case, F_ID, F_ID)))
    res["exact"] = ex
    res["types"] = bool("ok" in ex and ex["ok"]["types"])
    if case["integral"]:
        r = capture(lambda: flat(lambda: _run(case, F_ID, int)))
        res["ints"] = r
        res["types"] = res["types"] and bool("ok" in r and r["ok"]["types"])
    else:
        res["ints"] = None
    res["floats"] = capture(lambda: flat(lambda: _run(case, float, float)))
    res["np"] = capture(lambda: flat(lambda: _run(case, np.float64, np.float64)))
    if case["op"] in GENERIC or case["op"] == "rational_eval":
        res["generic"] = capture(lambda: flat(lambda: _run(case, F_ID, F_ID, generic=True)))
    else:
        res["generic"] = None
    return res


def _r(r):
    if r is None:
        return "None"
    if "ok" in r:
        return f"(Some (Ok {cql(r['ok']['vals'])}))"
    return "(Some (Err OtherError))"


def _rr(r):
    if "ok" in r:
        return f"(Ok {cql(r['ok']['vals'])})"
    return "(Err OtherError)"


def emit(case, out):
    return ctuple(_rr(out["exact"]), _r(out["ints"]), _rr(out["floats"]), _rr(out["np"]), _r(out["generic"]),
                  "true" if out["types"] else "false")


def describe(case):
    return {"op": case["op"], "degree": case["p"], "n_interior": len(case["mults"]), "integral_points": case["integral"]}


def nontrivial(case):
    return case["p"] >= 1 and len(case["mults"]) >= 1


def evaluations(case):
    return 4 + (1 if case["integral"] else 0) + (1 if (case["op"] in GENERIC or case["op"] == "rational_eval") else 0)
