"""C04 - knot insertion never changes the curve and yields exactly the requested knots."""
import random

from common import (F, cnat, copt, cq, cql, cqll, cres, ctuple, fsl, distinct, npts_of, pts_json,
                    rand_points, rand_weights, random_vector, shape_vectors)

COQ_MODULE = "NurbsV.Check.C04"
CHECK_FN = "check_case"
CASE_TYPE = "case"
SHARD = 25
RULE = ("exhaustive shapes x node multisets (existing knots up to and beyond their free multiplicity, new "
        "nodes, the value 0, several nodes at once, repeated nodes, ends, outside), polynomial and rational; "
        "non-trivial = a successful insertion into a curve of degree >= 1 with at least one interior knot")


def node_multisets(rnd, U, p, tier):
    ks = distinct(U)
    a, b = ks[0], ks[-1]
    inner = ks[1:-1]
    out = []
    mids = [(x + y) / 2 for x, y in zip(ks[:-1], ks[1:])]
    new = [m for m in mids] + ([F(0)] if a < 0 < b and F(0) not in ks else [])
    for x in new[:2 if tier == "quick" else 4]:
        out.append([x])
        out.append([x] * (p + 1))
        out.append([x] * (p + 2))           # one too many
    for x in inner:
        free = p + 1 - U.count(x)
        if free >= 1:
            out.append([x] * free)
        out.append([x] * (free + 1))        # overflow
    if new:
        out.append(sorted(rnd.sample(new, min(len(new), 2)) + (inner[:1] if inner and U.count(inner[0]) <= p else []), reverse=True))
        out.append([new[0], new[-1], new[0]])
    out.append([a])
    out.append([b])
    out.append([a, b])
    out.append([b + F(1, 7)])
    out.append([a - 1] + new[:1])
    out.append([])
    if tier == "quick":
        out = rnd.sample(out, min(len(out), 7))
    return out


def gen(tier, seed):
    rnd = random.Random(seed)
    P, M = (3, 2) if tier == "quick" else (4, 3)
    vecs = shape_vectors(P, M)
    vecs += [random_vector(rnd, pmax=4, mmax=3, big=(i % 4 == 0)) for i in range(25 if tier == "quick" else 500)]
    cases = []
    for v in vecs:
        U, p = v["U"], v["p"]
        n = npts_of(U, p)
        if tier == "quick" and v["kind"] == "uniform" and rnd.random() < 0.5:
            continue
        for nodes in node_multisets(rnd, U, p, tier):
            rational = rnd.random() < 0.5
            dim = rnd.choice((1, 1, 2))
            cases.append({"U": fsl(U), "p": p, "kind": v["kind"], "mults": v["mults"], "scalar": dim == 1,
                          "P": pts_json(rand_points(rnd, n, dim)),
                          "W": fsl(rand_weights(rnd, n)) if rational else None,
                          "nodes": fsl(nodes)})
    return cases


def impl(case):
    from compmec.nurbs import Curve
    from implib import capture, nums, points, curve_state
    curve = Curve(nums(case["U"]), points(case["P"], case["scalar"]))
    if case["W"] is not None:
        curve.weights = nums(case["W"])
    before = curve_state(curve)
    # the same request on float (and int) copies of the data first, in the same process: exact results must not
    # depend on what was computed before (memo tables keyed by equal-comparing numbers)
    import implib

    def _other(conv, convnodes):
        c2 = Curve([conv(u) for u in nums(case["U"])], [conv(num_) for num_ in [nums(pt)[0] for pt in case["P"]]])
        c2.knot_insert([convnodes(x) for x in nums(case["nodes"])])
    capture(lambda: _other(float, float))
    capture(lambda: _other(float, lambda x: x))          # float knots, the very same Fraction nodes
    if all(u.denominator == 1 for u in nums(case["U"])):
        capture(lambda: _other(int, lambda x: x))
    implib.FLOATS.clear()
    r = capture(lambda: curve.knot_insert(nums(case["nodes"])) and None)
    try:
        after = curve_state(curve)
    except Exception:
        after = {"U": [x for x in __import__("implib").out_nums(list(curve.knotvector))], "p": int(curve.degree), "P": None, "W": None}
    return {"before": before, "r": r, "after": after}


def cocurve(s):
    P = s["P"] if s["P"] is not None else []
    return ctuple(cql(s["U"]), cnat(s["p"]), cqll(P), copt(s["W"], cql))


def emit(case, out):
    if out.get("_floats"):            # exact input must give exact output (wf_b [] fails in Coq)
        out = dict(out, before=dict(out["before"], U=[]))
    return ctuple(cocurve(out["before"]), cql(case["nodes"]), cres(out["r"], lambda _: "tt"), cocurve(out["after"]))


def describe(case):
    return {"degree": case["p"], "kind": case["kind"], "n_interior": len(case["mults"]),
            "rational": case["W"] is not None, "n_nodes": len(case["nodes"]),
            "zero_node": "0/1" in case["nodes"]}


def nontrivial(case):
    return case["p"] >= 1 and len(case["mults"]) >= 1 and len(case["nodes"]) >= 1


def shrink(case):
    nodes = case["nodes"]
    for i in range(len(nodes)):
        c = dict(case)
        c["nodes"] = nodes[:i] + nodes[i + 1:]
        yield c
    if case["W"] is not None:
        c = dict(case)
        c["W"] = None
        yield c
