"""C14 - clean() reaches the unique minimal representation without changing the curve."""
import random

from common import (F, cnat, copt, cq, cql, cqll, cres, ctuple, fsl, fs, distinct, npts_of, pts_json,
                    rand_points, random_vector, shape_vectors)

COQ_MODULE = "NurbsV.Check.C14"
CHECK_FN = "check_case"
CASE_TYPE = "case"
SHARD = 3
RULE = ("a generic (hence minimal) curve on an exhaustive shape is refined by the implementation through a random history "
        "of 1-4 knot insertions (new knots, existing knots, repeated) and degree elevations, then clean / knot_clean "
        "(all or named knots) / degree_clean is called twice; the same histories with one refined control point moved by "
        "1e-5 and an explicit tolerance (1e-15: nothing may be removed; default; 1e-2); non-trivial = degree >= 1 and a "
        "history of >= 2 steps")


def generic_points(rnd, n, dim):
    """control points in general position (large random rationals): no knot is removable, no degree reducible,
    except with negligible probability - the start curve is its own minimal representation"""
    return [[F(rnd.randint(-10 ** 4, 10 ** 4), rnd.choice((1, 2, 3, 5, 7, 11))) for _ in range(dim)] for _ in range(n)]


def gen(tier, seed):
    rnd = random.Random(seed)
    vecs = shape_vectors(2, 2) if tier == "quick" else shape_vectors(3, 2)
    vecs += [random_vector(rnd, pmax=2, mmax=2) for i in range(6 if tier == "quick" else 250)]
    cases = []
    for v in vecs:
        U, p = v["U"], v["p"]
        n = npts_of(U, p)
        if n > 5:
            continue
        ks = distinct(U)
        mids = [(x + y) / 2 for x, y in zip(ks[:-1], ks[1:])]
        if ks[0] < 0 < ks[-1] and F(0) not in ks:
            mids.append(F(0))
        # over-elevated by two degrees, then a new simple knot: degree_clean must still come down step by step
        if p + 2 <= 3 and n <= 4:
            for op in (["clean"], ["dclean"]):
                cases.append({"U": fsl(U), "p": p, "kind": v["kind"], "mults": v["mults"], "scalar": True,
                              "P": pts_json(generic_points(rnd, n, 1)),
                              "hist": [["elev", 2] if rnd.random() < 0.5 else ["elev", 1], ["elev", 1], ["ins", fsl(mids[:1])]][-3:],
                              "op": op, "raised": True})
        for rep in range(2 if tier == "quick" else 12):
            dim = rnd.choice((1, 1, 2))
            hist = []
            raised = 0
            cur = {x: U.count(x) for x in ks}
            for _ in range(rnd.randint(1, 3 if tier == "quick" else 4)):
                if rnd.random() < 0.35 and raised < 2 and p + raised < 4:
                    hist.append(["elev", 1])
                    raised += 1
                    cur = {x: m + 1 for x, m in cur.items()}
                else:
                    x = rnd.choice(mids + [k for k in ks[1:-1]])
                    room = p + raised + 1 - cur.get(x, 0)
                    if room <= 0:
                        continue
                    t = rnd.randint(1, min(room, 2))
                    hist.append(["ins", fsl([x] * t)])
                    cur[x] = cur.get(x, 0) + t
            if not hist:
                hist = [["ins", fsl(mids[:1])]]
                cur[mids[0]] = cur.get(mids[0], 0) + 1
            if sum(cur.values()) - (p + raised) - 1 > 8:
                continue
            inner = [x for x in cur if x not in (ks[0], ks[-1])]
            op = rnd.choice([["clean"], ["clean"], ["kclean", None], ["dclean"],
                             ["kclean", fsl(rnd.sample(inner, max(1, len(inner) // 2)))] if inner else ["clean"]])
            cases.append({"U": fsl(U), "p": p, "kind": v["kind"], "mults": v["mults"], "scalar": dim == 1,
                          "P": pts_json(generic_points(rnd, n, dim)), "hist": hist, "op": op, "raised": raised > 0})
    # ALMOST removable: after the history one refined control point is moved by 1e-5 (removal errors of about 1e-12 .. 1e-10),
    # and the operation is called with an explicit tolerance: 1e-15 must refuse everything (curve untouched, exactly),
    # the default and a generous one may accept - never beyond what the tolerance allows
    near = []
    for c in cases:
        if c["p"] >= 1 and not c.get("pert") and rnd.random() < (0.5 if tier == "quick" else 0.7):
            tol = rnd.choice(["1/1000000000000000", "1/1000000000000000", None, "1/100"])
            near.append(dict(c, pert={"i": rnd.randint(0, 50), "delta": "1/100000"}, tol=tol))
    return cases + near


def impl(case):
    from compmec.nurbs import Curve
    from implib import capture, nums, points, curve_state
    curve = Curve(nums(case["U"]), points(case["P"], case["scalar"]))
    start = curve_state(curve)
    for h in case["hist"]:
        if h[0] == "ins":
            curve.knot_insert(nums(h[1]))
        else:
            curve.degree_increase(h[1])
    if case.get("pert"):
        import numpy as np
        from implib import num
        pts = list(curve.ctrlpoints)
        i = case["pert"]["i"] % len(pts)
        d = num(case["pert"]["delta"])
        pts[i] = pts[i] + d if case["scalar"] else pts[i] + np.array([d] + [0] * (len(pts[i]) - 1), dtype=object)
        curve.ctrlpoints = pts
    before = curve_state(curve)
    op = case["op"]
    kw = {}
    if case.get("tol") is not None:
        from implib import num
        kw = {"tolerance": num(case["tol"])}

    def run():
        if op[0] == "clean":
            curve.clean(**kw)
        elif op[0] == "dclean":
            curve.degree_clean(**kw)
        elif op[1] is None:
            curve.knot_clean(**kw)
        else:
            curve.knot_clean(nums(op[1]), **kw)
    r = capture(run)
    after = curve_state(curve)
    capture(run)
    return {"start": start, "before": before, "r": r, "after": after, "after2": curve_state(curve)}


def cocurve(s):
    P = s["P"] if s["P"] is not None else []
    return ctuple(cql(s["U"]), cnat(s["p"]), cqll(P), copt(s["W"], cql))


def emit(case, out):
    op = case["op"]
    cop = {"clean": "OClean", "dclean": "ODegreeClean"}.get(op[0]) or f"(OKnotClean {copt(op[1], cql)})"
    start = out["start"] if not out.get("_floats") else dict(out["start"], U=[])
    return ctuple(cocurve(start), cocurve(out["before"]), cop, "true" if case["raised"] else "false",
                  "true" if case.get("pert") else "false", copt(case.get("tol"), cq),
                  cres(out["r"], lambda _: "tt"), cocurve(out["after"]), cocurve(out["after2"]))


def describe(case):
    return {"degree": case["p"], "kind": case["kind"], "op": case["op"][0], "history": len(case["hist"]),
            "raised": case["raised"], "perturbed": bool(case.get("pert")), "tolerance": case.get("tol") or "default"}


def nontrivial(case):
    return case["p"] >= 1 and len(case["hist"]) >= 2
