"""C07 - splitting restricts the curve exactly; joining adjacent pieces restores it."""
import random

from common import (F, cnat, copt, cq, cql, cqll, cres, clist, ctuple, fsl, distinct, npts_of, pts_json,
                    rand_points, rand_weights, random_vector, shape_vectors, build_vector, rand_q)

COQ_MODULE = "NurbsV.Check.C07"
FAMILIES = 3
RULE = ("split stream: exhaustive shapes x cut sets (existing knots of every multiplicity, new cuts, the value 0, ends, "
        "repeats, unsorted, no argument, outside), polynomial and rational, dimension 1-2; join stream: independently built "
        "adjacent pairs (continuous, C0-discontinuous, different degrees, rational) and non-adjacent pairs; split-then-join "
        "stream; non-trivial = degree >= 1 and (an interior knot or at least one interior cut)")


class Split:
    COQ_MODULE = COQ_MODULE
    CHECK_FN = "check_scase"
    CASE_TYPE = "scase"
    SHARD = 20


class Join:
    COQ_MODULE = COQ_MODULE
    CHECK_FN = "check_jcase"
    CASE_TYPE = "jcase"
    SHARD = 25


class SJ:
    COQ_MODULE = COQ_MODULE
    CHECK_FN = "check_sjcase"
    CASE_TYPE = "sjcase"
    SHARD = 25


def families():
    return {"split": Split, "join": Join, "sj": SJ}


def family_of(case):
    return case["k"]


def cut_sets(rnd, U, p, tier):
    ks = distinct(U)
    a, b = ks[0], ks[-1]
    inner = ks[1:-1]
    mids = [(x + y) / 2 for x, y in zip(ks[:-1], ks[1:])]
    if a < 0 < b and F(0) not in ks:
        mids.append(F(0))
    out = [None, [], [a], [b, a]]
    for x in inner:
        out.append([x])
    for x in mids[:3]:
        out.append([x])
        out.append([x, x])
    if inner and mids:
        out.append([mids[-1], inner[0], mids[0]])              # unsorted, mixed
        out.append(sorted(inner + mids[:2]) + [b])
    out.append([b + F(1, 5)])
    out.append(mids[:1] + [a - F(1, 2)])
    if tier == "quick":
        out = [None] + rnd.sample(out[1:], min(len(out) - 1, 4))
    return out


def mk_curve(rnd, U, p, rational, dim):
    n = npts_of(U, p)
    return {"U": fsl(U), "p": p, "scalar": dim == 1, "P": pts_json(rand_points(rnd, n, dim)),
            "W": fsl(rand_weights(rnd, n)) if rational else None}


def gen(tier, seed):
    rnd = random.Random(seed)
    P, M = (3, 2) if tier == "quick" else (4, 3)
    vecs = shape_vectors(P, M)
    vecs += [random_vector(rnd, pmax=3, mmax=3, big=(i % 4 == 0)) for i in range(15 if tier == "quick" else 300)]
    cases = []
    for v in vecs:
        U, p = v["U"], v["p"]
        if tier == "quick" and v["kind"] == "uniform" and rnd.random() < 0.6:
            continue
        for nodes in cut_sets(rnd, U, p, tier):
            c = mk_curve(rnd, U, p, rnd.random() < 0.5, rnd.choice((1, 1, 2)))
            cases.append({"k": "split", "c": c, "kind": v["kind"], "mults": v["mults"],
                          "nodes": None if nodes is None else fsl(nodes)})
        # split then join
        ks = distinct(U)
        mids = [(x + y) / 2 for x, y in zip(ks[:-1], ks[1:])]
        for nodes in ([ks[1:-1]] if len(ks) > 2 else []) + [mids[:1]] + ([sorted(ks[1:-1] + mids[:2])] if tier != "quick" else []):
            if not nodes:
                continue
            c = mk_curve(rnd, U, p, False, rnd.choice((1, 2)))
            cases.append({"k": "sj", "c": c, "kind": v["kind"], "mults": v["mults"], "nodes": fsl(nodes)})
            if tier != "quick" or rnd.random() < 0.3:
                c = mk_curve(rnd, U, p, True, 1)
                cases.append({"k": "sj", "c": c, "kind": v["kind"], "mults": v["mults"], "nodes": fsl(nodes)})
    # independently built adjacent pairs
    npairs = 120 if tier == "quick" else 1500
    for i in range(npairs):
        va = random_vector(rnd, pmax=3, mmax=2)
        vb = random_vector(rnd, pmax=3, mmax=2)
        Ua, pa = va["U"], va["p"]
        shift = Ua[-1] - vb["U"][0]
        Ub, pb = [x + shift for x in vb["U"]], vb["p"]
        mode = rnd.choice(("continuous", "jump", "jump", "samedeg", "apart", "rational"))
        if mode == "samedeg":
            Ub = [Ua[-1]] * (pa + 1) + [Ua[-1] + 1] * (pa + 1)
            pb = pa
        if mode == "apart":
            Ub = [x + F(1, 3) for x in Ub]
        dim = rnd.choice((1, 2))
        ca = mk_curve(rnd, Ua, pa, mode == "rational", dim)
        cb = mk_curve(rnd, Ub, pb, mode == "rational" and rnd.random() < 0.7, dim)
        if mode in ("continuous", "samedeg", "rational"):
            cb["P"][0] = ca["P"][-1]
        cases.append({"k": "join", "a": ca, "b": cb, "mode": mode, "kind": "random", "mults": va["mults"] + vb["mults"]})
    return cases


def impl(case):
    from compmec.nurbs import Curve
    from implib import capture, nums, points, curve_state

    def build(c):
        cv = Curve(nums(c["U"]), points(c["P"], c["scalar"]))
        if c["W"] is not None:
            cv.weights = nums(c["W"])
        return cv
    if case["k"] == "split":
        cv = build(case["c"])
        before = curve_state(cv)
        r = capture(lambda: [curve_state(x) for x in (cv.split() if case["nodes"] is None else cv.split(nums(case["nodes"])))])
        return {"before": before, "r": r, "after": curve_state(cv)}
    if case["k"] == "join":
        a, b = build(case["a"]), build(case["b"])
        sa, sb = curve_state(a), curve_state(b)
        r = capture(lambda: curve_state(a | b))
        return {"a": sa, "b": sb, "r": r, "a2": curve_state(a), "b2": curve_state(b)}
    cv = build(case["c"])
    before = curve_state(cv)

    def sj():
        ps = cv.split(nums(case["nodes"]))
        j = ps[0]
        for q in ps[1:]:
            j = j | q
        return curve_state(j)
    return {"before": before, "r": capture(sj)}


def cocurve(s):
    P = s["P"] if s["P"] is not None else []
    return ctuple(cql(s["U"]), cnat(s["p"]), cqll(P), copt(s["W"], cql))


def emit(case, out):
    if case["k"] == "split":
        return ctuple(cocurve(out["before"]), copt(case["nodes"], cql),
                      cres(out["r"], lambda ps: clist(ps, cocurve)), cocurve(out["after"]))
    if case["k"] == "join":
        return ctuple(cocurve(out["a"]), cocurve(out["b"]), cres(out["r"], cocurve), cocurve(out["a2"]), cocurve(out["b2"]))
    strict = case.get("strict", case["c"]["W"] is None)
    return ctuple(cocurve(out["before"]), cql(case["nodes"]), cres(out["r"], cocurve), "true" if strict else "false")


def describe(case):
    d = {"stream": case["k"], "kind": case["kind"]}
    if case["k"] == "join":
        d.update({"mode": case["mode"], "pa": case["a"]["p"], "pb": case["b"]["p"]})
    else:
        d.update({"degree": case["c"]["p"], "rational": case["c"]["W"] is not None,
                  "no_argument": case["nodes"] is None, "zero_cut": bool(case["nodes"]) and "0/1" in case["nodes"]})
    return d


def nontrivial(case):
    if case["k"] == "join":
        return max(case["a"]["p"], case["b"]["p"]) >= 1
    return case["c"]["p"] >= 1 and (len(case["mults"]) >= 1 or bool(case["nodes"]))


def shrink(case):
    if case["k"] != "join" and case["nodes"]:
        ns = case["nodes"]
        for i in range(len(ns)):
            c = dict(case)
            c["nodes"] = ns[:i] + ns[i + 1:]
            yield c
    if case["k"] != "join" and case["c"]["W"] is not None:
        c = dict(case)
        c["c"] = dict(case["c"], W=None)
        yield c
