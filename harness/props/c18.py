"""C18 - generators and affine maps produce exactly the advertised knot vectors."""
import random

from common import (F, cnat, cq, cql, cqll, cres, ctuple, fs, fsl, node_set, npts_of, rand_q, random_vector,
                    shape_vectors, distinct)

COQ_MODULE = "NurbsV.Check.C18"
FAMILIES = 2
RULE = ("generator stream: bezier/integer/uniform for every degree <= 4 (6 thorough) and npts up to degree+7, weight and "
        "random with drawn weights, cls=Fraction, plus refused requests (npts <= degree) and a float sweep of "
        "uniform/random limits; affine stream: exhaustive shapes x {shift, scale (incl. non-positive), normalize} with "
        "basis and curve values before/after at knots, midpoints and near-knot points; non-trivial = a generator "
        "case with at least one interior knot, or an affine case of degree >= 1 with an interior knot")


class Gen:
    COQ_MODULE = COQ_MODULE
    CHECK_FN = "check_gcase"
    CASE_TYPE = "gcase"
    SHARD = 400


class Aff:
    COQ_MODULE = COQ_MODULE
    CHECK_FN = "check_acase"
    CASE_TYPE = "acase"
    SHARD = 40


def families():
    return {"gen": Gen, "aff": Aff}


def family_of(case):
    return case["k"]


def gen(tier, seed):
    rnd = random.Random(seed)
    cases = []
    P = 4 if tier == "quick" else 6
    for p in range(P + 1):
        cases.append({"k": "gen", "g": "bezier", "p": p, "n": p + 1, "ws": []})
        for n in range(max(p - 1, 0), p + 8):
            for g in ("integer", "uniform"):
                cases.append({"k": "gen", "g": g, "p": p, "n": n, "ws": []})
            if n > p:
                for rep in range(1 if tier == "quick" else 4):
                    ws = [F(rnd.randint(1, 40), rnd.choice((1, 2, 3, 7))) for _ in range(n - p)]
                    cases.append({"k": "gen", "g": "weight", "p": p, "n": n, "ws": fsl(ws)})
                    # mixed number classes: integral weights are passed as int, the others as Fraction
                    ws = [F(rnd.randint(1, 9), rnd.choice((1, 1, 2, 3))) for _ in range(n - p)]
                    cases.append({"k": "gen", "g": "weight", "p": p, "n": n, "ws": fsl(ws), "mixed": True})
                    cases.append({"k": "gen", "g": "random", "p": p, "n": n, "ws": [], "npseed": rnd.randint(0, 10 ** 6)})
    cases.append({"k": "gen", "g": "floatsweep", "p": 1, "n": 2, "ws": [], "nmax": 80 if tier == "quick" else 400,
                  "npseed": seed})
    vecs = shape_vectors(3, 2) if tier == "quick" else shape_vectors(4, 3)
    vecs += [random_vector(rnd, pmax=4, mmax=4, big=(i % 3 == 0)) for i in range(20 if tier == "quick" else 300)]
    # the special end values 0 and 1: copies of some vectors moved so that they end at 1, end at 0, start at 1
    extra = []
    for v in rnd.sample(vecs, 12 if tier == "quick" else 120):
        U = v["U"]
        for off in (1 - U[-1], -U[-1], 1 - U[0]):
            extra.append(dict(v, U=[x + off for x in U], kind="moved-ends", force_normalize=True))
    vecs = vecs + extra
    # an interior knot 1e-7 (or 3e-7) below the last knot - closer than the 1e-6 the library uses to tell distinct knots apart:
    # normalize must still divide by the LAST knot (compared on the knot vector only: basis evaluation over such vectors is
    # the library's known limitation K2)
    close = []
    for v in rnd.sample([w for w in vecs if w["p"] >= 1 and not w.get("force_normalize")], 6 if tier == "quick" else 60):
        U, p = list(v["U"]), v["p"]
        eps = (U[-1] - U[0]) * F(1, rnd.choice((10 ** 7, 3 * 10 ** 6)))
        k = U[-1] - eps
        if any(U[0] < x < U[-1] and abs(x - k) < F(1, 1000) for x in U):
            continue
        U2 = U[:len(U) - p - 1] + [k] + U[len(U) - p - 1:]
        close.append(dict(v, U=U2, mults=v["mults"] + [1], kind="close-to-umax", only_normalize=True))
    vecs = vecs + close
    for v in vecs:
        U, p = v["U"], v["p"]
        ops = [("shift", rand_q(rnd)), ("shift", F(rnd.randint(-10 ** 12, 10 ** 12), 10 ** 9 + 7)),
               ("scale", F(rnd.randint(1, 30), rnd.randint(1, 9))), ("scale", rnd.choice((F(0), F(-1), F(-2, 3)))),
               ("normalize", None)]
        # knots moved far from the origin (a timestamp, +-1e10, 2^40 + 1/3): distinct knots must stay distinct
        far = ("shift", rnd.choice((F(1700000000), F(10 ** 10), F(-10 ** 10), F(2 ** 40) + F(1, 3), F(-987654321012, 7))))
        if v.get("only_normalize"):
            cases.append({"k": "aff", "U": fsl(U), "p": p, "kind": v["kind"], "mults": v["mults"], "op": "normalize",
                          "arg": None, "nodes": [], "P": fsl([rand_q(rnd) for _ in range(npts_of(U, p))])})
            continue
        if v.get("force_normalize"):
            ops = [ops[4], ops[rnd.randrange(3)]]
        elif tier == "quick":
            ops = rnd.sample(ops[:3], 1) + ops[3:] if v["kind"] != "uniform" else rnd.sample(ops, 2)
            if rnd.random() < 0.5:
                ops.append(far)
        else:
            ops.append(far)
        nodes = node_set(U, p, outside=False)
        if tier == "quick":
            nodes = nodes[::3] + nodes[-1:]
        for name, arg in ops:
            cases.append({"k": "aff", "U": fsl(U), "p": p, "kind": v["kind"], "mults": v["mults"], "op": name,
                          "arg": None if arg is None else fs(arg), "nodes": fsl(nodes),
                          "P": fsl([rand_q(rnd) for _ in range(npts_of(U, p))])})
    return cases


def _float_sweep(case):
    """limits exactly (0, 1), degree and npts as requested, sorted: float and default-int generators"""
    import numpy as np
    from compmec.nurbs import GeneratorKnotVector as G
    bad = []
    np.random.seed(case["npseed"] % (2 ** 31))
    for p in range(0, 4):
        for n in range(p + 1, case["nmax"]):
            for cls in (int, float):
                kv = G.uniform(p, n, cls) if cls is not int else G.uniform(p, n)
                if tuple(kv.limits) != (0, 1) or kv.degree != p or kv.npts != n or list(kv) != sorted(kv):
                    bad.append(["uniform", p, n, cls.__name__, repr(tuple(kv.limits))])
    for i in range(case["nmax"] * 3):
        p = i % 4
        n = p + 1 + (i * 7) % 23
        kv = G.random(p, n)
        if tuple(kv.limits) != (0, 1) or kv.degree != p or kv.npts != n or list(kv) != sorted(kv):
            bad.append(["random", p, n, "float", repr(tuple(kv.limits))])
    return bad


def impl(case):
    import numpy as np
    from fractions import Fraction
    from compmec.nurbs import Curve, Function, GeneratorKnotVector as G, KnotVector
    from implib import capture, num, nums, out_num, out_nums
    if case["k"] == "gen":
        g, p, n = case["g"], case["p"], case["n"]
        if g == "floatsweep":
            bad = _float_sweep(case)
            return {"r": {"ok": {"U": ["0/1", "0/1", "1/1", "1/1"], "p": 1}}, "types": not bad, "npts": 2, "float_failures": bad[:10]}
        info = {}

        def build():
            if g == "bezier":
                kv = G.bezier(p, Fraction)
            elif g == "integer":
                kv = G.integer(p, n, Fraction)
            elif g == "uniform":
                kv = G.uniform(p, n, Fraction)
            elif g == "weight":
                ws = nums(case["ws"])
                if case.get("mixed"):
                    ws = [int(w) if w.denominator == 1 else w for w in ws]
                kv = G.weight(p, ws)
            else:
                np.random.seed(case["npseed"])
                kv = G.random(p, n, Fraction)
            info["types"] = all(isinstance(x, Fraction) or (case.get("mixed") and isinstance(x, int)) for x in kv)
            info["npts"] = int(kv.npts)
            made.append(kv)
            return {"U": out_nums(list(kv)), "p": int(kv.degree)}
        made = []
        r = capture(build)
        usable = True
        if made:
            # the generated vector must be USABLE as it is: distinct knots, multiplicities, spans, basis functions and a
            # curve over it evaluate (exact numbers of a foreign integer class inside a Fraction would overflow here)
            def use():
                kv = made[0]
                lo, hi = kv.limits
                mid = (Fraction(lo) + Fraction(hi)) / 2
                ks = kv.knots
                [kv.mult(k) for k in ks], kv.span(mid), kv.valid(mid)
                vals = Function(kv)(mid)
                exact = all(isinstance(x, Fraction) for x in kv)        # integer knots may legitimately give floats (C16)
                if exact and (sum(vals) != 1 or not all(isinstance(v, (int, Fraction)) for v in vals)):
                    raise ArithmeticError("basis over the generated vector does not sum to one exactly")
                if not exact and abs(float(sum(vals)) - 1) > 1e-12:
                    raise ArithmeticError("basis over the generated vector does not sum to one")
                Curve(kv, [Fraction(i, 3) for i in range(int(kv.npts))])(mid)
            usable = "ok" in capture(use)
        return {"r": r, "types": info.get("types", False) and usable, "npts": info.get("npts", 0)}
    U = nums(case["U"])
    kv = KnotVector(U)
    nodes = nums(case["nodes"])
    P = nums(case["P"])
    f0 = Function(U)
    vals0 = [out_nums(list(f0(u))) for u in nodes]
    c0 = Curve(U, P)
    cv0 = [out_num(c0(u)) for u in nodes]
    kv2 = KnotVector(U)
    # the derived views are read BEFORE the in-place map (anything cached on the object must follow the map)
    capture(lambda: (kv2.knots, kv2.mult(kv2.knots), kv2.limits, Function(kv2)((U[0] + U[-1]) / 2)))
    op, arg = case["op"], (None if case["arg"] is None else num(case["arg"]))

    def act():
        if op == "shift":
            kv2.shift(arg)
        elif op == "scale":
            kv2.scale(arg)
        else:
            kv2.normalize()
        return {"U": out_nums(list(kv2)), "p": int(kv2.degree)}
    r = capture(act)
    out = {"r": r, "vals0": vals0, "cv0": cv0, "nodes1": [], "vals1": [], "cv1": [],
           "operand_kept": list(kv) == U}
    if "ok" in r:
        if op == "shift":
            nodes1 = [u + arg for u in nodes]
        elif op == "scale":
            nodes1 = [u * arg for u in nodes]
        else:
            nodes1 = [(u - U[0]) / (U[-1] - U[0]) for u in nodes]
        out["nodes1"] = out_nums(nodes1)

        def after():
            ks1 = list(kv2.knots)
            if len(ks1) != len(set(U)) or ks1 != sorted(set(list(kv2))) or list(kv2.mult(ks1)) != [list(kv2).count(k) for k in ks1]:
                raise ArithmeticError("distinct knots / multiplicities of the mapped vector do not describe it")
            f1 = Function(kv2)
            c1 = Curve(kv2, P)
            return [[out_nums(list(f1(u))) for u in nodes1], [out_num(c1(u)) for u in nodes1]]
        a = capture(after)
        if "ok" in a:
            out["vals1"], out["cv1"] = a["ok"]
        else:
            out["after_error"] = a["err"]         # evaluation over the moved vector raised: empty lists fail the comparison in Coq
    else:
        out["state_kept"] = [fs(x) for x in kv2] == case["U"]
    return out


GK = {"bezier": "GBezier", "integer": "GInteger", "uniform": "GUniform", "weight": "GWeight", "random": "GRandom",
      "floatsweep": "GBezier"}


def _cview(v):
    return ctuple(cql(v["U"]), cnat(v["p"]))


def emit(case, out):
    if case["k"] == "gen":
        ws = case["ws"]
        if case["g"] == "random" and "ok" in out["r"]:
            # the draw itself is not reproduced: the spacing is read back from the result (DESIGN 4 (iii))
            U, p = [F(*map(int, x.split("/"))) for x in out["r"]["ok"]["U"]], case["p"]
            br = U[p:len(U) - p]
            ws = fsl([b - a for a, b in zip(br[:-1], br[1:])])
        types = out["types"] and not out.get("_floats")
        return ctuple(GK[case["g"]], cnat(case["p"]), cnat(case["n"]), cql(ws), cres(out["r"], _cview),
                      "true" if types else "false", cnat(out["npts"]))
    opc = {"shift": lambda: f"(AShift {cq(case['arg'])})", "scale": lambda: f"(AScale {cq(case['arg'])})",
           "normalize": lambda: "ANormalize"}[case["op"]]()
    r = out["r"]
    if "err" in r and not out.get("state_kept", True):
        r = {"ok": {"U": [], "p": 0}}          # failed operation changed the object: fails wf_b in Coq
    U = case["U"] if out["operand_kept"] and not out.get("_floats") else []
    return ctuple(cql(U), cnat(case["p"]), opc, cres(r, _cview), cql(case["nodes"]), cqll(out["vals0"]),
                  cql(out["nodes1"]), cqll(out["vals1"]), cql(out["cv0"]), cql(out["cv1"]), cql(case["P"]))


def describe(case):
    if case["k"] == "gen":
        return {"stream": "gen", "generator": case["g"], "degree": case["p"]}
    return {"stream": "aff", "op": case["op"], "degree": case["p"], "kind": case["kind"]}


def nontrivial(case):
    if case["k"] == "gen":
        return case["n"] > case["p"] + 1
    return case["p"] >= 1 and len(case["mults"]) >= 1


def evaluations(case):
    return 1 if case["k"] == "gen" else 2 * len(case["nodes"]) + 1
