"""C03 - every reachable KnotVector is well-formed; queries agree; failed operations atomic."""
import itertools
import random

from common import (F, cnat, copt, cq, cql, cres, clist, ctuple, fs, fsl, fp, fpl, random_vector,
                    shape_vectors, distinct)

PREWARM = False      # see impl_runner: no float pre-run for this stream
COQ_MODULE = "NurbsV.Check.C03"
FAMILIES = 2
EXTRA_IMPORTS = "From NurbsV Require Import Model.KV Model.KVFacade."
RULE = ("constructor stream: every list over {0,1/2,1,2} of length <= 6 (and malformed literals); "
        "history stream: random sequences of 1-12 public KnotVector operations, ~35% invalid arguments, "
        "state and all queries compared after every step; non-trivial = a history with >= 2 steps "
        "of which at least one succeeds and one fails, or a constructor input of length >= 4")


class Hist:
    COQ_MODULE = COQ_MODULE
    CHECK_FN = "check_case"
    CASE_TYPE = "case"
    SHARD = 40


class Ctor:
    COQ_MODULE = COQ_MODULE
    CHECK_FN = "check_ccase"
    CASE_TYPE = "ccase"
    SHARD = 1500


# ------------------------------------------------------------------ generation

VALS = [F(0), F(1, 2), F(1), F(2)]


def gen_ctor(tier, rnd):
    cases = []
    maxlen = 6
    for n in range(1, maxlen + 1):
        for tup in itertools.product(VALS, repeat=n):
            srt = all(a <= b for a, b in zip(tup, tup[1:]))
            if not srt and tier == "quick" and n == 6 and rnd.random() < 0.75:
                continue
            cases.append({"k": "ctor", "v": fsl(tup), "deg": None})
            if srt and n >= 2:
                for d in range(0, 3):
                    cases.append({"k": "ctor", "v": fsl(tup), "deg": d})
    # unsorted rearrangements of VALID vectors (same multiset, hence the same counts): all must be rejected
    import itertools as _it
    for v in shape_vectors(3, 2, pmin=1):
        U, p = v["U"], v["p"]
        if len(U) > 11 or (tier == "quick" and rnd.random() < 0.5):
            continue
        seen = set()
        for _ in range(6 if tier == "quick" else 20):
            w = list(U)
            i, j = rnd.sample(range(len(w)), 2)
            w[i], w[j] = w[j], w[i]
            if rnd.random() < 0.5:
                i, j = rnd.sample(range(len(w)), 2)
                w[i], w[j] = w[j], w[i]
            if w == sorted(w) or tuple(w) in seen:
                continue
            seen.add(tuple(w))
            cases.append({"k": "ctor", "v": fsl(w), "deg": None})
            cases.append({"k": "ctor", "v": fsl(w), "deg": p})
    # malformed literals
    for v in (["0/1", None, "1/1"], [None], [], ["0/1"], ["1/1", "1/1"], ["0/1", "0/1", "1/1", "1/1", "2/1"],
              ["0/1", "1/1", "2/1", "3/1"], ["0/1", "0/1", "0/1", "1/1", "1/1"], ["0/1", "0/1", "1/1", "1/1", "1/1"],
              ["0/1", "str", "1/1"], ["0/1", "0/1", "1/2", "1/2", "1/2", "1/1", "1/1"],
              # a float NaN is not a number either (it compares False both ways): interior, repeated, at either end
              ["0/1", "0/1", "nan", "1/1", "1/1"], ["0/1", "nan", "1/1"], ["nan", "0/1", "1/1"], ["0/1", "1/1", "nan"],
              ["0/1", "0/1", "0/1", "nan", "nan", "1/1", "1/1", "1/1"], ["0/1", "0/1", "1/2", "nan", "1/1", "1/1"],
              ["nan", "nan"], ["0/1", "0/1", "npnan", "1/1", "1/1"]):
        for d in (None, 0, 1, 2):
            cases.append({"k": "ctor", "v": v, "deg": d})
    return cases


def rand_op(rnd, U, p):
    ks = distinct(U)
    a, b = ks[0], ks[-1]
    inside = lambda: a + (b - a) * F(rnd.randint(1, 11), 12)
    kind = rnd.choice(["insert", "insert", "remove", "remove", "shift", "scale", "divide", "normalize",
                       "convint", "convfrac", "setdeg", "ior", "iand", "or", "and", "split", "copy",
                       "plus", "minus", "insert", "remove"])
    bad = rnd.random() < 0.35
    if kind in ("insert", "plus"):
        ns = [rnd.choice(ks[1:-1]) if (len(ks) > 2 and rnd.random() < 0.5) else inside()
              for _ in range(rnd.randint(1, 3))]
        if bad:
            c = rnd.randint(0, 4)
            if c == 0:
                ns.append(b + rnd.choice([F(1), F(1, 7)]))
            elif c == 1:
                ns.append(a - F(1, 3))
            elif c == 2 and len(ks) > 2:
                ns += [ks[1]] * (p + 2)
            elif c == 3:
                ns += [a]
            else:
                ns += [a, b] + list(ks[1:-1])     # degree raise through insert: legitimate
        return {"op": kind, "ns": fsl(ns)}
    if kind in ("remove", "minus"):
        pool = list(U[p + 1:len(U) - p - 1])
        ns = [rnd.choice(pool)] if pool and rnd.random() < 0.8 else [inside()]
        if bad:
            c = rnd.randint(0, 3)
            if c == 0:
                ns = [a]
            elif c == 1:
                ns = [b, b]
            elif c == 2:
                ns = [inside() + F(1, 1013)]
            else:
                ns = list(ks) if p > 0 else [a]       # degree lowering through remove
        return {"op": kind, "ns": fsl(ns)}
    if kind == "shift":
        return {"op": "shift", "a": fs(rnd.choice([F(0), F(1), F(-3, 2), F(5, 7), F(-10 ** 12, 3)]))}
    if kind == "scale":
        s = rnd.choice([F(2), F(1, 3), F(7, 5), F(1)])
        if bad:
            s = rnd.choice([F(0), F(-1), F(-2, 3)])
        return {"op": "scale", "s": fs(s)}
    if kind == "divide":
        s = rnd.choice([F(2), F(1, 3), F(7, 5)])
        if bad:
            s = rnd.choice([F(0), F(-1)])
        return {"op": "divide", "s": fs(s)}
    if kind == "setdeg":
        return {"op": "setdeg", "d": rnd.choice([max(p - 1, 0), p, p + 1, p + 2, 0])}
    if kind in ("ior", "iand", "or", "and"):
        q = rnd.randint(0, 3) if not bad else rnd.randint(0, 2)
        V = [a] * (q + 1)
        for k in sorted(set(rnd.sample(ks[1:-1], min(len(ks) - 2, rnd.randint(0, 2))) + ([inside()] if rnd.random() < 0.5 else []))):
            V += [k] * rnd.randint(1, q + 1)
        V += [b] * (q + 1)
        if bad:
            c = rnd.randint(0, 2)
            if c == 0:
                V = [x + 1 for x in V]                # different interval
            elif c == 1:
                V = V[:-1]                            # unclamped
            else:
                V = V + [b + 1]                       # tail
        return {"op": kind, "v": fsl(V)}
    if kind == "split":
        ns = [rnd.choice(ks) if rnd.random() < 0.5 else inside() for _ in range(rnd.randint(0, 3))]
        if bad:
            ns.append(b + 1)
        return {"op": "split", "ns": fsl(ns)}
    return {"op": kind}


def gen_hist(tier, rnd):
    n = 300 if tier == "quick" else 6000
    starts = shape_vectors(2, 2) if tier == "quick" else shape_vectors(3, 3)
    cases = []
    for i in range(n):
        v = rnd.choice(starts) if rnd.random() < 0.7 else random_vector(rnd, pmax=3, mmax=3)
        cases.append({"k": "hist", "U": fsl(v["U"]), "p": v["p"], "len": rnd.randint(1, 12),
                      "seed": rnd.randint(0, 2 ** 30)})
    return cases


def gen(tier, seed):
    rnd = random.Random(seed)
    return gen_hist(tier, rnd) + gen_ctor(tier, rnd)


# ------------------------------------------------------------------ implementation side


def _observe(kv):
    from implib import capture, out_num, out_nums
    U = [x for x in kv]
    p = int(kv.degree)
    ks = distinct(sorted(U))
    nodes = []
    for a, b in zip(ks[:-1], ks[1:]):
        nodes += [a, (a + b) / 2]
    nodes += [ks[-1], ks[0] - F(1, 5), ks[-1] + F(1, 9)]
    q = []
    for u in nodes:
        q.append({"u": out_num(u), "span": capture(lambda: int(kv.span(u))),
                  "mult": capture(lambda: int(kv.mult(u))), "valid": bool(kv.valid([u]))})
    lim = kv.limits
    return {"U": out_nums(U), "p": p, "npts": int(kv.npts), "knots": out_nums(list(kv.knots)),
            "lim": [out_num(lim[0]), out_num(lim[1])], "q": q}


def _views(kvs):
    from implib import out_nums
    return [{"U": out_nums(list(k)), "p": int(k.degree)} for k in kvs]


def _apply(kv, op):
    """Returns the list of returned vectors ([] for in-place operations)."""
    from fractions import Fraction
    from implib import nums, num
    from compmec.nurbs import KnotVector
    o = op["op"]
    if o == "insert":
        kv.insert(nums(op["ns"]) if op.get("style", 0) == 0 else tuple(nums(op["ns"])))
        return []
    if o == "remove":
        kv.remove(nums(op["ns"]))
        return []
    if o == "shift":
        kv.shift(num(op["a"]))
        return []
    if o == "scale":
        kv.scale(num(op["s"]))
        return []
    if o == "divide":
        kv /= num(op["s"])
        return []
    if o == "normalize":
        kv.normalize()
        return []
    if o == "convint":
        kv.convert(int)
        return []
    if o == "convfrac":
        kv.convert(Fraction)
        return []
    if o == "setdeg":
        kv.degree = op["d"]
        return []
    if o == "ior":
        kv |= nums(op["v"])
        return []
    if o == "iand":
        kv &= nums(op["v"])
        return []
    if o == "or":
        return [kv | nums(op["v"])]
    if o == "and":
        return [kv & nums(op["v"])]
    if o == "split":
        return list(kv.split(nums(op["ns"])))
    if o == "copy":
        from copy import copy
        return [copy(kv)]
    if o == "plus":
        return [kv + nums(op["ns"])]
    if o == "minus":
        return [kv - nums(op["ns"])]
    raise RuntimeError("unknown op " + o)


def impl(case):
    from implib import capture, nums
    from compmec.nurbs import KnotVector
    if case["k"] == "ctor":
        v = case["v"]
        special = {"str": "abc", "nan": float("nan"), "npnan": __import__("numpy").nan}
        raw = [None if x is None else (special[x] if x in special else __import__("implib").num(x)) for x in v]

        made = []

        def build():
            kv = KnotVector(raw) if case["deg"] is None else KnotVector(raw, case["deg"])
            made.append(kv)
            return {"U": __import__("implib").out_nums(list(kv)), "p": int(kv.degree)}
        r = capture(build)
        if "err" in r and made:
            # the constructor ACCEPTED the data and only the conversion of its content failed (a NaN inside):
            # report an accepted, empty vector - never the conversion error as if the library had refused
            r = {"ok": {"U": [], "p": 0}}
        return {"r": r}
    kv = KnotVector(nums(case["U"]))
    rnd = random.Random(case["seed"])
    steps = []
    for step in range(case["len"]):
        U = [x for x in kv]
        op = case["ops"][step] if "ops" in case else rand_op(rnd, U, int(kv.degree))
        if op["op"] == "normalize" and any(isinstance(x, int) for x in kv):
            # int / int is a float in Python (allowed by C16's wording, outside the exact model):
            # integer knots left by convert(int) are turned back into Fractions before a division
            from fractions import Fraction
            kv.convert(Fraction)
        # += / -= / *= forms are the same methods; exercise them through the operators too
        r = capture(lambda: _views(_apply(kv, op)))
        steps.append({"op": op, "r": r, "obs": _observe(kv)})
    return {"steps": steps}


# ------------------------------------------------------------------ Coq emission


def _cop(op):
    o = op["op"]
    if o in ("insert", "remove", "split", "plus", "minus"):
        name = {"insert": "OInsert", "remove": "ORemove", "split": "OSplit", "plus": "OPlus", "minus": "OMinus"}[o]
        return f"({name} {cql(op['ns'])})"
    if o == "shift":
        return f"(OShift {cq(op['a'])})"
    if o == "scale":
        return f"(OScale {cq(op['s'])})"
    if o == "divide":
        return f"(ODivide {cq(op['s'])})"
    if o == "setdeg":
        return f"(OSetDegree {cnat(op['d'])})"
    if o in ("ior", "iand", "or", "and"):
        name = {"ior": "OIor", "iand": "OIand", "or": "OOr", "and": "OAnd"}[o]
        return f"({name} {cql(op['v'])})"
    return {"normalize": "ONormalize", "convint": "OConvertInt", "convfrac": "OConvertFrac", "copy": "OCopy"}[o]


def _cview(v):
    return ctuple(cql(v["U"]), cnat(v["p"]))


def _cobs(ob):
    qs = clist(ob["q"], lambda q: ctuple(cq(q["u"]), cres(q["span"], cnat), cres(q["mult"], cnat),
                                         "true" if q["valid"] else "false"))
    return (f"(mkobs {cql(ob['U'])} {cnat(ob['p'])} {cnat(ob['npts'])} {cql(ob['knots'])} "
            f"({cq(ob['lim'][0])}, {cq(ob['lim'][1])}) {qs})")


def emit(case, out):
    if case["k"] == "ctor":
        v = clist(case["v"], lambda x: "None" if (x is None or x in ("str", "nan", "npnan")) else f"(Some {cq(x)})")
        return ctuple(v, copt(case["deg"], cnat), cres(out["r"], _cview))
    steps = clist(out["steps"], lambda s: ctuple(_cop(s["op"]), cres(s["r"], lambda vs: clist(vs, _cview)),
                                                 _cobs(s["obs"])))
    return ctuple(cql(case["U"]), steps)


# the driver handles one family per module; C03 has two, dispatched on the case kind
def families():
    return {"hist": Hist, "ctor": Ctor}


def family_of(case):
    return "hist" if case["k"] == "hist" else "ctor"


def describe(case):
    if case["k"] == "ctor":
        return {"stream": "ctor", "ctor_len": len(case["v"]), "ctor_degree": case["deg"]}
    return {"stream": "hist", "start_degree": case["p"], "history_len": case["len"]}


def nontrivial(case):
    if case["k"] == "ctor":
        return len(case["v"]) >= 4
    return case["len"] >= 2


def extra_evidence(cases, outs):
    ops, errs, okc = {}, {}, 0
    for c, o in zip(cases, outs):
        if c["k"] != "hist":
            continue
        for s in o["steps"]:
            name = s["op"]["op"]
            ops[name] = ops.get(name, 0) + 1
            if "err" in s["r"]:
                errs[s["r"]["err"]] = errs.get(s["r"]["err"], 0) + 1
            else:
                okc += 1
    return {"operations_executed": dict(sorted(ops.items())), "errors_raised": errs, "steps_succeeded": okc,
            "exhaustive_constructor_domain": "all lists over {0,1/2,1,2} with length <= 5; length 6 sampled in the quick tier"}


def evaluations(case):
    return case["len"] if case["k"] == "hist" else 1
