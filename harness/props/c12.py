"""C12 - fit_points / fit_function solve the discrete least-squares problem exactly."""
import random

from common import (F, cnat, copt, cq, cql, cqll, cres, ctuple, fsl, fs, distinct, npts_of, pts_json,
                    rand_points, rand_weights, rand_q, random_vector, shape_vectors)

COQ_MODULE = "NurbsV.Check.C12"
CHECK_FN = "check_case"
CASE_TYPE = "case"
SHARD = 7
RULE = ("shapes (degree <= 3, all multiplicity vectors, non-uniform positions) x {exactly determined at the Greville "
        "abscissae, over-determined noisy data with explicit or default nodes, samples of a curve of the same space, "
        "fit_function of a curve of the same space, fewer points than control points} x weights on/off x dimension "
        "1-2; non-trivial = degree >= 1 and an interior knot")


def greville(U, p):
    n = npts_of(U, p)
    if p == 0:
        return [(U[i] + U[i + 1]) / 2 for i in range(n)]
    return [sum(U[i + 1:i + p + 1]) / p for i in range(n)]


def gen(tier, seed):
    rnd = random.Random(seed)
    vecs = shape_vectors(3, 2) if tier == "quick" else shape_vectors(3, 3)
    vecs += [random_vector(rnd, pmax=3, mmax=3) for i in range(10 if tier == "quick" else 200)]
    cases = []
    for v in vecs:
        U, p = v["U"], v["p"]
        n = npts_of(U, p)
        if n > (7 if tier == "quick" else 10):
            continue
        if tier == "quick" and rnd.random() < (0.5 if v["kind"] == "uniform" else 0.1):
            continue
        ks = distinct(U)
        a, b = ks[0], ks[-1]
        modes = ["exact", "over", "over_default", "inspace", "function", "few", "refit", "square"]
        for mode in (modes if tier != "quick" else rnd.sample(modes, 3)):
            rational = rnd.random() < 0.4 and n <= (5 if tier == "quick" else 6)   # exact rational collocation systems grow fast
            dim = rnd.choice((1, 1, 2, 3))
            W = fsl(rand_weights(rnd, n)) if rational else None
            case = {"U": fsl(U), "p": p, "kind": v["kind"], "mults": v["mults"], "W": W, "mode": mode,
                    "scalar": dim == 1, "nodes": None, "Z": None, "P0": None}
            if mode == "exact":
                if any(m == p + 1 for m in v["mults"]) and p >= 1:
                    continue            # Greville points coincide at a discontinuity: not unisolvent
                case["nodes"] = fsl(greville(U, p))
                case["Z"] = pts_json(rand_points(rnd, n, dim))
            elif mode == "square":
                # as many points as the dimension of the points (layout heuristics on (n, dim) arrays)
                if n > 4 or n < 2 or (any(m == p + 1 for m in v["mults"]) and p >= 1):
                    continue
                case["nodes"] = fsl(greville(U, p))
                case["Z"] = pts_json(rand_points(rnd, n, n))
                case["scalar"] = False
            elif mode == "refit":
                # the same Curve object is fitted, moved to another knot vector with as many control points by
                # update(), and fitted again: the second answer must belong to the CURRENT vector
                if not v["mults"] or p < 1:
                    continue
                x = sorted(set(U[p + 1:len(U) - p - 1]))[0]
                lo_, hi_ = [y for y in sorted(set(U)) if y < x][-1], [y for y in sorted(set(U)) if y > x][0]
                x2 = (lo_ + x) / 2 if rnd.random() < 0.5 else (x + hi_) / 2
                U0 = sorted([y for y in U if y != x] + [x2] * U.count(x))
                m = n + rnd.randint(1, 3)
                inner = sorted({a + (b - a) * F(rnd.randint(1, 23), 24) for _ in range(m + 3)})[:m - n]
                nodes = sorted(set(greville(U, p)) | set(greville(U0, p)) | set(inner) | {a, b})
                case["nodes"] = fsl(nodes)
                case["Z"] = pts_json(rand_points(rnd, len(nodes), dim))
                case["U0"] = fsl(U0)
                case["W"] = W = None
            elif mode in ("over", "over_default"):
                m = n + rnd.randint(1, 4)
                if mode == "over":
                    inner = sorted({a + (b - a) * F(rnd.randint(1, 23), 24) for _ in range(m + 3)})[:m - n]
                    nodes = sorted(set(greville(U, p)) | set(inner) | {a, b})     # unisolvent by construction
                    if rnd.random() < 0.4:
                        # some parameters sampled twice or three times (with different data): still a least-squares problem
                        nodes = sorted(nodes + rnd.sample(nodes, min(len(nodes), rnd.randint(1, 3))) + [rnd.choice(nodes)])
                        case["repeated_nodes"] = True
                    case["nodes"] = fsl(nodes)
                    m = len(nodes)
                case["Z"] = pts_json(rand_points(rnd, m, dim))
            elif mode == "inspace":
                m = n + rnd.randint(0, 3)
                if p >= 1 and any(mu == p + 1 for mu in v["mults"]):
                    continue
                inner = sorted({a + (b - a) * F(rnd.randint(1, 23), 24) for _ in range(3 * m)})
                nodes = sorted(set(greville(U, p)) | set(inner[:m - n + 2]))
                if rnd.random() < 0.4:
                    nodes = sorted(nodes + rnd.sample(nodes, min(len(nodes), rnd.randint(1, 3))))
                    case["repeated_nodes"] = True
                case["nodes"] = fsl(nodes)
                case["P0"] = pts_json(rand_points(rnd, n, dim))
            elif mode == "function":
                case["P0"] = pts_json(rand_points(rnd, n, dim))
            else:
                if n < 2:
                    continue
                m = rnd.randint(1, n - 1)
                case["nodes"] = fsl(sorted({a + (b - a) * F(i, m + 1) for i in range(1, m + 1)}))
                case["Z"] = pts_json(rand_points(rnd, m, dim))
            if case["nodes"] is not None and mode in ("exact", "over", "inspace") and rnd.random() < 0.5:
                # nodes in arbitrary order (with their points): the fit must not depend on the order
                idx = list(range(len(case["nodes"])))
                rnd.shuffle(idx)
                case["nodes"] = [case["nodes"][i] for i in idx]
                if case["Z"] is not None:
                    case["Z"] = [case["Z"][i] for i in idx]
                case["shuffled"] = True
            cases.append(case)
    return cases


def impl(case):
    from compmec.nurbs import Curve
    from implib import capture, nums, points, out_points
    U = nums(case["U"])
    curve = Curve(U if case.get("U0") is None else nums(case["U0"]))
    W = None if case["W"] is None else nums(case["W"])
    if W is not None:
        curve.weights = W
    nodes = None if case["nodes"] is None else tuple(nums(case["nodes"]))
    Z = None
    if case["P0"] is not None:
        c0 = Curve(U, points(case["P0"], case["scalar"]))
        if W is not None:
            c0.weights = W
    if case["mode"] == "function":
        r = capture(lambda: (curve.fit_function(lambda u: c0(u)), out_points(curve.ctrlpoints))[1])
        # the samples the implementation is expected to take, for the oracle in Coq
        return {"r": r, "Z": None, "p": int(curve.degree)}
    if case["mode"] == "inspace":
        Zv = [c0(u) for u in nodes]
        Z = out_points(Zv)
    else:
        Zv = points(case["Z"], case["scalar"])
        Z = case["Z"]
        if all(x.split("/")[1] == "1" for pt in case["Z"] for x in pt):
            # integral data (pixel / grid coordinates) given as ONE integer numpy array, (n,) or (n, dim)
            import numpy as np
            Zv = np.array([int(pt[0].split("/")[0]) for pt in case["Z"]] if case["scalar"]
                          else [[int(x.split("/")[0]) for x in pt] for pt in case["Z"]])
    if case.get("U0") is not None:
        capture(lambda: curve.fit_points(Zv, nodes))
        curve.update(U, None)
        if list(curve.knotvector) != U:
            raise RuntimeError("harness: update did not reach the requested vector")
    r = capture(lambda: (curve.fit_points(Zv, nodes) if nodes is not None else curve.fit_points(Zv),
                         out_points(curve.ctrlpoints))[1])
    return {"r": r, "Z": Z, "p": int(curve.degree)}


def _samples_for_function(case):
    """values of c0 at the nodes fit_function is specified to use, computed by the harness with exact de Boor"""
    U = [F(*map(int, x.split("/"))) for x in case["U"]]
    p = case["p"]
    n = npts_of(U, p)
    P0 = [[F(*map(int, x.split("/"))) for x in pt] for pt in case["P0"]]
    W = None if case["W"] is None else [F(*map(int, x.split("/"))) for x in case["W"]]
    ks = distinct(U)
    each = 1 + -(-(p * n) // (len(ks) - 1))
    x01 = [F(2 * k + 1, 2 * each) for k in range(each)]
    nodes = [s + (e - s) * x for s, e in zip(ks[:-1], ks[1:]) for x in x01]

    def basis(u):
        N = [F(0)] * (n + p + 1)
        for i in range(n + p):
            if U[i] <= u < U[i + 1]:
                N[i] = F(1)
        for j in range(1, p + 1):
            M = [F(0)] * (n + p + 1)
            for i in range(n + p - j):
                a = (u - U[i]) / (U[i + j] - U[i]) * N[i] if U[i + j] != U[i] else 0
                b = (U[i + j + 1] - u) / (U[i + j + 1] - U[i + 1]) * N[i + 1] if U[i + j + 1] != U[i + 1] else 0
                M[i] = a + b
            N = M
        return N[:n]
    out = []
    for u in nodes:
        N = basis(u)
        if W is not None:
            den = sum(w * x for w, x in zip(W, N))
            N = [w * x / den for w, x in zip(W, N)]
        out.append([sum(N[i] * P0[i][k] for i in range(n)) for k in range(len(P0[0]))])
    return [fsl(pt) for pt in out]


def emit(case, out):
    byf = case["mode"] == "function"
    Z = _samples_for_function(case) if byf else out["Z"]
    U = case["U"] if not out.get("_floats") else []
    return ctuple(cql(U), cnat(out["p"]), copt(case["W"], cql), copt(case["nodes"], cql), cqll(Z),
                  cres(out["r"], cqll), copt(case["P0"], cqll), "true" if byf else "false")


def describe(case):
    return {"mode": case["mode"], "degree": case["p"], "kind": case["kind"], "rational": case["W"] is not None,
            "n_interior": len(case["mults"])}


def nontrivial(case):
    return case["p"] >= 1 and len(case["mults"]) >= 1
