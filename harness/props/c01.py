"""C01 - curve evaluation equals the B-spline / NURBS definition."""
import random

from common import (F, cnat, copt, cq, cql, cqll, cres, clist, ctuple, fsl, node_set,
                    npts_of, pts_json, rand_points, rand_weights, random_vector, shape_vectors, weights_one_at)

COQ_MODULE = "NurbsV.Check.C01"
CHECK_FN = "check_case"
CASE_TYPE = "case"
SHARD = 40


def gen(tier, seed):
    rnd = random.Random(seed)
    P, M = (3, 3) if tier == "quick" else (4, 3)
    vecs = shape_vectors(P, M)
    if tier != "quick":
        # degree 5 and four interior knots: a random third of the exhaustive family (the full one is 2834 shapes)
        vecs += [v for v in shape_vectors(5, 4, pmin=5) + [w for w in shape_vectors(4, 4) if len(w["mults"]) == 4]
                 if rnd.random() < 0.05]
    nrand = 60 if tier == "quick" else 300
    vecs += [random_vector(rnd, pmax=4 if tier == "quick" else 5, big=(i % 3 == 0)) for i in range(nrand)]
    # the same shapes on an interval whose ends are not binary fractions (float(1/3) < 1/3, float(11/10) > 11/10): exact
    # comparisons with the end knots must not go through a float
    extra = []
    for v in rnd.sample(vecs, 8 if tier == "quick" else 80):
        a, b = v["U"][0], v["U"][-1]
        lo, hi = rnd.choice(((F(1, 3), F(11, 10)), (F(-7, 3), F(1, 10)), (F(1, 7), F(22, 7))))
        extra.append(dict(v, U=[lo + (hi - lo) * (x - a) / (b - a) for x in v["U"]], kind=v["kind"] + "-nondyadic-ends"))
    vecs = vecs + extra
    cases = []
    for v in vecs:
        U, p = v["U"], v["p"]
        n = npts_of(U, p)
        nodes = node_set(U, p)
        variants = [(1, False), (2, True)] if (tier == "quick" or p >= 3) else [(1, False), (1, True), (2, False), (2, True)]
        for dim, rational in variants:
            if tier == "quick" and v["kind"] == "uniform" and dim == 2:
                continue
            W = rand_weights(rnd, n) if rational else None
            if rational and rnd.random() < 0.15:
                W = [-w for w in W]          # a weight function without a zero may as well be negative everywhere
            if rational and rnd.random() < 0.4 and v["kind"] != "random-big":
                # non-constant weights whose weight function is EXACTLY 1 at one of the evaluated parameters
                W = weights_one_at(U, p, W, rnd.choice(nodes[:-4]))
            cases.append({
                "U": fsl(U), "p": p, "kind": v["kind"], "mults": v["mults"],
                "scalar": dim == 1,
                "P": pts_json(rand_points(rnd, n, dim)),
                "W": fsl(W) if rational else None,
                "nodes": fsl(nodes),
                "seqnodes": fsl(rnd.sample(nodes[:-4], len(nodes) - 4)),     # in range, shuffled
            })
    # single-span curves of high degree (closed-form shortcuts, binomial coefficients)
    for p in ((7, 8) if tier == "quick" else (7, 8, 9, 10)):
        U = [F(-1, 2)] * (p + 1) + [F(3, 2)] * (p + 1)
        nodes = [F(-1, 2), F(0), F(1, 2), F(5, 4), F(3, 2)]
        cases.append({"U": fsl(U), "p": p, "kind": "bezier-high", "mults": [], "scalar": True,
                      "P": pts_json(rand_points(rnd, p + 1, 1)), "W": None, "nodes": fsl(nodes + [F(2)]),
                      "seqnodes": fsl(nodes[::-1])})
    return cases


def impl(case):
    from compmec.nurbs import Curve
    from implib import capture, nums, out_point, points
    U = nums(case["U"])
    curve = Curve(U, points(case["P"], case["scalar"]))
    if case["W"] is not None:
        curve.weights = nums(case["W"])
    nodes = nums(case["nodes"])
    # the same data as floats (and ints where integral) is evaluated first in the same process: results for
    # exact data must not depend on what was evaluated before (memo tables keyed by equal-comparing numbers)
    import implib
    def _other(conv):
        c2 = Curve([conv(u) for u in U], [conv(pt[0]) for pt in case_pts])
        c2(conv(nodes[len(nodes) // 2]))
    case_pts = [nums(pt) for pt in case["P"]]
    capture(lambda: _other(float))
    if all(u.denominator == 1 for u in U):
        capture(lambda: _other(int))
    implib.FLOATS.clear()
    scal = [capture(lambda u=u: out_point(curve(u))) for u in nodes]
    seqnodes = nums(case["seqnodes"])
    seq = capture(lambda: [out_point(v) for v in curve(tuple(seqnodes))])
    seq_all = capture(lambda: [out_point(v) for v in curve(tuple(nodes))])
    return {"p": int(curve.degree), "scal": scal, "seq": seq, "seq_all": seq_all}


def emit(case, out):
    # exact input must give exact output: a float anywhere in the results fails the case (wf_b [] = false)
    return ctuple(
        cql(case["U"] if not out.get("_floats") else []), cnat(out["p"]), cqll(case["P"]), copt(case["W"], cql), cql(case["nodes"]),
        clist(out["scal"], lambda r: cres(r, cql)),
        cql(case["seqnodes"]), cres(out["seq"], cqll), cres(out["seq_all"], cqll))


def describe(case):
    return {"degree": case["p"], "kind": case["kind"], "n_interior": len(case["mults"]),
            "max_mult": max(case["mults"], default=0), "rational": case["W"] is not None,
            "dim": len(case["P"][0])}


def nontrivial(case):
    """Non-trivial: degree >= 1 and at least one interior knot (more than one span)."""
    return case["p"] >= 1 and len(case["mults"]) >= 1


def evaluations(case):
    return 2 * len(case["nodes"])
