"""C11 - fit_curve is the L2-orthogonal projection (with optional exact interpolation)."""
import random

from common import (F, cnat, copt, cq, cql, cqll, cres, ctuple, fsl, fs, distinct, npts_of, pts_json,
                    rand_points, random_vector, shape_vectors, build_vector, shapes, positions)

COQ_MODULE = "NurbsV.Check.C11"
CHECK_FN = "check_case"
CASE_TYPE = "case"
SHARD = 6
RULE = ("pairs (source curve, target knot vector) on the same interval: independent shapes of different degrees and "
        "multiplicities on uniform and non-uniform positions with random control points (dimension 1-2), and in-space "
        "sources obtained from a target-space curve by knot insertion / degree elevation (must be reproduced, error 0); "
        "interpolation nodes: none, both ends, ends + interior points up to npts; non-trivial = target with an "
        "interior knot or different degrees")


def gen(tier, seed):
    rnd = random.Random(seed)
    cases = []
    sh = shapes(3, 2) if tier != "quick" else shapes(2, 2)
    npairs = 220 if tier == "quick" else 1500
    for i in range(npairs):
        (p, ma), (q, mb) = rnd.choice(sh), rnd.choice(sh)
        if abs(p - q) >= 3:
            continue          # known finding K7 (quadrature size), kept out of the stream
        kind = rnd.choice(("uniform", "nonuniform"))
        if kind == "uniform":
            a, pool, b = F(0), [F(1, 4), F(1, 2), F(3, 4)], F(1)
        else:
            a, pool, b = F(-3, 2), [F(-1, 4), F(0), F(2, 7)], F(7, 2)
        ka, kb = sorted(rnd.sample(pool, len(ma))), sorted(rnd.sample(pool, len(mb)))
        U = [a] * (p + 1) + sum(([k] * m for k, m in zip(ka, ma)), []) + [b] * (p + 1)
        V = [a] * (q + 1) + sum(([k] * m for k, m in zip(kb, mb)), []) + [b] * (q + 1)
        if npts_of(U, p) + npts_of(V, q) > (12 if tier == "quick" else 16):
            continue
        dim = rnd.choice((1, 1, 2))
        mode = rnd.choice(("generic", "generic", "inspace"))
        nv = npts_of(V, q)
        ksV = distinct(V)
        mids = [(x + y) / 2 for x, y in zip(ksV[:-1], ksV[1:])]
        nodesets = [None, None, [a, b]]
        if q >= 1 and nv >= 3:
            nodesets.append(sorted([a, b] + mids[:max(0, min(len(mids), nv - 2))]))
        nodes = rnd.choice(nodesets)
        if q == 0 and nodes is not None:
            nodes = None
        case = {"kind": kind, "mode": mode, "V": fsl(V), "q": q, "nodes": None if nodes is None else fsl(nodes),
                "scalar": dim == 1, "shared": len(set(ka) & set(kb))}
        if mode == "generic":
            case.update({"U": fsl(U), "p": p, "P": pts_json(rand_points(rnd, npts_of(U, p), dim))})
        else:
            # source = a curve of the target space, refined by the implementation itself
            case.update({"U": fsl(V), "p": q, "P": pts_json(rand_points(rnd, nv, dim)),
                         "refine_nodes": fsl(rnd.sample(mids, min(len(mids), 2)) + ([ksV[1]] if len(ksV) > 2 and V.count(ksV[1]) <= q else [])),
                         "elevate": rnd.choice((0, 0, 1, 2))})
        cases.append(case)
    # same degree, same number of control points, same breakpoints - the multiplicities distributed differently: the two
    # spaces differ although every cheap comparison says they agree
    for i in range(10 if tier == "quick" else 120):
        p = rnd.randint(1, 3)
        kind = rnd.choice(("uniform", "nonuniform"))
        a, pool, b = (F(0), [F(1, 4), F(1, 2), F(3, 4)], F(1)) if kind == "uniform" else (F(-3, 2), [F(-1, 4), F(0), F(2, 7)], F(7, 2))
        m = rnd.randint(2, 3)
        ks = sorted(rnd.sample(pool, m))
        while True:
            ma = [rnd.randint(1, p + 1) for _ in ks]
            mb = ma[::-1] if rnd.random() < 0.5 else rnd.sample(ma, len(ma))
            if ma != mb:
                break
            if p == 0 or len(set(ma)) == 1 and rnd.random() < 0.5:
                ma[0] = ma[0] % (p + 1) + 1
        U = [a] * (p + 1) + sum(([k] * mu for k, mu in zip(ks, ma)), []) + [b] * (p + 1)
        V = [a] * (p + 1) + sum(([k] * mu for k, mu in zip(ks, mb)), []) + [b] * (p + 1)
        if npts_of(U, p) > 8:
            continue
        dim = rnd.choice((1, 2))
        cases.append({"kind": kind + "-permuted-mults", "mode": "generic", "V": fsl(V), "q": p,
                      "nodes": rnd.choice((None, None, fsl([a, b]))) if p >= 1 else None, "scalar": dim == 1, "shared": m,
                      "U": fsl(U), "p": p, "P": pts_json(rand_points(rnd, npts_of(U, p), dim))})
    return cases


def impl(case):
    from compmec.nurbs import Curve
    from implib import capture, nums, points, curve_state, out_points, out_num
    src = Curve(nums(case["U"]), points(case["P"], case["scalar"]))
    expected = None
    if case["mode"] == "inspace":
        expected = out_points(src.ctrlpoints)
        if case["refine_nodes"]:
            src.knot_insert(nums(case["refine_nodes"]))
        if case["elevate"]:
            src.degree_increase(case["elevate"])
    before = curve_state(src)
    target = Curve(nums(case["V"]))
    nodes = None if case["nodes"] is None else tuple(nums(case["nodes"]))

    def run():
        err = target.fit_curve(src, nodes) if nodes is not None else target.fit_curve(src)
        return {"P": out_points(target.ctrlpoints), "err": out_num(err)}
    r = capture(run)
    return {"src": before, "r": r, "after": curve_state(src), "expected": expected, "q": int(target.degree)}


def cocurve(s):
    P = s["P"] if s["P"] is not None else []
    return ctuple(cql(s["U"]), cnat(s["p"]), cqll(P), copt(s["W"], cql))


def emit(case, out):
    src = out["src"] if not out.get("_floats") else dict(out["src"], U=[])
    return ctuple(cocurve(src), cql(case["V"]), cnat(out["q"]), copt(case["nodes"], cql),
                  cres(out["r"], lambda v: ctuple(cqll(v["P"]), cq(v["err"]))), cocurve(out["after"]),
                  copt(out["expected"], cqll))


def describe(case):
    return {"mode": case["mode"], "kind": case["kind"], "p": case["p"], "q": case["q"],
            "nodes": "none" if case["nodes"] is None else len(case["nodes"])}


def nontrivial(case):
    return case["p"] != case["q"] or len(case["V"]) > 2 * case["q"] + 2
