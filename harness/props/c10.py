"""C10 - quadrature rules are exact to their order; spline integrals are exact."""
import random

from common import (F, cnat, copt, cq, cql, cqll, cres, clist, ctuple, fsl, fs, distinct, npts_of, pts_json,
                    rand_points, random_vector, shape_vectors)

PREWARM = False      # see impl_runner: no float pre-run for this stream
COQ_MODULE = "NurbsV.Check.C10"
FAMILIES = 2
SEARCH_LIMIT = 120
RULE = ("rule stream: sessions of 1-10 requests (closed/open Newton-Cotes weights, closed/open nodes, n from 0 to 12 "
        "(16 thorough), incl. refused sizes) in random order inside one interpreter so that the memo tables see every "
        "history; Chebyshev and Gauss-Legendre rules validated numerically (exactness order, ordering, weight sum); "
        "integral stream: Integrate.scalar of exhaustive shapes with non-uniform knots under the default, closed, open "
        "and float rules against the closed form, polyline lengths; non-trivial = a session with >= 2 requests of "
        "size >= 3, or a curve with an interior knot")


class Rules:
    COQ_MODULE = COQ_MODULE
    CHECK_FN = "check_qcase"
    CASE_TYPE = "qcase"
    SHARD = 30


class Integ:
    COQ_MODULE = COQ_MODULE
    CHECK_FN = "check_icase"
    CASE_TYPE = "icase"
    SHARD = 100


def families():
    return {"rules": Rules, "integ": Integ}


def family_of(case):
    return case["k"]


FAMS = ["closed_w", "open_w", "closed_x", "open_x"]


def gen(tier, seed):
    rnd = random.Random(seed)
    cases = []
    nmax = 12 if tier == "quick" else 16
    for i in range(60 if tier == "quick" else 600):
        calls = [[rnd.choice(FAMS), rnd.choice([0, 1, 2, 3, 4, 5] + list(range(2, nmax + 1)))]
                 for _ in range(rnd.randint(1, 10))]
        cases.append({"k": "rules", "calls": calls, "float_n": rnd.randint(1, 9)})
    # every size once, both orders
    cases.append({"k": "rules", "calls": [[f, n] for n in range(0, nmax + 1) for f in FAMS], "float_n": 4})
    cases.append({"k": "rules", "calls": [[f, n] for n in range(nmax, -1, -1) for f in reversed(FAMS)], "float_n": 7})
    vecs = shape_vectors(3, 2) if tier == "quick" else shape_vectors(4, 3)
    vecs += [random_vector(rnd, pmax=4, mmax=3, big=(i % 3 == 0)) for i in range(30 if tier == "quick" else 400)]
    for v in vecs:
        U, p = v["U"], v["p"]
        if tier == "quick" and v["kind"] == "uniform" and rnd.random() < 0.5:
            continue
        P = rand_points(rnd, npts_of(U, p), 1)
        if rnd.random() < 0.4:
            # sparse control points: runs of zeros with one or two non-zero entries (single basis functions, spans on
            # which the curve vanishes identically)
            keep = set(rnd.sample(range(len(P)), min(len(P), rnd.randint(1, 2))))
            P = [pt if i in keep else [F(0)] for i, pt in enumerate(P)]
        cases.append({"k": "integ", "U": fsl(U), "p": p, "kind": v["kind"], "mults": v["mults"],
                      "P": pts_json(P),
                      "closed": p >= 1 and all(m <= p for m in v["mults"])})
    return cases


def _float_rules(n):
    """Chebyshev: exact for degree < n; Gauss-Legendre: degree < 2n; nodes increasing in [0,1]; weights sum 1."""
    from compmec.nurbs.heavy import IntegratorArray as IA, NodeSample as NS
    bad = []
    for name, nodes, ws, order in (("chebyshev", NS.chebyshev(n), IA.chebyshev(n), n),
                                   ("gauss", NS.gauss_legendre(n), IA.gauss_legendre(n), 2 * n)):
        nodes, ws = [float(x) for x in nodes], [float(w) for w in ws]
        if len(nodes) != n or len(ws) != n or any(a >= b for a, b in zip(nodes, nodes[1:])) \
                or min(nodes) < 0 or max(nodes) > 1 or abs(sum(ws) - 1) > 1e-9:
            bad.append([name, n, "shape"])
        for m in range(order):
            if abs(sum(w * x ** m for w, x in zip(ws, nodes)) - 1 / (m + 1)) > 1e-8:
                bad.append([name, n, m])
    return bad


def impl(case):
    from fractions import Fraction
    from implib import capture, nums, out_nums, out_num, points
    if case["k"] == "rules":
        from compmec.nurbs.heavy import IntegratorArray as IA, NodeSample as NS
        fn = {"closed_w": IA.closed_newton_cotes, "open_w": IA.open_newton_cotes,
              "closed_x": NS.closed_linspace, "open_x": NS.open_linspace}
        types_ok = True
        outs = []
        for f, n in case["calls"]:
            def call():
                v = fn[f](n)
                return [x for x in v]
            r = capture(call)
            if "ok" in r:
                types_ok = types_ok and all(isinstance(x, (int, Fraction)) for x in r["ok"])
                r = {"ok": out_nums(r["ok"])}
            outs.append(r)
        bad = _float_rules(case["float_n"])
        return {"r": outs, "types": types_ok, "float_failures": bad}
    import numpy as np
    from compmec.nurbs import Curve
    from compmec.nurbs.calculus import Integrate
    U, p = nums(case["U"]), case["p"]
    P = [x[0] for x in [nums(pt) for pt in case["P"]]]
    curve = Curve(U, P)
    before = (tuple(curve.knotvector), tuple(curve.ctrlpoints))
    r0 = capture(lambda: [out_num(Integrate.scalar(curve))])
    rc = capture(lambda: [out_num(Integrate.scalar(curve, None, "closed-newton-cotes"))]) if case["closed"] else None
    ro = capture(lambda: [out_num(Integrate.scalar(curve, None, "open-newton-cotes", p + 3))])
    exact = sum(P[i] * (U[i + p + 1] - U[i]) / (p + 1) for i in range(len(P)))
    bad = []
    for method, nn in (("chebyshev", p + 1), ("gauss-legendre", p + 1), ("gauss-legendre", max(1, (p + 2) // 2)),
                       ("chebyshev", None), ("gauss-legendre", None), ("closed-newton-cotes", p + 4),
                       ("open-newton-cotes", None)):
        if method == "closed-newton-cotes" and not case["closed"]:
            continue
        try:
            val = float(Integrate.scalar(curve, None, method, nn) if nn is not None else Integrate.scalar(curve, None, method))
            if abs(val - float(exact)) > 1e-9 * max(1.0, abs(float(exact))):
                bad.append([method, nn, val, float(exact)])
        except Exception as e:  # noqa: BLE001
            bad.append([method, nn, type(e).__name__])
    if p == 1:
        # polyline in the plane (float data): Integrate.lenght is the sum of the segment lengths; a double interior knot
        # cuts the polyline into separate pieces - the jump between them is not part of the curve
        try:
            pts = [np.array([float(P[i]), float((i * 7) % 5 - 2)]) for i in range(len(P))]
            poly = Curve([float(u) for u in U], pts)
            ln = float(Integrate.lenght(poly))
            want = sum(float(np.linalg.norm(pts[i + 1] - pts[i])) for i in range(len(pts) - 1) if U[i + 1] < U[i + 2])
            if abs(ln - want) > 1e-9 * max(1.0, want):
                bad.append(["lenght", ln, want])
        except Exception as e:  # noqa: BLE001
            bad.append(["lenght", type(e).__name__])
    # Integrate.function: per-span polynomials of degree < nnodes are integrated exactly (the curve itself is one; so is
    # u -> u^p); exact rules give the exact Fraction, float rules agree within rounding
    from fractions import Fraction
    ks = sorted(set(U))
    mono = sum((b ** (p + 1) - a ** (p + 1)) / (p + 1) for a, b in zip(ks[:-1], ks[1:]))
    for fn, want, tag in ((lambda u: curve(u), exact, "curve"), (lambda u: u ** p, mono, "monomial")):
        for method, nn in ((None, None), ("open-newton-cotes", p + 2), ("gauss-legendre", p + 1), ("chebyshev", p + 2)):
            try:
                val = Integrate.function(curve.knotvector, fn, method, nn)
                if method in (None, "open-newton-cotes"):
                    if not isinstance(val, (int, Fraction)) or val != want:
                        bad.append(["function", tag, method, nn, str(val), str(want)])
                elif abs(float(val) - float(want)) > 1e-9 * max(1.0, abs(float(want))):
                    bad.append(["function", tag, method, nn, float(val), float(want)])
            except Exception as e:  # noqa: BLE001
                bad.append(["function", tag, method, nn, type(e).__name__])
    if before != (tuple(curve.knotvector), tuple(curve.ctrlpoints)):
        bad.append(["curve modified"])
    return {"r0": r0, "rc": rc, "ro": ro, "float_failures": bad}


CF = {"closed_w": "FClosedW", "open_w": "FOpenW", "closed_x": "FClosedX", "open_x": "FOpenX"}


def emit(case, out):
    if case["k"] == "rules":
        calls = clist(list(zip(case["calls"], out["r"])),
                      lambda cr: ctuple(CF[cr[0][0]], cnat(cr[0][1]), cres(cr[1], cql)))
        return ctuple(calls, "true" if out["types"] and not out.get("_floats") else "false",
                      "true" if not out["float_failures"] else "false")
    return ctuple(cql(case["U"]), cnat(case["p"]), cqll(case["P"]), cres(out["r0"], cql),
                  "None" if out["rc"] is None else f"(Some {cres(out['rc'], cql)})", cres(out["ro"], cql),
                  "true" if not out["float_failures"] and not out.get("_floats") else "false")


def describe(case):
    if case["k"] == "rules":
        return {"stream": "rules", "n_calls": min(len(case["calls"]), 11), "max_n": max(n for _, n in case["calls"])}
    return {"stream": "integ", "degree": case["p"], "kind": case["kind"], "n_interior": len(case["mults"])}


def nontrivial(case):
    if case["k"] == "rules":
        return sum(1 for _, n in case["calls"] if n >= 3) >= 2
    return len(case["mults"]) >= 1


def evaluations(case):
    return len(case["calls"]) if case["k"] == "rules" else 6
