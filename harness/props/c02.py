"""C02 - basis functions obey Cox-de Boor for every index and sub-degree."""
import random

from common import (F, cnat, copt, cq, cql, cres, clist, ctuple, cz, fs, fsl, near_knot_nodes, node_set, npts_of,
                    rand_weights, random_vector, shape_vectors)

COQ_MODULE = "NurbsV.Check.C02"
CHECK_FN = "check_case"
CASE_TYPE = "case"
SHARD = 30
EXTRA_IMPORTS = "From NurbsV Require Import Model.FunctionM."


def _indices(rnd, n, p, tier):
    """(first index, j) pairs: every j <= p with the full slice, every int index incl. negative
    ones at a random j, a small exhaustive family of slices, and invalid ones."""
    out = []
    for j in range(p + 1):
        out.append(({"s": [None, None, None]}, j))
    for i in range(-n, n):
        out.append(({"i": i}, rnd.randint(0, p)))
    sl = [(None, None, 2), (1, None, None), (None, -1, None), (None, None, -1), (-2, None, None),
          (1, n + 3, 2), (n, None, None), (None, None, -2), (-1, 0, -1), (0, 0, None)]
    for a, b, c in (sl if tier != "quick" else rnd.sample(sl, 4)):
        out.append(({"s": [a, b, c]}, rnd.randint(0, p)))
    out.append(({"i": n}, p))
    out.append(({"i": -n - 1}, 0))
    out.append(({"i": 0}, p + 1))
    out.append(({"i": 0}, -1))
    return out


def gen(tier, seed):
    rnd = random.Random(seed)
    P, M = (3, 2) if tier == "quick" else (4, 3)
    vecs = shape_vectors(P, M)
    nrand = 40 if tier == "quick" else 300
    # huge rational knots only up to degree 3: the naive recursion on 30-digit rationals at degree 5 costs minutes per case
    vecs += [random_vector(rnd, pmax=4 if tier == "quick" or i % 4 == 0 else 5,
                           big=(i % 4 == 0)) for i in range(nrand)]
    cases = []
    for v in vecs:
        U, p = v["U"], v["p"]
        n = npts_of(U, p)
        nodes = node_set(U, p)
        if tier == "quick":
            near = near_knot_nodes(U)
            nodes = nodes[:-5 - len(near)][::2] + near + nodes[-5:]    # every other inside node, near-knot ones, umax, four outside
        for rational in (False, True):
            if tier == "quick" and rational and v["kind"] == "uniform":
                continue
            qs = []
            for ix, j in _indices(rnd, n, p, tier):
                us = nodes if "s" in ix and ix["s"] == [None, None, None] else rnd.sample(nodes, 3)
                for u in us:
                    qs.append({"ix": ix, "j": j, "u": fs(u)})
            # some Function objects reach this knot vector by an IN-PLACE change of their KnotVector (one knot inserted,
            # or the degree raised) after they have already been evaluated: answers must follow the current vector
            pre = None
            if not rational:
                inner = sorted(set(U[p + 1:len(U) - p - 1]))
                if inner and rnd.random() < 0.4:
                    pre = {"insert": fsl([rnd.choice(inner)])}
                elif p >= 1 and all(m >= 2 for m in v["mults"]) and rnd.random() < 0.5:
                    pre = {"elevate": 1}
            cases.append({"U": fsl(U), "p": p, "kind": v["kind"], "mults": v["mults"], "pre": pre,
                          "W": fsl(rand_weights(rnd, n)) if rational else None, "qs": qs,
                          "seqnodes": fsl(rnd.sample(nodes[:-4], len(nodes) - 4))})
    return cases


def impl(case):
    from compmec.nurbs import Function
    from implib import capture, num, nums, out_nums, out_num
    U = nums(case["U"])
    pre = case.get("pre")
    if pre and "insert" in pre:
        x = nums(pre["insert"])[0]
        U0 = list(U)
        U0.remove(x)
        f = Function(U0)
        for j in range(int(f.degree) + 1):
            f[:, j](U0[0]), f[0, j](x)
        f.knotvector.insert([x])                       # in place
    elif pre and "elevate" in pre:
        from compmec.nurbs import KnotVector
        kv0 = KnotVector(U)
        kv0.degree -= 1
        f = Function(kv0)
        for j in range(int(f.degree) + 1):
            f[:, j](U[0])
        f.knotvector.degree += 1                       # in place
    else:
        f = Function(U)
    if list(f.knotvector) != U:
        raise RuntimeError("harness: premutation did not reach the requested vector")
    if case["W"] is not None:
        f.weights = nums(case["W"])
    outs = []
    for q in case["qs"]:
        ix = q["ix"]
        first = ix["i"] if "i" in ix else slice(*ix["s"])
        u = num(q["u"])

        def call():
            val = f[first, q["j"]](u)
            return out_nums(list(val)) if isinstance(first, slice) else [out_num(val)]
        outs.append(capture(call))
    # f(u) must be f[:, p](u); f[i] must be f[i, p]
    p = int(f.degree)
    aliases = []
    for q in case["qs"][:6]:
        u = num(q["u"])
        a = capture(lambda: out_nums(list(f(u))))
        b = capture(lambda: out_nums(list(f[:, p](u))))
        c = capture(lambda: out_num(f[0](u)))
        d = capture(lambda: out_num(f[0, p](u)))
        aliases.append(a == b and c == d)
    # one call on a whole (unsorted) sequence of in-range nodes = the scalar calls, in order
    seqnodes = nums(case["seqnodes"])
    for j in range(p + 1):
        a = capture(lambda: [out_nums(list(row)) for row in f[:, j](tuple(seqnodes))])
        b = capture(lambda: [[out_num(f[i, j](u)) for u in seqnodes] for i in range(int(f.npts))])
        aliases.append(a == b and "ok" in a)
    a = capture(lambda: out_nums(list(f[-1](tuple(seqnodes)))))
    b = capture(lambda: [out_num(f[-1, p](u)) for u in seqnodes])
    aliases.append(a == b and "ok" in a)
    return {"p": p, "r": outs, "aliases_ok": all(aliases)}


def _cidx(ix):
    if "i" in ix:
        return f"(IInt {cz(ix['i'])})"
    a, b, c = ix["s"]
    return f"(ISlice {copt(a, cz)} {copt(b, cz)} {copt(c, cz)})"


def emit(case, out):
    qs = clist(list(zip(case["qs"], out["r"])),
               lambda qr: ctuple(_cidx(qr[0]["ix"]), cz(qr[0]["j"]), cq(qr[0]["u"]), cres(qr[1], cql)))
    U = case["U"] if out["aliases_ok"] else []       # alias failure -> wf_b [] fails -> prop_ok false
    return ctuple(cql(U), cnat(out["p"]), copt(case["W"], cql), qs)


def describe(case):
    return {"degree": case["p"], "kind": case["kind"], "n_interior": len(case["mults"]),
            "max_mult": max(case["mults"], default=0), "rational": case["W"] is not None,
            "reached_in_place": "no" if not case.get("pre") else list(case["pre"])[0]}


def nontrivial(case):
    """Non-trivial: degree >= 1 and at least one interior knot."""
    return case["p"] >= 1 and len(case["mults"]) >= 1


def evaluations(case):
    return len(case["qs"])
