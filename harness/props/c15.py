"""C15 - curves stay consistent; failed operations are atomic; operands stay untouched."""
import random

from common import (F, cnat, copt, cq, cql, cqll, cres, clist, ctuple, cz, fsl, fs, distinct, npts_of, pts_json,
                    rand_points, rand_weights, rand_q, random_vector, shape_vectors)

PREWARM = False      # see impl_runner: no float pre-run for this stream
COQ_MODULE = "NurbsV.Check.C15"
CHECK_FN = "check_case"
CASE_TYPE = "case"
SHARD = 6
RULE = ("histories of 1-8 public Curve operations over 2-3 curves, two of them built from the SAME KnotVector object and "
        "one a deep copy or an independent curve: mutators (knot_insert / knot_remove / degree_increase / degree_decrease / "
        "degree setter / ctrlpoints and weights setters / clean family) with ~35% invalid arguments, and non-mutating "
        "operations (evaluation, arithmetic, ==, split, fraction, copy-then-mutate-the-copy, Derivate, Integrate, fitting "
        "another curve to it, joining a rational left neighbour of another degree with it) and fitting the curve itself to a "
        "rational source whose projected weights may change sign; every curve (two bystanders included) and every KnotVector "
        "object is snapshotted after each call; non-trivial = a "
        "history with >= 3 steps containing a failed call and a successful mutator")


def gen(tier, seed):
    rnd = random.Random(seed)
    starts = [v for v in shape_vectors(2, 2) if npts_of(v["U"], v["p"]) <= 5]
    cases = []
    for i in range(110 if tier == "quick" else 2500):
        v = rnd.choice(starts)
        cases.append({"U": fsl(v["U"]), "p": v["p"], "kind": v["kind"], "len": rnd.randint(1, 8),
                      "seed": rnd.randint(0, 2 ** 30), "rational": rnd.random() < 0.2, "dim": rnd.choice((1, 1, 2)),
                      "third": rnd.choice(("copy", "independent", "bare"))})
    return cases


def _snap(c):
    from implib import out_nums, out_points
    return {"U": out_nums(list(c.knotvector)), "p": int(c.knotvector.degree),
            "P": out_points(c.ctrlpoints), "W": out_nums(c.weights)}


def _rand_op(rnd, curves, i, dim):
    c = curves[i]
    U = [x for x in c.knotvector]
    p = int(c.degree)
    ks = distinct(sorted(U))
    a, b = ks[0], ks[-1]
    inside = lambda: a + (b - a) * F(rnd.randint(1, 11), 12)
    bad = rnd.random() < 0.35
    kind = rnd.choice(["insert", "insert", "remove", "inc", "dec", "setdeg", "setP", "setW", "clean", "kclean", "dclean",
                       "pure", "pure", "pure", "pure", "fitself"])
    n = int(c.npts)
    if kind == "insert":
        ns = [rnd.choice(ks[1:-1]) if len(ks) > 2 and rnd.random() < 0.4 else inside() for _ in range(rnd.randint(1, 2))]
        if bad:
            ns = rnd.choice([[b + 1], [a, b], [inside()] * (p + 2), [a - F(1, 2), inside()]])
        if len(U) + len(ns) > 11:
            ns = ns[:1]
        return {"op": "insert", "ns": fsl(ns)}
    if kind == "remove":
        pool = U[p + 1:len(U) - p - 1]
        ns = [rnd.choice(pool)] if pool and not bad else [rnd.choice([a, inside() + F(1, 1013), b])]
        return {"op": "remove", "ns": fsl(ns), "tol": rnd.choice(["default", "default", "none", fs(F(10 ** 6))])}
    if kind == "inc":
        return {"op": "inc", "t": rnd.choice([1, 1, 0, -1]) if (bad or p >= 2 or n >= 5) else 1}
    if kind == "dec":
        return {"op": "dec", "t": rnd.choice([1, 1, 0, p + 1]), "tol": rnd.choice(["default", "none", fs(F(10 ** 6))])}
    if kind == "setdeg":
        return {"op": "setdeg", "d": rnd.choice([p, max(p - 1, 0), p + 1 if n <= 4 else p, -1])}
    if kind == "setP":
        m = n if not bad else rnd.choice([n - 1, n + 1, 0])
        return {"op": "setP", "P": pts_json(rand_points(rnd, max(m, 0), dim))}
    if kind == "setW":
        if rnd.random() < 0.3:
            return {"op": "setW", "W": None}
        m = n if not bad else rnd.choice([n - 1, n + 2])
        return {"op": "setW", "W": fsl(rand_weights(rnd, max(m, 1)))}
    if kind in ("clean", "kclean", "dclean"):
        return {"op": kind}
    if kind == "fitself":
        # the curve itself is fitted to a rational source whose weight function is very uneven: on a coarse target the
        # projected weights change sign and the weights setter refuses - after the control points were computed
        return {"op": "fitself"}
    return {"op": "pure", "what": rnd.choice(["eval", "add", "muls", "eq", "split", "fraction", "copymut", "derivate",
                                               "integrate", "fit", "sub", "neg", "splitmut", "splitmut", "project", "intersect",
                                               "join", "join"]),
            "j": rnd.randrange(len(curves))}


def _apply(rnd, curves, i, op, dim):
    import numpy as np
    from copy import deepcopy
    from fractions import Fraction
    from compmec.nurbs import Curve
    from compmec.nurbs.calculus import Derivate, Integrate
    from implib import num, nums, points
    c = curves[i]
    o = op["op"]
    tol = op.get("tol")

    def with_tol(f, *a):
        if tol == "default":
            return f(*a)
        if tol == "none":
            return f(*a, None)
        return f(*a, num(tol))
    if o == "insert":
        c.knot_insert(nums(op["ns"]))
    elif o == "remove":
        with_tol(c.knot_remove, nums(op["ns"]))
    elif o == "inc":
        c.degree_increase(op["t"])
    elif o == "dec":
        with_tol(c.degree_decrease, op["t"])
    elif o == "setdeg":
        c.degree = op["d"]
    elif o == "setP":
        c.ctrlpoints = points(op["P"], dim == 1)
    elif o == "setW":
        c.weights = None if op["W"] is None else nums(op["W"])
    elif o == "clean":
        c.clean()
    elif o == "kclean":
        c.knot_clean()
    elif o == "dclean":
        c.degree_clean()
    elif o == "fitself":
        c.fit_curve(curves[4])
    else:
        w = op["what"]
        other = curves[op["j"]]
        U = list(c.knotvector)
        mid = (U[0] + U[-1]) / 2
        if w == "eval":
            c(mid), c([U[0], mid, U[-1]])
        elif w == "add":
            c + other
        elif w == "sub":
            c - other
        elif w == "neg":
            -c
        elif w == "muls":
            c * Fraction(3, 2), Fraction(2) * c, c + (Fraction(1) if dim == 1 else np.array([Fraction(1)] * dim, dtype=object))
        elif w == "eq":
            c == other, c != other, c == 3
        elif w == "split":
            c.split(), c.split([mid])
        elif w == "splitmut":
            # the pieces are new curves: changing them must not reach the curve they were cut from
            for piece in list(c.split()) + list(c.split([U[0], U[-1]])) + list(c.split([])):
                piece.knot_insert([(piece.knotvector[0] + piece.knotvector[-1]) / 2])
                piece.ctrlpoints = [3 * pt for pt in piece.ctrlpoints]
                piece.clean()
        elif w == "project":
            if dim == 2:
                from compmec.nurbs.advanced import Projection
                Projection.point_on_curve(np.array([0.25, -1.5]), c)
        elif w == "intersect":
            if dim == 2:
                from compmec.nurbs.advanced import Intersection
                Intersection.curve_and_curve(c, other)
        elif w == "join":
            # the left neighbour (rational, vector points in numpy arrays, another degree) joined with this curve: neither
            # operand may change (curves[3] is part of the observed world)
            if c.ctrlpoints is not None and len(np.shape(c.ctrlpoints[0])) == len(np.shape(curves[3].ctrlpoints[0])):
                curves[3] | c
        elif w == "fraction":
            c.fraction()
        elif w == "copymut":
            d = deepcopy(c)
            d.knot_insert([mid])
            d.ctrlpoints = [2 * pt for pt in d.ctrlpoints]
            e = c.knotvector + [mid]           # KnotVector arithmetic returns copies
        elif w == "derivate":
            Derivate(c)
        elif w == "integrate":
            if dim == 1:
                Integrate.scalar(c)
        elif w == "fit":
            t = Curve([U[0]] * 2 + [U[-1]] * 2)
            t.fit_curve(c)


def impl(case):
    from copy import deepcopy
    from compmec.nurbs import Curve, KnotVector
    from implib import capture, nums, points, out_nums
    rnd = random.Random(case["seed"])
    U, p, dim = nums(case["U"]), case["p"], case["dim"]
    n = npts_of(U, p)
    kvobj = KnotVector(U)
    c0 = Curve(kvobj, points(pts_json(rand_points(rnd, n, dim)), dim == 1))
    c1 = Curve(kvobj, points(pts_json(rand_points(rnd, n, dim)), dim == 1))
    if case["rational"]:
        c1.weights = rand_weights(rnd, n)
    if case["third"] == "copy":
        c2 = deepcopy(c0)
        kv2 = kvobj
    elif case["third"] == "bare":
        # weights but no control points yet (the order used when points are fitted with a rational basis afterwards):
        # every knot / degree operation must carry the weights along
        kv2 = KnotVector(U)
        c2 = Curve(kv2)
        c2.weights = rand_weights(rnd, n)
    else:
        kv2 = KnotVector([U[0]] * 2 + [U[-1]] * 2)
        c2 = Curve(kv2, points(pts_json(rand_points(rnd, 2, dim)), dim == 1))
    # two observed bystanders that no mutator targets: the left neighbour used by `|` (degree 1, rational, numpy points) and
    # a rational source with a very uneven weight function on the same interval (weights 1/100, 1/100, 1)
    import numpy as np
    from fractions import Fraction
    a, b = U[0], U[-1]
    left_pts = points(pts_json(rand_points(rnd, 3, dim)), dim == 1)
    c3 = Curve([a - 2, a - 2, a - 1, a, a], left_pts)
    c3.weights = [Fraction(2), Fraction(3), Fraction(5, 2)]
    c4 = Curve([a, a, a + (b - a) * Fraction(9, 10), b, b], points(pts_json(rand_points(rnd, 3, dim)), dim == 1))
    c4.weights = [Fraction(1, 100), Fraction(1, 100), Fraction(1)]
    # a refinement of c0 by one more copy of an existing interior knot (same degree, same distinct knots, other multiplicities):
    # comparing with it must not refine the coarser operand in place
    c5 = deepcopy(c0)
    inner = [x for x in sorted(set(U[p + 1:len(U) - p - 1])) if U.count(x) <= p]
    if inner:
        c5.knot_insert([inner[0]])
    curves = [c0, c1, c2, c3, c4, c5]
    kvs = [kvobj, kv2]

    def world():
        ok = True
        for c in curves:
            if c.ctrlpoints is not None:
                V = list(c.knotvector)
                try:
                    c(V[0]), c((V[0] + V[-1]) / 2), c(V[-1])
                except Exception:  # noqa: BLE001
                    ok = False
        return [_snap(c) for c in curves], [out_nums(list(k)) for k in kvs], ok
    init, kinit, ok0 = world()
    steps = []
    for _ in range(case["len"]):
        i = rnd.randrange(3)
        op = _rand_op(rnd, curves, i, dim)
        r = capture(lambda: _apply(rnd, curves, i, op, dim) and None)
        now, know, ok = world()
        steps.append({"i": i, "op": op, "r": r, "now": now, "kvs": know, "ok": ok})
    return {"init": init, "kinit": kinit, "ok0": ok0, "steps": steps}


def csnap(s):
    return ctuple(cql(s["U"]), cnat(s["p"]), copt(s["P"], cqll), copt(s["W"], cql))


def ctol(t):
    return {"default": "TDefault", "none": "TNone"}.get(t) or f"(TGiven {cq(t)})"


def cop(op):
    o = op["op"]
    if o == "insert":
        return f"(SInsert {cql(op['ns'])})"
    if o == "remove":
        return f"(SRemove {cql(op['ns'])} {ctol(op['tol'])})"
    if o == "inc":
        return f"(SInc {cz(op['t'])})"
    if o == "dec":
        return f"(SDec {cz(op['t'])} {ctol(op['tol'])})"
    if o == "setdeg":
        return f"(SSetDeg {cz(op['d'])})"
    if o == "setP":
        return f"(SSetP {cqll(op['P'])})"
    if o == "setW":
        return f"(SSetW {copt(op['W'], cql)})"
    return {"clean": "SClean", "kclean": "SKnotClean", "dclean": "SDegClean", "pure": "SPure", "fitself": "SFit"}[o]


def emit(case, out):
    steps = clist(out["steps"], lambda s: ctuple(cnat(s["i"]), cop(s["op"]), cres(s["r"], lambda _: "tt"),
                                                 clist(s["now"], csnap), clist(s["kvs"], cql),
                                                 "true" if s["ok"] else "false"))
    init = out["init"] if (out["ok0"] and not out.get("_floats_unexpected")) else []
    return ctuple(clist(init, csnap), clist(out["kinit"], cql), steps)


def describe(case):
    return {"degree": case["p"], "kind": case["kind"], "history_len": case["len"], "rational": case["rational"],
            "third": case["third"], "dim": case["dim"]}


def nontrivial(case):
    return case["len"] >= 3


def evaluations(case):
    return case["len"]
