"""C08 - curve arithmetic is pointwise."""
import random

from common import (F, cnat, copt, cq, cql, cqll, cres, ctuple, fsl, fs, distinct, npts_of, pts_json,
                    rand_points, rand_weights, rand_q, random_vector, shapes)

COQ_MODULE = "NurbsV.Check.C08"
CHECK_FN = "check_case"
CASE_TYPE = "case"
SHARD = 6
RULE = ("pairs of curves on a shared interval with equal/different degrees, disjoint/shared interior knots with "
        "different multiplicities (incl. full multiplicity), uniform and non-uniform positions, scalar and 2-vector "
        "points, polynomial and rational operands; every operator form (+ - * / @ unary -, scalar and vector on either "
        "side, numerators s != 1, matrix on the right); operands on different intervals; the result is compared with "
        "the pointwise expression at 2(p+q)+3 points of every span, every knot and both ends; non-trivial = a "
        "curve-curve operation with different knot vectors")


def mk_pair(rnd, tier):
    sh = shapes(2, 2) if tier == "quick" else shapes(3, 2)
    (p, ma), (q, mb) = rnd.choice(sh), rnd.choice(sh)
    kind = rnd.choice(("uniform", "nonuniform"))
    if kind == "uniform":
        a, pool, b = F(0), [F(1, 4), F(1, 2), F(3, 4)], F(1)
    else:
        a, pool, b = F(-3, 2), [F(-1, 4), F(0), F(2, 7)], F(7, 2)
    ka, kb = sorted(rnd.sample(pool, len(ma))), sorted(rnd.sample(pool, len(mb)))
    U = [a] * (p + 1) + sum(([k] * m for k, m in zip(ka, ma)), []) + [b] * (p + 1)
    V = [a] * (q + 1) + sum(([k] * m for k, m in zip(kb, mb)), []) + [b] * (q + 1)
    return kind, U, p, V, q, len(set(ka) & set(kb))


def curve_json(rnd, U, p, dim, rational, positive=False):
    n = npts_of(U, p)
    if positive:
        P = [[F(rnd.randint(1, 20), rnd.choice((1, 2, 3)))] for _ in range(n)]
    else:
        P = rand_points(rnd, n, dim)
    return {"U": fsl(U), "p": p, "scalar": dim == 1 or positive, "P": pts_json(P),
            "W": fsl(rand_weights(rnd, n)) if rational else None}


def _refined_has_zero(U, p, a, m, c):
    """Is some control value of the quadratic Bezier (a, m, c) on [U[0], U[-1]], written over A's knots at degree max(p, 2),
    exactly zero?  (polar form of a quadratic: F(t_1..t_d) = q2 * e2(t) / C(d,2) + q1 * e1(t) / d + q0)"""
    lo, hi = U[0], U[-1]
    h = hi - lo
    # q(t) = a (1-s)^2 + 2 m s (1-s) + c s^2 with s = (t - lo) / h, as a polynomial in s
    q0, q1, q2 = a, 2 * (m - a), a - 2 * m + c
    d = max(p, 2)
    inner = sorted(set(U[p + 1:len(U) - p - 1]))
    T = [F(0)] * (d + 1) + sum(([(k - lo) / h] * (U.count(k) + d - p) for k in inner), []) + [F(1)] * (d + 1)
    for i in range(len(T) - d - 1):
        ts = T[i + 1:i + d + 1]
        e1 = sum(ts)
        e2 = sum(ts[x] * ts[y] for x in range(d) for y in range(x + 1, d))
        if q2 * e2 / (d * (d - 1) // 2) + q1 * e1 / d + q0 == 0:
            return True
    return False


def gen(tier, seed):
    rnd = random.Random(seed)
    cases = []
    npairs = 160 if tier == "quick" else 1500
    for i in range(npairs):
        kind, U, p, V, q, shared = mk_pair(rnd, tier)
        if npts_of(U, p) + npts_of(V, q) > (9 if tier == "quick" else 12):
            continue
        op = rnd.choice(["add", "sub", "mul", "mul", "div", "matmul", "add", "interval"])
        rat_a, rat_b = (rnd.random() < 0.2), (rnd.random() < 0.2)
        if op in ("mul",) and (p + q > 4):
            continue
        if op == "matmul":
            A, B = curve_json(rnd, U, p, 2, rat_a), curve_json(rnd, V, q, 2, rat_b)
        elif op == "div":
            A, B = curve_json(rnd, U, p, rnd.choice((1, 2)), rat_a), curve_json(rnd, V, q, 1, rat_b, positive=True)
        elif op == "mul":
            da = rnd.choice((1, 1, 2))
            A, B = curve_json(rnd, U, p, da, rat_a), curve_json(rnd, V, q, 1 if da == 2 or rnd.random() < 0.7 else 2, rat_b)
        else:
            d = rnd.choice((1, 2))
            A, B = curve_json(rnd, U, p, d, rat_a), curve_json(rnd, V, q, d, rat_b)
        if op == "interval":
            Ub = [F(*map(int, x.split("/"))) for x in B["U"]]
            how = rnd.choice(("shift", "keep_umax", "keep_umin"))
            if how == "shift":
                Ub = [x + F(1, 2) for x in Ub]
            elif how == "keep_umax":
                Ub = [Ub[-1] - (Ub[-1] - x) / 2 for x in Ub]
            else:
                Ub = [Ub[0] + (x - Ub[0]) / 2 for x in Ub]
            B["U"] = fsl(Ub)
            # every operator must refuse operands on different intervals
            for op2 in ("add", "sub", "mul", "div") + (("matmul",) if not A["scalar"] and not B["scalar"] else ()):
                cases.append({"k": "cc", "A": A, "B": B, "op": op2, "kind": kind + "-" + how, "shared": shared})
            continue
        cases.append({"k": "cc", "A": A, "B": B, "op": op, "kind": kind, "shared": shared})
    # rational operands with IDENTICAL weight tuples on DIFFERENT knot vectors (same number of control points)
    for i in range(12 if tier == "quick" else 150):
        p = rnd.randint(1, 2)
        a, b = F(0), F(1)
        x, y = rnd.sample([F(1, 3), F(2, 3), F(1, 2), F(1, 4)], 2)
        U = [a] * (p + 1) + [x] + [b] * (p + 1)
        V = [a] * (p + 1) + [y] + [b] * (p + 1)
        d = rnd.choice((1, 2))
        A, B = curve_json(rnd, U, p, d, True), curve_json(rnd, V, p, d, True)
        B["W"] = A["W"] if rnd.random() < 0.7 else fsl([1] * npts_of(V, p))
        if B["W"] != A["W"]:
            A["W"] = B["W"]
        cases.append({"k": "cc", "A": A, "B": B, "op": rnd.choice(["add", "sub", "add"]), "kind": "same-weights", "shared": 0})
    # vector-valued A times scalar B where the point dimension equals the number of control points of the product
    for i in range(10 if tier == "quick" else 100):
        d = rnd.choice((2, 3, 3))
        if d == 2:
            (p, q) = rnd.choice(((1, 0), (0, 1)))
        else:
            (p, q) = rnd.choice(((1, 1), (2, 0), (0, 2)))
        U = [F(0)] * (p + 1) + [F(1)] * (p + 1)
        V = [F(0)] * (q + 1) + [F(1)] * (q + 1)
        A = curve_json(rnd, U, p, d, rnd.random() < 0.3)
        A["P"] = pts_json(rand_points(rnd, npts_of(U, p), d))
        A["scalar"] = False
        B = curve_json(rnd, V, q, 1, False)
        cases.append({"k": "cc", "A": A, "B": B, "op": "mul", "kind": "square", "shared": 0})
    # divisors WITHOUT a zero whose control values have mixed signs: a quadratic Bezier (a, m, c) with a, c > 0 > m and
    # m^2 < a c is positive on the whole interval (its minimum is (ac - m^2) / (a - 2m + c))
    for i in range(14 if tier == "quick" else 150):
        kind, U, p, _, _, _ = mk_pair(rnd, tier)
        if npts_of(U, p) > 6:
            continue
        a, c = F(rnd.randint(1, 6), rnd.choice((1, 2))), F(rnd.randint(1, 6), rnd.choice((1, 2)))
        m = -F(rnd.randint(1, 12), 8)
        if not m * m < a * c:
            m = -min(a, c) / 2
        V = [U[0]] * 3 + [U[-1]] * 3
        if _refined_has_zero(U, p, a, m, c):
            continue          # a refined control value of the divisor would be exactly 0: known finding K3 (kept out of the stream)
        A = curve_json(rnd, U, p, rnd.choice((1, 2)), False)
        B = {"U": fsl(V), "p": 2, "scalar": True, "P": pts_json([[a], [m], [c]]), "W": None}
        if rnd.random() < 0.3:
            A, B = B, dict(B, P=pts_json([[c], [m], [a]]))
        cases.append({"k": "cc", "A": A, "B": B, "op": "div", "kind": kind + "-mixed-sign-divisor", "shared": 0})
    # scalar / vector / matrix forms
    for i in range(50 if tier == "quick" else 600):
        kind, U, p, _, _, _ = mk_pair(rnd, tier)
        if npts_of(U, p) > 7:
            continue
        form = rnd.choice(["neg", "add_s", "radd_s", "sub_s", "rsub_s", "mul_s", "rmul_s", "div_s", "rdiv_s", "rdiv_s",
                           "add_v", "matmul_v", "matmul_m"])
        rational = rnd.random() < 0.15 and form not in ("rdiv_s",)
        s = rnd.choice([F(3), F(-2, 7), F(5, 3), F(1), F(-1)])
        if form == "rdiv_s":
            A = curve_json(rnd, U, p, 1, False, positive=True)
        elif form in ("add_v", "rsub_v", "matmul_v", "matmul_m"):
            A = curve_json(rnd, U, p, 2, rational)
        else:
            A = curve_json(rnd, U, p, rnd.choice((1, 2)), rational)
        cases.append({"k": "cs", "A": A, "form": form, "s": fs(s), "v": fsl([rand_q(rnd), rand_q(rnd)]),
                      "m": [fsl([rand_q(rnd), rand_q(rnd)]), fsl([rand_q(rnd), rand_q(rnd)])], "kind": kind})
    return cases


def impl(case):
    import numpy as np
    from compmec.nurbs import Curve
    from implib import capture, num, nums, points, curve_state

    def build(c):
        cv = Curve(nums(c["U"]), points(c["P"], c["scalar"]))
        if c["W"] is not None:
            cv.weights = nums(c["W"])
        return cv
    A = build(case["A"])
    sa = curve_state(A)
    if case["k"] == "cc":
        B = build(case["B"])
        sb = curve_state(B)
        f = {"add": lambda: A + B, "sub": lambda: A - B, "mul": lambda: A * B, "div": lambda: A / B,
             "matmul": lambda: A @ B}[case["op"]]
        r = capture(lambda: curve_state(f()))
        return {"a": sa, "b": sb, "r": r, "a2": curve_state(A), "b2": curve_state(B)}
    s = num(case["s"])
    v = np.array(nums(case["v"]), dtype=object)
    m = np.array([nums(r) for r in case["m"]], dtype=object)
    f = {"neg": lambda: -A, "add_s": lambda: A + s, "radd_s": lambda: s + A, "sub_s": lambda: A - s,
         "rsub_s": lambda: s - A, "mul_s": lambda: A * s, "rmul_s": lambda: s * A, "div_s": lambda: A / s,
         "rdiv_s": lambda: s / A, "add_v": lambda: A + v, "rsub_v": lambda: v - A, "matmul_v": lambda: A @ v,
         "matmul_m": lambda: A @ m}[case["form"]]
    r = capture(lambda: curve_state(f()))
    return {"a": sa, "r": r, "a2": curve_state(A)}


def cocurve(s):
    P = s["P"] if s["P"] is not None else []
    return ctuple(cql(s["U"]), cnat(s["p"]), cqll(P), copt(s["W"], cql))


OPS = {"add": "AAdd", "sub": "ASub", "mul": "AMul", "div": "ADiv", "matmul": "AMatMul"}
FORMS = {"neg": ("ANeg", "s"), "add_s": ("AAdd", "s"), "radd_s": ("ARAdd", "s"), "sub_s": ("ASub", "s"),
         "rsub_s": ("ARSub", "s"), "mul_s": ("AMul", "s"), "rmul_s": ("ARMul", "s"), "div_s": ("ADiv", "s"),
         "rdiv_s": ("ARDiv", "s"), "add_v": ("AAdd", "v"), "rsub_v": ("ARSub", "v"), "matmul_v": ("AMatMul", "v"),
         "matmul_m": ("AMatMul", "m")}


def emit(case, out):
    a = out["a"] if not out.get("_floats") else dict(out["a"], U=[])
    if case["k"] == "cc":
        return ctuple(cocurve(a), f"(OCurve {cocurve(out['b'])})", OPS[case["op"]], cres(out["r"], cocurve),
                      cocurve(out["a2"]), f"(Some {cocurve(out['b2'])})")
    op, kind = FORMS[case["form"]]
    operand = {"s": lambda: f"(OScalar {cq(case['s'])})", "v": lambda: f"(OVector {cql(case['v'])})",
               "m": lambda: f"(OMatrix {cqll(case['m'])})"}[kind]()
    return ctuple(cocurve(a), operand, op, cres(out["r"], cocurve), cocurve(out["a2"]), "None")


def describe(case):
    if case["k"] == "cc":
        return {"stream": "curve-curve", "op": case["op"], "p": case["A"]["p"], "q": case["B"]["p"], "kind": case["kind"],
                "rational": (case["A"]["W"] is not None) or (case["B"]["W"] is not None)}
    return {"stream": "scalar", "form": case["form"], "p": case["A"]["p"], "rational": case["A"]["W"] is not None}


def nontrivial(case):
    return case["k"] == "cc" and case["A"]["U"] != case["B"]["U"]
