"""C05 - knot removal is exact when possible, refused otherwise, never silently lossy."""
import random

from common import (F, cnat, copt, cq, cql, cqll, cres, ctuple, fsl, fs, distinct, npts_of, pts_json,
                    rand_points, rand_weights, random_vector, shape_vectors)

COQ_MODULE = "NurbsV.Check.C05"
CHECK_FN = "check_case"
CASE_TYPE = "case"
SHARD = 8
RULE = ("undo stream: exhaustive shapes x node multisets inserted by the implementation and then removed (default, "
        "explicit and None tolerance) - must restore the curve exactly; generic stream: random control points, removal of "
        "existing knots with default tolerance (must be refused unless the deviation is within the bound), large tolerance "
        "and tolerance=None (interpolation at the remaining knots); invalid stream: absent knots, end knots, too many "
        "copies; non-trivial = degree >= 1 and a request that names an interior knot")


def gen(tier, seed):
    rnd = random.Random(seed)
    P, M = (3, 2) if tier == "quick" else (4, 3)
    vecs = shape_vectors(P, M)
    vecs += [random_vector(rnd, pmax=3, mmax=2) for i in range(10 if tier == "quick" else 200)]
    cases = []
    for v in vecs:
        U, p = v["U"], v["p"]
        n = npts_of(U, p)
        if n > (8 if tier == "quick" else 12):
            continue
        if tier == "quick" and rnd.random() < (0.5 if v["kind"] == "uniform" else 0.2):
            continue
        if tier != "quick" and rnd.random() < 0.6:
            continue              # a 40% sample of the exhaustive shape family (the whole family needs over an hour)
        ks = distinct(U)
        a, b = ks[0], ks[-1]
        inner = ks[1:-1]
        mids = [(x + y) / 2 for x, y in zip(ks[:-1], ks[1:])]
        if a < 0 < b and F(0) not in ks:
            mids.append(F(0))
        dim = rnd.choice((1, 1, 2))
        base = {"U": fsl(U), "p": p, "scalar": dim == 1, "P": pts_json(rand_points(rnd, n, dim)), "W": None,
                "kind": v["kind"], "mults": v["mults"]}
        # undo an insertion
        undo = []
        x = rnd.choice(mids)
        undo.append([x])
        if p >= 1:
            undo.append([x] * rnd.randint(1, p + 1))
        for y in inner:
            free = p + 1 - U.count(y)
            if free >= 1:
                undo.append([y] * rnd.randint(1, free))
        if len(mids) >= 2:
            undo.append([mids[0], mids[-1]])
        for nodes in (undo if tier != "quick" else rnd.sample(undo, min(2, len(undo)))):
            tol = rnd.choice(["default", "default", "none" if p >= 1 else "default", fs(F(1, 10 ** 6))])
            b2 = base
            if rnd.random() < 0.3:
                # coordinates of size 1e6 .. 1e7: an exactly removable knot has error exactly 0, whatever the magnitude
                big = rnd.choice((10 ** 6, 3 * 10 ** 6 + 1, 10 ** 7))
                b2 = dict(base, P=pts_json([[x * big for x in pt] for pt in rand_points(rnd, n, dim)]), kind=v["kind"] + "-large")
            cases.append(dict(b2, k="undo", nodes=fsl(nodes), tol=tol))
        # generic control points: removal of existing knots
        for y in inner[:2]:
            cnt = U.count(y)
            for tol in ["default", fs(F(1000)), "none" if p >= 1 else fs(F(50)), "adaptive_hi", "adaptive_lo"]:
                if tier == "quick" and rnd.random() < 0.5:
                    continue
                cases.append(dict(base, k="generic", nodes=fsl([y] * rnd.randint(1, cnt)), tol=tol))
        # invalid requests
        bad = [[a], [b, b], [mids[0]], [a - 1]]
        if inner:
            bad.append([inner[0]] * (U.count(inner[0]) + 1))
        for nodes in (bad if tier != "quick" else rnd.sample(bad, 1)):
            cases.append(dict(base, k="invalid", nodes=fsl(nodes), tol=rnd.choice(["default", "none", fs(F(3))])))
    return cases


def impl(case):
    from compmec.nurbs import Curve
    from implib import capture, num, nums, points, curve_state
    curve = Curve(nums(case["U"]), points(case["P"], case["scalar"]))
    if case["W"] is not None:
        curve.weights = nums(case["W"])
    orig = None
    nodes = nums(case["nodes"])
    if case["k"] == "undo":
        orig = curve_state(curve)
        curve.knot_insert(nodes)
    before = curve_state(curve)
    tol = case["tol"]
    tol_used = None
    if tol in ("adaptive_hi", "adaptive_lo"):
        # a tolerance just above / just below the implementation's own error estimate for this removal
        from fractions import Fraction
        try:
            newkv = curve.knotvector - tuple(nodes)
            tmp = Curve(newkv)
            est = tmp.fit_curve(curve, newkv.knots if newkv.degree != 0 else None)
            est = Fraction(est)
        except Exception:  # noqa: BLE001
            est = Fraction(0)
        tol = "default" if est == 0 else fs(est * (Fraction(11, 10) if tol == "adaptive_hi" else Fraction(9, 10)))
        tol_used = tol
    if tol == "default":
        r = capture(lambda: curve.knot_remove(nodes) and None)
    elif tol == "none":
        r = capture(lambda: curve.knot_remove(nodes, None) and None)
    else:
        r = capture(lambda: curve.knot_remove(nodes, num(tol)) and None)
    return {"orig": orig, "before": before, "r": r, "after": curve_state(curve), "tol_used": tol_used}


def cocurve(s):
    P = s["P"] if s["P"] is not None else []
    return ctuple(cql(s["U"]), cnat(s["p"]), cqll(P), copt(s["W"], cql))


def ctol(t):
    return {"default": "TDefault", "none": "TNone"}.get(t) or f"(TGiven {cq(t)})"


def emit(case, out):
    before = out["before"] if not out.get("_floats") else dict(out["before"], U=[])
    return ctuple(copt(out["orig"], cocurve), cocurve(before), cql(case["nodes"]), ctol(out.get("tol_used") or case["tol"]),
                  cres(out["r"], lambda _: "tt"), cocurve(out["after"]))


def describe(case):
    return {"stream": case["k"], "degree": case["p"], "kind": case["kind"], "n_interior": len(case["mults"]),
            "tol": case["tol"] if case["tol"] in ("default", "none", "adaptive_hi", "adaptive_lo") else "given", "rational": case["W"] is not None}


def nontrivial(case):
    return case["p"] >= 1 and case["k"] != "invalid"


def shrink(case):
    ns = case["nodes"]
    for i in range(len(ns)):
        if len(ns) > 1:
            yield dict(case, nodes=ns[:i] + ns[i + 1:])
