"""C06 - degree elevation is exact; degree reduction is its inverse or is refused."""
import random

from common import (F, cnat, copt, cq, cql, cqll, cres, ctuple, cz, fsl, fs, distinct, npts_of, pts_json,
                    rand_points, rand_weights, random_vector, shape_vectors)

COQ_MODULE = "NurbsV.Check.C06"
CHECK_FN = "check_case"
CASE_TYPE = "case"
SHARD = 4
RULE = ("elevation stream: exhaustive shapes (degree <= 3, all multiplicity vectors incl. repeated and full-multiplicity "
        "knots, non-uniform positions) x t in 1..3, method and setter form, polynomial and rational, dimension 1-2, plus "
        "refused t <= 0; round-trip stream: elevate by the implementation then degree_decrease(t) / setter (must restore "
        "exactly); generic reduction: random control points with default tolerance (refused), large tolerance and "
        "None (interpolation); non-trivial = degree >= 1 and an interior knot")


def gen(tier, seed):
    rnd = random.Random(seed)
    P, M = (3, 2) if tier == "quick" else (3, 3)
    vecs = shape_vectors(P, M)
    vecs += [random_vector(rnd, pmax=3, mmax=2) for i in range(6 if tier == "quick" else 150)]
    cases = []
    for v in vecs:
        U, p = v["U"], v["p"]
        n = npts_of(U, p)
        if n > (7 if tier == "quick" else 9):
            continue
        if tier == "quick" and rnd.random() < (0.7 if v["kind"] == "uniform" else 0.35):
            continue
        dim = rnd.choice((1, 1, 2))

        def mk(rational=False):
            return {"U": fsl(U), "p": p, "scalar": dim == 1, "P": pts_json(rand_points(rnd, n, dim)),
                    "W": fsl(rand_weights(rnd, n)) if rational else None, "kind": v["kind"], "mults": v["mults"]}
        tmax = 2 if (tier == "quick" or n > 6) else 3
        t = rnd.randint(1, tmax)
        rational = rnd.random() < 0.4
        cases.append(dict(mk(rational), k="inc", op=["inc", t]))
        cases.append(dict(mk(rnd.random() < 0.3), k="inc", op=["set", p + rnd.randint(1, tmax)]))
        if rnd.random() < 0.3:
            cases.append(dict(mk(), k="inc", op=rnd.choice([["inc", 0], ["inc", -1], ["set", -1], ["set", p]])))
        # round trip
        t = rnd.randint(1, tmax)
        form = rnd.choice([["dec", t, "default"], ["dec", t, "default"], ["set", p], ["dec", t, "none"],
                           ["dec", t, fs(F(1, 10 ** 5))]])
        cases.append(dict(mk(), k="round", elevate=t, op=form))
        # round trip with NEW knots inserted exactly t times after the elevation (multiplicity t at degree p + t is
        # multiplicity 0 at degree p: the curve is still representable, the reduction must succeed and restore it)
        ks = sorted(set(U))
        t2 = rnd.randint(1, tmax)
        mids = [(x + y) / 2 for x, y in zip(ks[:-1], ks[1:])]
        ins = rnd.sample(mids, min(len(mids), rnd.randint(1, 2)))
        cases.append(dict(mk(), k="round", elevate=t2, insert=fsl(sorted(ins * t2)),
                          op=rnd.choice([["dec", t2, "default"], ["set", p], ["dec", t2, "none"]])))
        # generic reduction
        if p >= 1:
            t = rnd.randint(1, p)
            for tol in rnd.sample(["default", fs(F(10 ** 4)), "none", "none"], 2 if tier == "quick" else 3):
                cases.append(dict(mk(), k="generic", op=["dec", t, tol]))
            if rnd.random() < 0.3:
                cases.append(dict(mk(), k="generic", op=["set", p - t]))
            if rnd.random() < 0.2:
                cases.append(dict(mk(), k="generic", op=["dec", rnd.choice((0, -2, p + 1)), rnd.choice(("default", "none"))]))
    # reductions by many degrees in one call (the quadrature of the projection must cover old + new degree)
    for (p, t) in ([(6, 4), (5, 4)] if tier == "quick" else [(6, 4), (5, 4), (6, 5), (7, 4), (5, 3)]):
        U = [F(-1)] * (p + 1) + [F(3, 2)] * (p + 1)
        for tol in ("none", "default", fs(F(10 ** 6))):
            cases.append({"U": fsl(U), "p": p, "scalar": True, "P": pts_json(rand_points(rnd, p + 1, 1)), "W": None,
                          "kind": "bezier-high", "mults": [], "k": "generic", "op": ["dec", t, tol]})
    # high degrees / many steps at once on Bezier curves (binomial-coefficient territory)
    for (p, t, form) in ([(7, 1, "inc"), (8, 1, "set"), (1, 7, "set"), (2, 8, "inc")] if tier == "quick" else
                         [(7, 1, "inc"), (8, 1, "set"), (1, 7, "set"), (2, 8, "inc"), (10, 1, "inc"), (3, 10, "set"), (9, 2, "inc")]):
        U = [F(-1)] * (p + 1) + [F(3, 2)] * (p + 1)
        cases.append({"U": fsl(U), "p": p, "scalar": True, "P": pts_json(rand_points(rnd, p + 1, 1)), "W": None,
                      "kind": "bezier-high", "mults": [], "k": "inc", "op": ["inc", t] if form == "inc" else ["set", p + t]})
    return cases


def impl(case):
    from compmec.nurbs import Curve
    from implib import capture, num, nums, points, curve_state
    curve = Curve(nums(case["U"]), points(case["P"], case["scalar"]))
    if case["W"] is not None:
        curve.weights = nums(case["W"])
    orig = None
    if case["k"] == "round":
        orig = curve_state(curve)
        curve.degree_increase(case["elevate"])
        if case.get("insert"):
            curve.knot_insert(nums(case["insert"]))
    # the same operation on a float copy first, in the same process (matrices memoised per degree must not carry
    # the number class of an earlier call into exact data)
    def _other():
        c2 = Curve([float(u) for u in nums(case["U"])], [float(nums(pt)[0]) for pt in case["P"]])
        c2.degree_increase(1)
        c2.degree_increase(2)
    capture(_other)
    import implib
    implib.FLOATS.clear()
    before = curve_state(curve)
    op = case["op"]

    def run():
        if op[0] == "inc":
            curve.degree_increase(op[1])
        elif op[0] == "set":
            curve.degree = op[1]
        else:
            tol = op[2]
            if tol == "default":
                curve.degree_decrease(op[1])
            elif tol == "none":
                curve.degree_decrease(op[1], None)
            else:
                curve.degree_decrease(op[1], num(tol))
    r = capture(run)
    return {"orig": orig, "before": before, "r": r, "after": curve_state(curve)}


def cocurve(s):
    P = s["P"] if s["P"] is not None else []
    return ctuple(cql(s["U"]), cnat(s["p"]), cqll(P), copt(s["W"], cql))


def ctol(t):
    return {"default": "TDefault", "none": "TNone"}.get(t) or f"(TGiven {cq(t)})"


def cop(op):
    if op[0] == "inc":
        return f"(DInc {cz(op[1])})"
    if op[0] == "set":
        return f"(DSet {cz(op[1])})"
    return f"(DDec {cz(op[1])} {ctol(op[2])})"


def emit(case, out):
    before = out["before"] if not out.get("_floats") else dict(out["before"], U=[])
    return ctuple(copt(out["orig"], cocurve), cocurve(before), cop(case["op"]),
                  cres(out["r"], lambda _: "tt"), cocurve(out["after"]))


def describe(case):
    return {"stream": case["k"], "degree": case["p"], "kind": case["kind"], "n_interior": len(case["mults"]),
            "max_mult": max(case["mults"], default=0), "op": case["op"][0], "rational": case["W"] is not None}


def nontrivial(case):
    return case["p"] >= 1 and len(case["mults"]) >= 1
