#!/venv/bin/python
"""Driver of every check:  main.py <Cxx> [--tier quick|thorough] [--replay FILE]

Steps (DESIGN.md section 4): regenerate constants from /repo, build the Coq development
(model, proofs, property theorems) with a full .vo build, audit it, generate cases, run the
implementation on them, let Coq evaluate (corr_ok, prop_ok) for every case, decide.
"""
from __future__ import annotations

import argparse
import ast
import collections
import concurrent.futures as cf
import fcntl
import hashlib
import importlib
import json
import os
import re
import subprocess
import sys
import time
from pathlib import Path

HERE = Path(__file__).resolve().parent
ROOT = HERE.parent
COQ = ROOT / "coq"
BUILD = ROOT / "build"
REPO = Path(os.environ.get("VERIF_REPO", "/repo"))
PY = "/venv/bin/python"
sys.path.insert(0, str(HERE))

ALLOWED_AXIOMS = {
    # axioms declared by the standard library that a theorem may depend on (none expected;
    # each one found is listed in the evidence)
    "Coq.Logic.FunctionalExtensionality.functional_extensionality_dep",
    "Coq.Logic.Classical_Prop.classic",
    "Coq.Logic.Eqdep.Eq_rect_eq.eq_rect_eq",
    "Coq.Logic.ProofIrrelevance.proof_irrelevance",
    "Coq.Logic.JMeq.JMeq_eq",
}
FORBIDDEN = re.compile(
    r"\b(Admitted|admit|Axiom|Axioms|Parameter|Parameters|Conjecture|Conjectures|Hypothesis|Hypotheses|Variable|Variables)\b"
    r"|Unset\s+Guard|Unset\s+Positivity|Unset\s+Universe|bypass_check|type-in-type|impredicative-set|Admit\s+Obligations")

TRUSTED_BASE = [
    "Coq 8.16.1 kernel and its vm_compute machine (no native_compute)",
    "axioms: none expected; Print Assumptions of every property theorem is parsed on every run and listed under coverage.assumptions_found",
    "hand-written Gallina model coq/Model/*.v of the Python code (exact rationals for Fraction/int; exception classes; reference semantics)",
    "correspondence harness: harness/*.py generators, implementation runner, Coq literal emitter, report parser",
    "tools/extract_consts.py (regenerates coq/Gen/Consts.v from /repo/src on every run; fail-closed)",
    "no extraction (no Extract Constant / Extract Inductive)",
    "Python 3.12 / numpy / fractions themselves; float code paths are validated, not proved",
]


class CheckError(Exception):
    """Infrastructure failure: not a verdict."""


def log(*a):
    print(*a, flush=True)


# --------------------------------------------------------------------------- build


def coq_files():
    files = []
    for sub in ("Base", "Gen", "Spec", "Model", "Proofs", "Props", "Check"):
        d = COQ / sub
        if d.is_dir():
            files += sorted(str(p.relative_to(COQ)) for p in d.glob("*.v"))
    return files


def ensure_project():
    text = "-Q . NurbsV\n" + "\n".join(coq_files()) + "\n"
    proj = COQ / "_CoqProject"
    if not proj.exists() or proj.read_text() != text or not (COQ / "Makefile").exists():
        proj.write_text(text)
        r = subprocess.run(["coq_makefile", "-f", "_CoqProject", "-o", "Makefile"], cwd=COQ,
                           capture_output=True, text=True)
        if r.returncode != 0:
            raise CheckError("coq_makefile failed: " + r.stderr[-500:])


def extract_consts():
    r = subprocess.run([PY, str(ROOT / "tools/extract_consts.py"), str(REPO / "src"),
                        str(COQ / "Gen/Consts.v")], capture_output=True, text=True)
    return r.returncode, (r.stdout + r.stderr).strip()


def make_targets(targets, jobs=16, timeout=3000):
    """Full .vo build of the given targets under a lock.  Returns (ok, output)."""
    BUILD.mkdir(exist_ok=True)
    with open(BUILD / ".lock", "w") as lock:
        fcntl.flock(lock, fcntl.LOCK_EX)
        ensure_project()
        try:
            r = subprocess.run(["make", "-k", f"-j{jobs}"] + targets, cwd=COQ, capture_output=True,
                               text=True, timeout=timeout)
        except subprocess.TimeoutExpired:
            raise CheckError("make timed out")
    return r.returncode == 0, r.stdout + r.stderr


def audit():
    """grep the development for anything that would declare an axiom or switch off a check."""
    bad = []
    for f in coq_files():
        if f.startswith("Gen/"):
            continue
        text = (COQ / f).read_text()
        text = re.sub(r"\(\*.*?\*\)", "", text, flags=re.S)
        in_section = 0
        for ln, line in enumerate(text.splitlines(), 1):
            if re.match(r"\s*Section\b", line):
                in_section += 1
            if re.match(r"\s*End\b", line) and in_section:
                in_section -= 1
            m = FORBIDDEN.search(line)
            if m:
                word = m.group(0)
                if word in ("Variable", "Variables", "Hypothesis", "Hypotheses") and in_section:
                    continue
                bad.append(f"{f}:{ln}: {line.strip()[:100]}")
    return bad


def theorem_names(prop):
    f = COQ / "Props" / f"{prop}.v"
    if not f.exists():
        return []
    text = re.sub(r"\(\*.*?\*\)", "", f.read_text(), flags=re.S)
    return re.findall(r"^\s*(?:Theorem|Lemma|Corollary|Example)\s+(\w+)", text, flags=re.M)


def transitive_sources(prop):
    """Props/Cxx.v and every Proofs/, Model/, Spec/, Base/ file it (transitively) requires."""
    seen, todo = [], [COQ / "Props" / f"{prop}.v"]
    while todo:
        f = todo.pop()
        if f in seen or not f.exists():
            continue
        seen.append(f)
        text = re.sub(r"\(\*.*?\*\)", "", f.read_text(), flags=re.S)
        for sentence in re.split(r"\.\s", text):
            if "Require" not in sentence:
                continue
            for name in re.findall(r"[A-Za-z_][\w.]*", sentence):
                name = name.replace("NurbsV.", "")
                parts = name.split(".")
                if len(parts) == 2 and (COQ / parts[0] / f"{parts[1]}.v").exists():
                    todo.append(COQ / parts[0] / f"{parts[1]}.v")
    return seen


def count_obligations(prop):
    total, done, files = 0, 0, []
    for f in transitive_sources(prop):
        text = re.sub(r"\(\*.*?\*\)", "", f.read_text(), flags=re.S)
        n = len(re.findall(r"\bQed\.", text))
        vo = f.with_suffix(".vo")
        ok = vo.exists() and vo.stat().st_mtime >= f.stat().st_mtime
        total += n
        done += n if ok else 0
        if n:
            files.append(f"{f.relative_to(COQ)}:{n}")
    return total, done, files


def print_assumptions(prop):
    names = theorem_names(prop)
    if not names:
        return {}, "no theorem in Props file"
    d = BUILD / "pa"
    d.mkdir(parents=True, exist_ok=True)
    src = d / f"{prop}_pa.v"
    body = f"From NurbsV Require Import Props.{prop}.\n"
    for n in names:
        body += f'Goal True. idtac "@@ {n}". exact I. Qed.\nPrint Assumptions {n}.\n'
    src.write_text(body)
    r = subprocess.run(["coqc", "-Q", str(COQ), "NurbsV", str(src)], capture_output=True, text=True,
                       timeout=900, cwd=d)
    if r.returncode != 0:
        return {}, "Print Assumptions run failed: " + (r.stdout + r.stderr)[-400:]
    out = r.stdout
    res = {}
    chunks = re.split(r"@@ (\w+)\n", out)
    for i in range(1, len(chunks), 2):
        name, text = chunks[i], chunks[i + 1]
        if "Closed under the global context" in text:
            res[name] = []
        else:
            res[name] = re.findall(r"^([\w.]+)\s*:", text, flags=re.M)
    missing = [n for n in names if n not in res]
    if missing:
        return res, f"no Print Assumptions output for {missing}"
    return res, None


# --------------------------------------------------------------------------- running cases


def run_impl(prop, cases, tag):
    d = BUILD / "run" / f"{prop}-{os.getpid()}"
    d.mkdir(parents=True, exist_ok=True)
    fin, fout = d / f"{tag}_in.json", d / f"{tag}_out.json"
    chunks = [cases[i::8] for i in range(8)] if len(cases) >= 64 else [cases]
    env = dict(os.environ, PYTHONPATH=f"{REPO}/src", PYTHONHASHSEED="0", COMPMEC_NURBS_VERIF="1",
               OMP_NUM_THREADS="1", OPENBLAS_NUM_THREADS="1")
    procs = []
    for i, ch in enumerate(chunks):
        fi, fo = d / f"{tag}_in{i}.json", d / f"{tag}_out{i}.json"
        fi.write_text(json.dumps(ch))
        procs.append((subprocess.Popen([PY, str(HERE / "impl_runner.py"), prop, str(fi), str(fo)],
                                       env=env, stdout=subprocess.PIPE, stderr=subprocess.PIPE, text=True), fo, ch))
    outs_chunks = []
    for p, fo, ch in procs:
        try:
            so, se = p.communicate(timeout=3000)
        except subprocess.TimeoutExpired:
            p.kill()
            raise CheckError("implementation runner timed out")
        if p.returncode != 0 or not fo.exists():
            raise CheckError("implementation runner failed: " + se[-800:])
        outs_chunks.append(json.loads(fo.read_text()))
    if len(chunks) == 1:
        outs = outs_chunks[0]
    else:
        outs = [None] * len(cases)
        for i, oc in enumerate(outs_chunks):
            outs[i::8] = oc
    for o in outs:
        if isinstance(o, dict) and "harness_error" in o:
            # The harness prepares and observes every case with operations that the properties require to succeed (building
            # curves, refining them, reading their state).  On the pinned (unchanged) tree an exception there is a defect of
            # the machinery.  When function bodies differ from the pin, a data-level exception (not one about the shape of the
            # API) is the library failing where it must succeed: the case is reported as a property failure.
            api_shape = o["harness_error"].split(":")[0] in ("AttributeError", "ImportError", "ModuleNotFoundError", "NameError")
            if api_shape or not SOURCE_CHANGED:
                raise CheckError("harness error inside implementation runner: " + o["harness_error"])
    return outs, d


HEADER = """From Coq Require Import QArith List Bool Arith ZArith.
From NurbsV Require Import Base.Res Base.QList Check.Common.
Require Import {module}.
{imports}
Import ListNotations.
Open Scope Q_scope.
Definition cases : list {ctype} := [
{body}
].
Close Scope Q_scope.
Eval vm_compute in (report (map {fn} cases)).
"""

REPORT_RE = re.compile(r"=\s*(\(.*?\))\s*:\s*nat\s*\*\s*list nat\s*\*\s*list nat", re.S)


def run_shard(args):
    path, n = args[:2]
    tmo = args[2] if len(args) > 2 else 2400
    for attempt in (1, 2):
        try:
            r = subprocess.run(["coqc", "-Q", str(COQ), "NurbsV", str(path)], capture_output=True,
                               text=True, timeout=tmo, cwd=path.parent)
        except subprocess.TimeoutExpired:
            if attempt == 2 or tmo < 2400:
                return path, None, "coqc timed out"
            continue
        if r.returncode != 0:
            return path, None, (r.stdout + r.stderr)[-1500:]
        m = REPORT_RE.search(r.stdout)
        if not m:
            return path, None, "cannot parse report: " + r.stdout[-500:]
        txt = m.group(1).replace("%nat", "").replace(";", ",")
        try:
            total, corr_bad, prop_bad = ast.literal_eval(txt)
        except Exception:
            return path, None, "cannot parse report: " + txt[:500]
        if total != n:
            return path, None, f"report counts {total} cases, expected {n}"
        return path, (list(corr_bad), list(prop_bad)), None
    return path, None, "unreachable"


def run_coq(prop, mod, cases, outs, rundir, tag, tmo=2400):
    """Returns (corr_bad_indices, prop_bad_indices, shard_errors)."""
    if hasattr(mod, "families"):
        fams = mod.families()
        groups = collections.OrderedDict()
        for i, c in enumerate(cases):
            groups.setdefault(mod.family_of(c), []).append(i)
        groups = [(fams[name], idx, name) for name, idx in groups.items()]
    else:
        groups = [(mod, list(range(len(cases))), "m")]
    jobs = []
    for fam, idx, fname in groups:
        shard = getattr(fam, "SHARD", 250)
        short = fam.COQ_MODULE.split(".")[-1]
        for si, start in enumerate(range(0, len(idx), shard)):
            sub = idx[start:start + shard]
            body = ";\n".join(mod.emit(cases[i], outs[i]) for i in sub)
            path = rundir / f"{tag}_{fname}_{si}.v"
            path.write_text(HEADER.format(module=fam.COQ_MODULE, ctype=f"{short}.{fam.CASE_TYPE}",
                                          fn=f"{short}.{fam.CHECK_FN}", body=body,
                                          imports=getattr(mod, "EXTRA_IMPORTS", "")))
            jobs.append((path, len(sub), sub))
    corr_bad, prop_bad, errors = [], [], []
    with cf.ThreadPoolExecutor(max_workers=16) as ex:
        for (path, res, err), (_, _, sub) in zip(ex.map(run_shard, [(p, n, tmo) for p, n, _ in jobs]), jobs):
            if err is not None:
                errors.append(f"{path.name}: {err}")
                continue
            corr_bad += [sub[i] for i in res[0]]
            prop_bad += [sub[i] for i in res[1]]
    return sorted(corr_bad), sorted(prop_bad), errors


# --------------------------------------------------------------------------- findings / replay


def load_known(prop):
    f = ROOT / "known_findings.json"
    if not f.exists():
        return []
    data = json.loads(f.read_text())
    return [e for e in data.get("findings", []) if e["property"] == prop and e.get("status") == "known"]


def case_key(case):
    return hashlib.sha1(json.dumps(case, sort_keys=True).encode()).hexdigest()[:12]


def write_replay(prop, kind, payload):
    d = BUILD / "replay"
    d.mkdir(parents=True, exist_ok=True)
    h = hashlib.sha1(json.dumps(payload, sort_keys=True, default=str).encode()).hexdigest()[:10]
    path = d / f"{prop}-{kind}-{h}.json"
    path.write_text(json.dumps(payload, indent=1, default=str))
    return path


def evaluate(prop, mod, cases, tag, tmo=2400):
    """Run implementation + Coq on cases; returns (outs, corr_bad, prop_bad)."""
    if not cases:
        return [], [], []
    outs, rundir = run_impl(prop, cases, tag)
    # cases the library could not even be prepared / observed on (see run_impl): failures by themselves, not sent to Coq
    raised = [i for i, o in enumerate(outs) if isinstance(o, dict) and "harness_error" in o]
    keep = [i for i in range(len(cases)) if i not in set(raised)]
    corr_bad, prop_bad, errors = run_coq(prop, mod, [cases[i] for i in keep], [outs[i] for i in keep], rundir, tag, tmo)
    if errors:
        raise CheckError("Coq evaluation of generated cases failed: " + " | ".join(errors)[:2000])
    corr_bad = sorted([keep[i] for i in corr_bad] + raised)
    prop_bad = sorted([keep[i] for i in prop_bad] + raised)
    return outs, corr_bad, prop_bad


def shrink(prop, mod, case, pred_is_prop=True, rounds=6):
    """Greedy shrinking with the module's own candidate generator (if any)."""
    if not hasattr(mod, "shrink"):
        return case
    cur = case
    for r in range(rounds):
        cands = list(mod.shrink(cur))[:40]
        if not cands:
            break
        try:
            outs, corr_bad, prop_bad = evaluate(prop, mod, cands, f"shrink{r}")
        except CheckError:
            break
        bad = prop_bad if pred_is_prop else corr_bad
        if not bad:
            break
        cur = cands[bad[0]]
    return cur


# --------------------------------------------------------------------------- main


SOURCE_CHANGED = False


def changed_functions():
    """functions of the library whose body differs from pins/source_functions.json (tools/pin_source.py)"""
    try:
        sys.path.insert(0, str(ROOT / "tools"))
        import pin_source
        r = pin_source.changed(os.path.join(os.environ.get("VERIF_REPO", "/repo"), "src"))
        return r or []
    except Exception as e:          # the pin is advisory: never let it break a check
        return [f"<pin unavailable: {e}>"] if False else []


def main():
    ap = argparse.ArgumentParser()
    ap.add_argument("prop")
    ap.add_argument("--tier", default=os.environ.get("VERIF_TIER", "quick"), choices=["quick", "thorough"])
    ap.add_argument("--replay")
    args = ap.parse_args()
    prop = args.prop.upper()
    seed = int(os.environ.get("VERIF_SEED", "0") or 0)
    t0 = time.time()
    mod = importlib.import_module(f"props.{prop.lower()}")
    evidence_path = Path(os.environ.get("VERIF_EVIDENCE_DIR", ROOT / "evidence")) / f"{prop}.json"
    try:
        rc = run(prop, mod, args.tier, seed, args.replay, evidence_path, t0)
    except CheckError as e:
        log(f"CHECK-ERROR: property={prop} {e}")
        sys.exit(2)
    except Exception as e:  # noqa: BLE001 - a defect of the machinery (generator, emitter): never a verdict about the library
        import traceback
        traceback.print_exc()
        log(f"CHECK-ERROR: property={prop} internal error of the checking machinery: {type(e).__name__}: {e}")
        sys.exit(2)
    sys.exit(rc)


def run(prop, mod, tier, seed, replay, evidence_path, t0):
    broken = []          # proof / tie obligations that no longer check (names)
    global SOURCE_CHANGED
    source_changed = changed_functions()
    SOURCE_CHANGED = bool(source_changed)
    # 1. constants from the source
    rc, msg = extract_consts()
    if rc != 0:
        broken.append(f"tie: tools/extract_consts.py no longer recognises the source ({msg})")
    # 2. build
    targets = [f"Check/{prop}.vo"]
    if (COQ / "Props" / f"{prop}.v").exists():
        targets.append(f"Props/{prop}.vo")
    extra = getattr(mod, "EXTRA_TARGETS", [])
    ok, out = make_targets(targets + list(extra))
    check_vo = COQ / "Check" / f"{prop}.vo"
    if not ok:
        failing = re.findall(r'File "\./([^"]+)", line (\d+)', out)
        names = sorted({f"{f}:{ln}" for f, ln in failing})
        if not check_vo.exists() or check_vo.stat().st_mtime < (COQ / "Check" / f"{prop}.v").stat().st_mtime:
            # the executable model itself does not build: without it nothing can be decided
            if rc != 0 or any(f.startswith(("Gen/", "Model/", "Check/", "Spec/", "Base/")) for f, _ in failing):
                broken.append("model: the executable model does not compile against the regenerated constants: " + ", ".join(names))
            else:
                raise CheckError("build failed: " + out[-1500:])
        else:
            broken.append("proof: " + ", ".join(names) + " no longer checks")
    # 3. audit + assumptions
    bad = audit()
    if bad:
        broken.append("audit: forbidden declaration: " + "; ".join(bad[:5]))
    assumptions, pa_err = ({}, None)
    if ok:
        assumptions, pa_err = print_assumptions(prop)
        if pa_err:
            broken.append("assumptions: " + pa_err)
        for thm, axs in assumptions.items():
            for ax in axs:
                if ax not in ALLOWED_AXIOMS and not ax.split(".")[-1] in {a.split(".")[-1] for a in ALLOWED_AXIOMS}:
                    broken.append(f"assumptions: theorem {thm} depends on {ax}")
    obligations, discharged, obl_files = count_obligations(prop)

    model_runs = check_vo.exists()
    # replay mode: one recorded case
    if replay:
        payload = json.loads(Path(replay).read_text())
        case = payload.get("case")
        if case is None:
            log(f"replay file names a broken obligation, no concrete input: {payload.get('broken')}")
            log("re-run the check itself to see whether it still fails")
            return 1 if broken else 0
        outs, corr_bad, prop_bad = evaluate(prop, mod, [case], "replay")
        log(json.dumps({"case": case, "impl": outs[0], "corr_ok": not corr_bad, "prop_ok": not prop_bad})[:4000])
        if prop_bad:
            log(f"VIOLATION property={prop} replay={replay}")
            return 1
        return 0

    violations = []      # (kind, replay path)
    known_lines = []
    stats = {}
    cases, outs, corr_bad, prop_bad = [], [], [], []
    searched = 0
    if model_runs:
        # corpus first, then generated cases
        corpus = []
        cdir = ROOT / "corpus" / prop
        if cdir.is_dir():
            for f in sorted(cdir.glob("*.json")):
                corpus.append(json.loads(f.read_text())["case"])
        gen_cases = mod.gen(tier, seed)
        # effort follows the change: when function bodies differ from the pinned (unchanged) tree, the quick tier runs
        # two further independently seeded streams (a difference is never a verdict by itself)
        if tier == "quick" and source_changed and not os.environ.get("VERIF_NO_ESCALATE"):
            seen = {case_key(c) for c in gen_cases}
            for extra_seed in (seed + 101, seed + 202):
                for c in mod.gen(tier, extra_seed):
                    if case_key(c) not in seen:
                        seen.add(case_key(c))
                        gen_cases.append(c)
        cases = corpus + gen_cases
        outs, corr_bad, prop_bad = evaluate(prop, mod, cases, "main")
        if os.environ.get("VERIF_DUMP"):
            dump = [{"i": i, "corr_bad": i in corr_bad, "prop_bad": i in prop_bad,
                     "desc": mod.describe(cases[i]) if hasattr(mod, "describe") else {},
                     "case": cases[i], "out": outs[i]} for i in sorted(set(corr_bad) | set(prop_bad))[:400]]
            (BUILD / f"dump_{prop}.json").write_text(json.dumps(dump, indent=1, default=str))
        known = load_known(prop)
        # known findings: replay each recorded input
        kcases = [k["case"] for k in known if "case" in k]
        if kcases:
            kouts, kcorr, kprop = evaluate(prop, mod, kcases, "known")
            for i, k in enumerate([k for k in known if "case" in k]):
                if i in kprop:
                    known_lines.append(f"KNOWN-FINDING: property={prop} {k['id']}: {k['what']}")
        known_keys = {case_key(k["case"]) for k in known if "case" in k}
        # property failures on the implementation
        fresh_prop_bad = [i for i in prop_bad if case_key(cases[i]) not in known_keys
                          and not any(getattr(mod, "in_known_class", lambda c, k: False)(cases[i], k) for k in known)]
        if fresh_prop_bad:
            i = fresh_prop_bad[0]
            small = shrink(prop, mod, cases[i], True)
            souts, _, sprop = evaluate(prop, mod, [small], "final")
            if not sprop:
                small, souts = cases[i], [outs[i]]
            path = write_replay(prop, "violation", {
                "property": prop, "kind": "property fails on the implementation (prop_ok = false)",
                "case": small, "implementation_output": souts[0], "original_case_index": i,
                "other_failing_cases": len(fresh_prop_bad) - 1,
                "how_to_replay": f"./check {prop} --replay <this file>"})
            violations.append(("prop", path, ""))
        elif corr_bad or broken:
            # model/code tie or a proof broke, no property failure seen yet: search harder
            if model_runs and tier == "quick" and hasattr(mod, "gen"):
                extra_cases = mod.gen("thorough", seed + 1)
                limit = getattr(mod, "SEARCH_LIMIT", 4 * max(len(gen_cases), 200))
                extra_cases = extra_cases[:limit]
                searched = len(extra_cases)
                try:
                    eouts, ecorr, eprop = evaluate(prop, mod, extra_cases, "search", 420)
                except CheckError:
                    eouts, ecorr, eprop = [], [], []
                eprop = [i for i in eprop if case_key(extra_cases[i]) not in known_keys]
                if eprop:
                    i = eprop[0]
                    small = shrink(prop, mod, extra_cases[i], True)
                    souts, _, sprop = evaluate(prop, mod, [small], "final")
                    if not sprop:
                        small, souts = extra_cases[i], [eouts[i]]
                    path = write_replay(prop, "violation", {
                        "property": prop, "kind": "property fails on the implementation (found by the search after the tie broke)",
                        "case": small, "implementation_output": souts[0], "broken": broken,
                        "how_to_replay": f"./check {prop} --replay <this file>"})
                    violations.append(("prop", path, ""))
            if not violations:
                payload = {"property": prop, "broken": broken,
                           "kind": "model/implementation correspondence or proof obligation no longer checks; no input on which the property fails was found",
                           "searched_cases": searched + len(cases)}
                if corr_bad:
                    i = corr_bad[0]
                    small = shrink(prop, mod, cases[i], False)
                    so, sc, _ = evaluate(prop, mod, [small], "final")
                    if not sc:
                        small, so = cases[i], [outs[i]]
                    payload["correspondence"] = f"{mod.COQ_MODULE}: model and implementation disagree"
                    payload["case"] = small
                    payload["implementation_output"] = so[0]
                    payload["disagreeing_cases"] = len(corr_bad)
                path = write_replay(prop, "tie", payload)
                violations.append(("tie", path, " no-failing-input-found"))
    else:
        payload = {"property": prop, "broken": broken,
                   "kind": "the model no longer builds against the source-derived constants; nothing could be executed"}
        # still try to find a failing input with whatever oracle the module has on the python side
        path = write_replay(prop, "tie", payload)
        violations.append(("tie", path, " no-failing-input-found"))

    # evidence
    hist = collections.Counter()
    nontrivial = set()
    evaluations = 0
    for c in cases:
        d = mod.describe(c) if hasattr(mod, "describe") else {}
        for k, v in d.items():
            hist[f"{k}={v}"] += 1
        if not hasattr(mod, "nontrivial") or mod.nontrivial(c):
            nontrivial.add(case_key(c))
        evaluations += mod.evaluations(c) if hasattr(mod, "evaluations") else 1
    families = getattr(mod, "FAMILIES", 1)
    ev = {
        "property_id": prop, "tier": tier, "seed": seed, "level": "proof",
        "coverage": {
            "obligations": obligations + families,
            "discharged": (discharged if ok else 0) + (families if (model_runs and not corr_bad) else 0),
            "checker_cmd": f"make -C coq Props/{prop}.vo Check/{prop}.vo (coqc 8.16.1, full .vo build) + coqc on generated case shards",
            "trusted_base": TRUSTED_BASE,
            "theorems": theorem_names(prop),
            "assumptions_found": assumptions,
            "qed_per_file": obl_files,
            "evaluations": evaluations,
            "cases": len(cases),
            "distinct_nontrivial": len(nontrivial),
            "rule": getattr(mod, "RULE", (mod.nontrivial.__doc__ or "").strip() if hasattr(mod, "nontrivial") else "every generated case"),
            "samples": [cases[i] for i in sorted({0, len(cases) // 2, len(cases) - 1})] if cases else [],
            "input_histogram": dict(sorted(hist.items())),
            "correspondence_disagreements": len(corr_bad),
            "property_failures": len(prop_bad),
            "search_cases": searched,
            "float_outputs_seen": sum(1 for o in outs if isinstance(o, dict) and o.get("_floats")),
            "known_findings_still_failing": len(known_lines),
            "broken_obligations": broken,
            "source_functions_changed_since_pin": source_changed[:40],
            "escalated_streams": 3 if (tier == "quick" and source_changed) else 1,
        },
        "assumptions": getattr(mod, "ASSUMPTIONS", []) + ["see coverage.trusted_base"],
        "wall_s": round(time.time() - t0, 1),
        "violations": len(violations),
    }
    extra_ev = getattr(mod, "extra_evidence", None)
    if extra_ev:
        ev["coverage"].update(extra_ev(cases, outs))
    evidence_path.parent.mkdir(exist_ok=True)
    evidence_path.write_text(json.dumps(ev, indent=1, default=str))
    for line in known_lines:
        log(line)
    log(f"{prop} [{tier}] cases={len(cases)} evaluations={evaluations} corr_bad={len(corr_bad)} "
        f"prop_bad={len(prop_bad)} obligations={obligations}+{families} broken={len(broken)} "
        f"wall={ev['wall_s']}s")
    for kind, path, suffix in violations:
        log(f"VIOLATION property={prop} replay={path}{suffix}")
    return 1 if violations else 0


if __name__ == "__main__":
    main()
