"""Runs the implementation on a batch of cases:  impl_runner.py <prop> <in.json> <out.json>"""
import importlib
import json
import sys
import warnings

warnings.filterwarnings("ignore")
sys.path.insert(0, __file__.rsplit("/", 1)[0])


def main():
    prop, fin, fout = sys.argv[1:4]
    mod = importlib.import_module(f"props.{prop.lower()}")
    import implib
    cases = json.load(open(fin))
    outs = []
    prewarm = getattr(mod, "PREWARM", True)
    for case in cases:
        if prewarm:
            # The same case is first executed with every number given as a float, in the same process, and the result
            # thrown away: answers for exact data must not depend on what the process computed before (memo tables keyed
            # by equal-comparing numbers or by degree only).  Failures and time-outs of this pre-run are ignored.
            implib.CONV = float
            try:
                implib.capture(lambda: mod.impl(case), seconds=20)
            finally:
                implib.CONV = None
        implib.FLOATS.clear()
        try:
            out = mod.impl(case)
        except BaseException as e:  # harness-level failure, reported per case
            if isinstance(e, (KeyboardInterrupt, SystemExit)):
                raise
            out = {"harness_error": f"{type(e).__name__}: {e}"}
        if isinstance(out, dict):
            out["_floats"] = len(implib.FLOATS)
        outs.append(out)
    json.dump(outs, open(fout, "w"))


if __name__ == "__main__":
    main()
