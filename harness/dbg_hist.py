"""Pinpoint the first failing step of failing C03 histories by re-checking prefixes."""
import sys, json, importlib, os
sys.path.insert(0, os.path.dirname(__file__))
import main as M
mod = importlib.import_module("props.c03")
cases = [c for c in mod.gen("quick", 0) if c["k"] == "hist"]
outs, corr_bad, prop_bad = M.evaluate("C03", mod, cases, "dbg")
print(len(cases), len(corr_bad), len(prop_bad))
# build prefix cases
sub, meta = [], []
for i in sorted(set(corr_bad) | set(prop_bad)):
    for n in range(1, len(outs[i]["steps"]) + 1):
        c = dict(cases[i]); c["_n"] = n
        sub.append(c); meta.append((i, n))
subouts = []
for (i, n) in meta:
    subouts.append({"steps": outs[i]["steps"][:n]})
rundir = M.BUILD / "run" / "dbgh"; rundir.mkdir(parents=True, exist_ok=True)
cb, pb, err = M.run_coq("C03", mod, sub, subouts, rundir, "pre")
print(err[:2])
seen = set()
for idx, (i, n) in enumerate(meta):
    if i in seen: continue
    if idx in cb or idx in pb:
        seen.add(i)
        s = outs[i]["steps"][n - 1]
        prev = outs[i]["steps"][n - 2]["obs"]["U"] if n > 1 else cases[i]["U"]
        print(("C" if idx in cb else "-") + ("P" if idx in pb else "-"), "case", i, "step", n, "prev", prev)
        print("    op", json.dumps(s["op"]), "r", json.dumps(s["r"]), "U'", s["obs"]["U"], "p", s["obs"]["p"], "knots", s["obs"]["knots"])
