"""Shared helpers: rational <-> text, Coq literal emitters, structured generators."""
from __future__ import annotations

import itertools
import random
from fractions import Fraction as F

# --------------------------------------------------------------------------- numbers


def fs(x) -> str:
    """Fraction/int -> 'n/d' (JSON transport)."""
    x = F(x)
    return f"{x.numerator}/{x.denominator}"


def fp(s) -> F:
    """'n/d' -> Fraction."""
    if isinstance(s, (int, F)):
        return F(s)
    n, d = s.split("/")
    return F(int(n), int(d))


def fsl(l):
    return [fs(x) for x in l]


def fpl(l):
    return [fp(x) for x in l]


# --------------------------------------------------------------------------- Coq literals


def cq(x) -> str:
    x = fp(x) if isinstance(x, str) else F(x)
    n, d = x.numerator, x.denominator
    return f"(({n})#{d})" if n < 0 else f"({n}#{d})"


def cnat(n) -> str:
    return f"{int(n)}%nat"


def cz(n) -> str:
    n = int(n)
    return f"({n})%Z"


def cbool(b) -> str:
    return "true" if b else "false"


def clist(items, f=lambda s: s) -> str:
    return "[" + "; ".join(f(i) for i in items) + "]"


def cql(l) -> str:
    return clist(l, cq)


def cqll(l) -> str:
    return clist(l, cql)


def cqlll(l) -> str:
    return clist(l, cqll)


def cnatl(l) -> str:
    return clist(l, cnat)


def copt(x, f) -> str:
    return "None" if x is None else f"(Some {f(x)})"


EXN = {"ValueError", "AssertionError", "TypeError", "IndexError", "ZeroDivisionError",
       "NotImplementedError"}


def cexn(name) -> str:
    return name if name in EXN else "OtherError"


def cres(out, f) -> str:
    """out = {'ok': value} | {'err': 'ClassName'}"""
    if "err" in out:
        return f"(Err {cexn(out['err'])})"
    return f"(Ok {f(out['ok'])})"


def ctuple(*parts) -> str:
    return "(" + ", ".join(parts) + ")"


# --------------------------------------------------------------------------- knot-vector shapes

NONUNIF_INTERIOR = [F(-1, 4), F(0), F(2, 7), F(5, 3), F(9, 4)]
NONUNIF_ENDS = (F(-3, 2), F(7, 2))


def shapes(P: int, M: int, pmin: int = 0):
    """Exhaustive shapes: (degree, tuple of interior multiplicities)."""
    out = []
    for p in range(pmin, P + 1):
        for m in range(0, M + 1):
            for mults in itertools.product(range(1, p + 2), repeat=m):
                out.append((p, tuple(mults)))
    return out


def positions(m: int, kind: str):
    """umin, interior knot values (m of them), umax."""
    if kind == "uniform":
        return F(0), [F(i, m + 1) for i in range(1, m + 1)], F(1)
    if kind == "nonuniform":
        sel = NONUNIF_INTERIOR[:m] if m <= len(NONUNIF_INTERIOR) else None
        if sel is None:
            raise ValueError("too many interior knots for the fixed position set")
        if m == 1:
            sel = [F(0)]
        return NONUNIF_ENDS[0], sorted(sel), NONUNIF_ENDS[1]
    raise ValueError(kind)


def build_vector(p: int, mults, kind: str):
    a, ks, b = positions(len(mults), kind)
    U = [a] * (p + 1)
    for k, m in zip(ks, mults):
        U += [k] * m
    U += [b] * (p + 1)
    return U


def shape_vectors(P: int, M: int, pmin: int = 0, kinds=("uniform", "nonuniform")):
    out = []
    for p, mults in shapes(P, M, pmin):
        for kind in kinds:
            out.append({"p": p, "mults": list(mults), "kind": kind, "U": build_vector(p, mults, kind)})
    return out


def random_vector(rnd: random.Random, pmax=4, mmax=4, big=False):
    p = rnd.randint(0, pmax)
    m = rnd.randint(0, mmax)
    if not big:
        dens = (1, 2, 3, 5, 7, 12)
        cand = sorted({F(a, d) for d in dens for a in range(-2 * d + 1, 3 * d)})
        cand = [c for c in cand if F(-2) < c < F(3)]
        ks = sorted(rnd.sample(cand, m))
    else:
        ks = set()
        while len(ks) < m:
            d = rnd.choice((3, 97, 10007, 10 ** 9 + 7, 10 ** 30 + 57))
            c = F(rnd.randint(-2 * d + 1, 3 * d - 1), d)
            if F(-2) < c < F(3):
                ks.add(c)
        ks = sorted(ks)
    U = [F(-2)] * (p + 1)
    mults = []
    for k in ks:
        mu = rnd.randint(1, p + 1)
        mults.append(mu)
        U += [k] * mu
    U += [F(3)] * (p + 1)
    return {"p": p, "mults": mults, "kind": "random-big" if big else "random", "U": U}


def distinct(U):
    out = []
    for x in U:
        if not out or out[-1] != x:
            out.append(x)
    return out


def near_knot_nodes(U):
    """parameters within round-off of an interior knot, on either side (closer than the 1e-9 / 1e-6 tolerances the library
    uses for multiplicities and distinct knots): the span must still be decided by exact comparison"""
    out = []
    for k in distinct(U)[1:-1][:2]:
        out += [k - F(1, 10 ** 12), k + F(1, 10 ** 12)]
    return out


def node_set(U, p, outside=True):
    """Both ends, every knot, span midpoints, points at distance 1/97 (of the span) from
    each knot, points 1e-12 from the first interior knots, umax, and (optionally) four points outside."""
    ks = distinct(U)
    nodes = []
    for a, b in zip(ks[:-1], ks[1:]):
        h = b - a
        nodes += [a, a + h / 97, (a + b) / 2, b - h / 97]
    nodes += near_knot_nodes(U)
    nodes.append(ks[-1])
    if outside:
        # clearly outside, and outside by less than any tolerance the library uses elsewhere (1e-6, 1e-9)
        nodes += [ks[0] - F(1, 2 * 10 ** 10), ks[-1] + F(1, 10 ** 10), ks[0] - F(1, 3), ks[-1] + F(1, 1000)]
    return nodes


def basis_row(U, p, u):
    """exact Cox-de Boor values N_{i,p}(u), i = 0..npts-1 (right-continuous, left limit at the last knot); generator-side
    helper only - the oracle of every check is the Coq specification"""
    n = len(U) - p - 1
    last = max(i for i in range(len(U) - 1) if U[i] < U[i + 1])
    N = [F(1) if (U[i] <= u < U[i + 1] or (u == U[-1] and i == last)) else F(0) for i in range(len(U) - 1)]
    for j in range(1, p + 1):
        M = []
        for i in range(len(U) - 1 - j):
            a = (u - U[i]) / (U[i + j] - U[i]) * N[i] if U[i + j] != U[i] else F(0)
            b = (U[i + j + 1] - u) / (U[i + j + 1] - U[i + 1]) * N[i + 1] if U[i + j + 1] != U[i + 1] else F(0)
            M.append(a + b)
        N = M
    return N[:n]


def weights_one_at(U, p, W, u0):
    """the weights scaled so that the weight function equals exactly 1 at u0"""
    w0 = sum(n * w for n, w in zip(basis_row(U, p, u0), W))
    return [w / w0 for w in W]


def rand_q(rnd, lo=-5, hi=5, dens=(1, 2, 3, 4, 7)):
    d = rnd.choice(dens)
    return F(rnd.randint(lo * d, hi * d), d)


def rand_points(rnd, n, dim):
    if rnd.random() < 0.12:
        return [[F(rnd.randint(-9, 9)) for _ in range(dim)] for _ in range(n)]     # all integral (see implib.points)
    return [[rand_q(rnd) for _ in range(dim)] for _ in range(n)]


def rand_weights(rnd, n):
    return [F(rnd.randint(1, 12), rnd.choice((1, 2, 3, 5))) for _ in range(n)]


def npts_of(U, p):
    return len(U) - p - 1


# --------------------------------------------------------------------------- JSON <-> python


def pts_json(P):
    return [fsl(pt) for pt in P]


def pts_parse(P):
    return [fpl(pt) for pt in P]
