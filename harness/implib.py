"""Implementation-side helpers (run under /venv/bin/python with PYTHONPATH=/repo/src)."""
from __future__ import annotations

import signal
from fractions import Fraction as F

import numpy as np


# optional converter applied to every number read from a case (used for the discarded float pre-run, see impl_runner)
CONV = None


def num(s):
    if isinstance(s, (int, F)):
        x = F(s)
    else:
        n, d = s.split("/")
        x = F(int(n), int(d))
    return CONV(x) if CONV is not None else x


def nums(l):
    return [num(x) for x in l]


def points(P, scalar):
    """P: list of lists of 'n/d'.  scalar -> plain Fractions, else numpy object vectors."""
    if P is None:
        return None
    if INT_POINTS and CONV is None and P and all(x.split("/")[1] == "1" for pt in P for x in pt):
        # all coordinates integral: handed over as Python ints / integer numpy arrays, the way a user would type them
        # (with Fraction knots the results must still be exact rationals)
        if scalar:
            return [int(pt[0].split("/")[0]) for pt in P]
        return [np.array([int(x.split("/")[0]) for x in pt]) for pt in P]
    if scalar:
        return [num(pt[0]) for pt in P]
    return [np.array([num(x) for x in pt], dtype="object") for pt in P]


INT_POINTS = True


class FloatSeen(Exception):
    pass


class HarnessConversion(Exception):
    """a value RETURNED by the library could not be written as an exact rational (NaN, infinity, bool, not a number).
    Its own class, so that `capture` never reports it under the name of an exception the library may legitimately raise
    (a NaN inside an accepted result once looked like a ValueError refusal)."""


def out_num(x):
    """Exact text of a returned number; floats are converted exactly and flagged."""
    if isinstance(x, (bool, np.bool_)):
        raise HarnessConversion("bool where a number was expected")
    if isinstance(x, (int, np.integer)):
        return f"{int(x)}/1"
    if isinstance(x, F):
        return f"{x.numerator}/{x.denominator}"
    if isinstance(x, (float, np.floating)):
        if not np.isfinite(x):
            raise HarnessConversion(f"non-finite value returned: {x!r}")
        fx = F(float(x))
        FLOATS.append(float(x))
        return f"{fx.numerator}/{fx.denominator}"
    raise HarnessConversion(f"not a number: {type(x).__name__}")


FLOATS: list = []


def out_point(pt):
    if isinstance(pt, np.ndarray) and pt.ndim == 0:
        pt = pt.item()
    try:
        it = list(pt)
    except TypeError:
        return [out_num(pt)]
    return [out_num(x) for x in it]


def out_points(P):
    return None if P is None else [out_point(pt) for pt in P]


def out_nums(l):
    return None if l is None else [out_num(x) for x in l]


class Timeout(Exception):
    pass


def _alarm(signum, frame):
    raise Timeout()


def capture(fn, seconds=300):
    signal.signal(signal.SIGALRM, _alarm)
    signal.alarm(seconds)
    try:
        return {"ok": fn()}
    except Timeout:
        return {"err": "Timeout"}
    except BaseException as e:  # noqa: BLE001 - the class name is the observation
        if isinstance(e, (KeyboardInterrupt, SystemExit)):
            raise
        return {"err": type(e).__name__}
    finally:
        signal.alarm(0)


def curve_state(c):
    """Observable state of a Curve."""
    return {"U": out_nums(list(c.knotvector)), "p": int(c.knotvector.degree),
            "P": out_points(c.ctrlpoints), "W": out_nums(c.weights)}
