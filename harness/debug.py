"""debug.py Cxx [tier] : list failing cases (corr/prop) compactly."""
import sys, json, importlib, os
sys.path.insert(0, os.path.dirname(__file__))
import main as M
prop = sys.argv[1].upper(); tier = sys.argv[2] if len(sys.argv) > 2 else "quick"
limit = int(sys.argv[3]) if len(sys.argv) > 3 else 15
mod = importlib.import_module(f"props.{prop.lower()}")
M.extract_consts()
ok, out = M.make_targets([f"Check/{prop}.vo"])
if not ok: print(out[-3000:]); sys.exit(1)
cases = mod.gen(tier, int(os.environ.get("VERIF_SEED", "0")))
if os.environ.get("ONLY"):
    cases = [c for c in cases if all(str(c.get(k)) == v for k, v in (kv.split("=") for kv in os.environ["ONLY"].split(",")))]
outs, corr_bad, prop_bad = M.evaluate(prop, mod, cases, "dbg")
print("cases", len(cases), "corr_bad", len(corr_bad), "prop_bad", len(prop_bad))
shown = 0
for i in sorted(set(corr_bad) | set(prop_bad)):
    tag = ("C" if i in corr_bad else "-") + ("P" if i in prop_bad else "-")
    print(tag, i, json.dumps(cases[i])[:600])
    print("     ->", json.dumps(outs[i])[:1200])
    shown += 1
    if shown >= limit: break
